#!/usr/bin/env python3-vt
"""Seeded-fault / harmless-edit self-test of the FX engine.

    python3-vt /verif/tests_fx/selftest.py [--no-replay] [-k substring]

/repo is copied to /tmp/fx_scratch; every mutation below is applied to a private copy of the
package (programmatic text replacement), the three FX families are run in a subprocess with
VERIF_REPO pointing at the mutated tree, and the expected obligations must become REFUTED.  Harmless
edits must leave every verdict unchanged (obligations of newly introduced functions must be
discharged).  The scratch directory is removed at the end.
"""
import concurrent.futures
import fnmatch
import json
import os
import shutil
import subprocess
import sys
import time

HERE = os.path.dirname(os.path.abspath(__file__))
VERIF = os.path.dirname(HERE)
SRC_REPO = os.environ.get("FX_SELFTEST_SOURCE", "/repo")
SCRATCH = "/tmp/fx_scratch"
PY = sys.executable
REPLAY_PY = os.environ.get("VERIF_REPLAY_PY", "/venv/bin/python")

P, L, G, A_ = "pycparser/c_parser.py", "pycparser/c_lexer.py", "pycparser/c_generator.py", "pycparser/c_ast.py"

# (id, [(file, old, new), ...], [expected REFUTED obligation globs])
MUTATIONS = [
    # ------------------------------------------------------------------ C13
    ("C13-typedef-cache", [
        (P, "class ParseError(Exception):\n    pass\n", "class ParseError(Exception):\n    pass\n\n\n_typedef_cache = {}\n"),
        (P, "        for scope in reversed(self._scope_stack):\n            # If name is an identifier in this scope it shadows typedefs in\n"
            "            # higher scopes.\n            if name in scope:\n                return scope[name]\n        return False\n",
            "        if name in _typedef_cache:\n            return _typedef_cache[name]\n"
            "        for scope in reversed(self._scope_stack):\n            if name in scope:\n"
            "                _typedef_cache[name] = scope[name]\n                return scope[name]\n        return False\n"),
    ], ["C13/fx/no-shared-write/c_parser.CParser._is_type_in_scope", "C13/fx/no-shared-read-of-written"]),
    ("C13-class-level-scope-stack", [
        (P, "    def __init__(\n        self,\n        lex_optimize: bool = True,", "    _scope_stack = [dict()]\n\n    def __init__(\n        self,\n        lex_optimize: bool = True,"),
        (P, "        self._scope_stack: List[Dict[str, bool]] = [dict()]\n", "        self._scope_stack.clear()\n        self._scope_stack.append(dict())\n"),
        (P, "        self._scope_stack = [dict()]\n        self.clex.input(text, filename)\n", "        self._scope_stack.clear()\n        self._scope_stack.append(dict())\n        self.clex.input(text, filename)\n"),
    ], ["C13/fx/no-shared-write/c_parser.CParser.parse", "C13/fx/no-shared-write/c_parser.CParser._push_scope",
        "C13/fx/no-shared-write/c_parser.CParser._add_identifier"]),
    ("C13-class-level-method-cache", [
        (A_, "    _method_cache = None\n", "    _method_cache = {}\n"),
        (A_, "        if self._method_cache is None:\n            self._method_cache = {}\n\n", ""),
    ], ["C13/fx/no-shared-write/c_ast.NodeVisitor.visit", "C13/fx/footprint/NodeVisitor"]),
    ("C13-shared-module-lexer", [
        (P, "class ParseError(Exception):\n    pass\n",
            "class ParseError(Exception):\n    pass\n\n\ndef _shared_err(msg, line, column):\n    raise ParseError(f\"{line}:{column}: {msg}\")\n\n\n"
            "_SHARED_LEXER = CLexer(\n    error_func=_shared_err,\n    on_lbrace_func=lambda: None,\n    on_rbrace_func=lambda: None,\n"
            "    type_lookup_func=lambda name: False,\n)\n"),
        (P, "        self.clex: CLexer = lexer(\n            error_func=self._lex_error_func,\n            on_lbrace_func=self._lex_on_lbrace_func,\n"
            "            on_rbrace_func=self._lex_on_rbrace_func,\n            type_lookup_func=self._lex_type_lookup_func,\n        )\n",
            "        self.clex: CLexer = _SHARED_LEXER\n"),
    ], ["C13/fx/footprint/CParser", "C13/fx/no-shared-write/c_parser.CParser.parse", "C13/fx/footprint/_TokenStream"]),
    ("C13-shared-lexer-list", [
        (P, "class ParseError(Exception):\n    pass\n", "class ParseError(Exception):\n    pass\n\n\n_SHARED_LEXER = []\n"),
        (P, "        self.clex: CLexer = lexer(\n", "        if not _SHARED_LEXER:\n            _SHARED_LEXER.append(None)\n        self.clex: CLexer = lexer(\n"),
        (P, "            type_lookup_func=self._lex_type_lookup_func,\n        )\n",
            "            type_lookup_func=self._lex_type_lookup_func,\n        )\n        if _SHARED_LEXER[0] is None:\n"
            "            _SHARED_LEXER[0] = self.clex\n        self.clex = _SHARED_LEXER[0]\n"),
    ], ["C13/fx/no-shared-write/c_parser.CParser.__init__", "C13/fx/footprint/CParser"]),
    ("C13-default-arg-append", [
        (G, "                return self._generate_type(\n                    n.type, modifiers + [n], emit_declname=emit_declname\n                )\n",
            "                modifiers.append(n)\n                return self._generate_type(\n                    n.type, modifiers, emit_declname=emit_declname\n                )\n"),
    ], ["C13/fx/no-shared-write/c_generator.CGenerator._generate_type", "C12/fx/default-arg-not-mutated/CGenerator._generate_type.modifiers"]),
    ("C13-default-arg-iadd", [
        (G, "                return self._generate_type(\n                    n.type, modifiers + [n], emit_declname=emit_declname\n                )\n",
            "                modifiers += [n]\n                return self._generate_type(\n                    n.type, modifiers, emit_declname=emit_declname\n                )\n"),
    ], ["C12/fx/default-arg-not-mutated/CGenerator._generate_type.modifiers"]),
    # ------------------------------------------------------------------ C12
    ("C12-no-scope-reset", [
        (P, "        self._scope_stack = [dict()]\n        self.clex.input(text, filename)\n", "        self.clex.input(text, filename)\n"),
    ], ["C12/fx/def-before-use/CParser.parse/CParser._scope_stack"]),
    ("C12-no-tokenstream-reset", [
        (P, "        self._tokens = _TokenStream(self.clex)\n\n        ast = self._parse_translation_unit_or_empty()\n",
            "        ast = self._parse_translation_unit_or_empty()\n"),
    ], ["C12/fx/def-before-use/CParser.parse/_TokenStream._buffer", "C12/fx/def-before-use/CParser.parse/_TokenStream._index"]),
    ("C12-init-state-misses-pending-tok", [
        (L, "        self._pending_tok: Optional[Token] = None\n", ""),
    ], ["C12/fx/def-before-use/CParser.parse/CLexer._pending_tok", "C12/fx/def-before-use/CLexer.input/_pending_tok"]),
    ("C12-init-state-misses-lineno", [
        (L, "        self._line_start = 0\n        self._pending_tok: Optional[Token] = None\n        self._lineno = 1\n",
            "        self._line_start = 0\n        self._pending_tok: Optional[Token] = None\n"),
    ], ["C12/fx/def-before-use/CParser.parse/CLexer._lineno", "C12/fx/def-before-use/CLexer.input/_lineno"]),
    ("C12-input-without-init-state", [
        (L, "        self._init_state()\n        self._lexdata = text\n", "        self._lexdata = text\n"),
    ], ["C12/fx/def-before-use/CLexer.input/_pos", "C12/fx/def-before-use/CLexer.input/_pending_tok",
        "C12/fx/def-before-use/CParser.parse/CLexer._pos"]),
    ("C12-ast-cache", [
        (P, "        self._scope_stack = [dict()]\n        self.clex.input(text, filename)\n",
            "        if getattr(self, \"_last_text\", None) == text:\n            return self._last_ast\n"
            "        self._scope_stack = [dict()]\n        self.clex.input(text, filename)\n"),
        (P, "            self._parse_error(f\"before: {tok.value}\", self._tok_coord(tok))\n        return ast\n",
            "            self._parse_error(f\"before: {tok.value}\", self._tok_coord(tok))\n        self._last_text, self._last_ast = text, ast\n        return ast\n"),
    ], ["C12/fx/def-before-use/CParser.parse/CParser._last_text", "C12/fx/no-node-retained/CParser._last_ast"]),
    ("C12-unbalanced-indent", [
        (G, "        self.indent_level -= 2\n        s += self._make_indent() + \"}\\n\"\n        return s\n", "        s += self._make_indent() + \"}\\n\"\n        return s\n"),
    ], ["C12/fx/indent-balanced/visit_Compound"]),
    ("C12-unbalanced-indent-one-path", [
        (G, "        if add_indent:\n            self.indent_level -= 2\n\n        match n:", "        if add_indent and n is not None:\n            self.indent_level -= 2\n\n        match n:"),
    ], ["C12/fx/indent-balanced/_generate_stmt"]),
    # ------------------------------------------------------------------ C17
    ("C17-line-break-ends-block", [
        (P, "        items = []\n        while self._peek_type() not in {\"RBRACE\", None}:\n            item = self._parse_block_item()\n",
            "        items = []\n        prev_tok = None\n        while self._peek_type() not in {\"RBRACE\", None}:\n            next_tok = self._peek()\n"
            "            if prev_tok is not None and next_tok.lineno != prev_tok.lineno:\n                break\n"
            "            prev_tok = next_tok\n            item = self._parse_block_item()\n"),
    ], ["C17/fx/coord-noninterference/c_parser.CParser._parse_block_item_list"]),
    ("C17-column-one-changes-storage", [
        (P, "        for decl in decls:\n            assert decl[\"decl\"] is not None\n",
            "        for decl in decls:\n            assert decl[\"decl\"] is not None\n            if decl[\"decl\"].coord.column == 1:\n"
            "                spec[\"storage\"] = spec[\"storage\"] + [\"extern\"]\n"),
    ], ["C17/fx/coord-noninterference/c_parser.CParser._build_declarations"]),
    ("C17-lineno-into-constant", [
        (P, "            return self._parse_constant()\n        if tok_type in _STRING_LITERAL:\n",
            "            ctok = self._peek()\n            cnode = self._parse_constant()\n            if ctok.value == \"0\":\n"
            "                cnode = c_ast.Constant(\"int\", str(ctok.lineno), self._tok_coord(ctok))\n            return cnode\n"
            "        if tok_type in _STRING_LITERAL:\n"),
    ], ["C17/fx/coord-noninterference/c_parser.CParser._parse_primary_expression"]),
    ("C17-coord-through-helper-into-name", [
        (P, "        enum = c_ast.Enumerator(name_tok.value, value, self._tok_coord(name_tok))\n        self._add_identifier(enum.name, enum.coord)\n",
            "        enum = c_ast.Enumerator(name_tok.value, value, self._tok_coord(name_tok))\n        self._add_identifier(str(enum.coord), enum.coord)\n"),
    ], ["C17/fx/coord-noninterference/c_parser.CParser._add_identifier"]),
    ("C17-newline-produces-token", [
        (L, "                case \"\\n\":\n                    self._lineno += 1\n                    self._pos += 1\n                    self._line_start = self._pos\n",
            "                case \"\\n\":\n                    self._lineno += 1\n                    self._pos += 1\n                    self._line_start = self._pos\n"
            "                    self._pending_tok = None\n"),
    ], ["C17/fx/lexer-layout-only-state/CLexer.token/case '\\n'"]),
    ("C17-lineno-into-token-value", [
        (L, "        tok = Token(tok_type, value, self._lineno, column)\n", "        tok = Token(tok_type, value if self._lineno else \"\", self._lineno, column)\n"),
    ], ["C17/fx/lexer-layout-only-state/position-flow/CLexer._make_token"]),
    ("FX-global-statement", [
        (L, "    def _init_state(self) -> None:\n", "    def _count(self) -> None:\n        global _instances\n        _instances = 1\n\n    def _init_state(self) -> None:\n"),
    ], ["C13/fx/forbidden-constructs", "C12/fx/forbidden-constructs", "C17/fx/forbidden-constructs"]),
    ("C17-generator-reads-coord", [
        (G, "    def visit_ID(self, n: c_ast.ID) -> str:\n        return n.name\n",
            "    def visit_ID(self, n: c_ast.ID) -> str:\n        return n.name if n.coord is None else n.name + \"\"\n"),
    ], ["C17/fx/generator-reads-no-coord"]),
]

# edits the analysis cannot resolve: the affected obligation must become UNDECIDED, never REFUTED
UNRESOLVABLE = [
    ("U-write-through-computed-attribute", [
        (P, "        self._scope_stack.append(dict())\n", "        getattr(self, text_of_name(\" _scope_stack\")).append(dict())\n"),
        (P, "class ParseError(Exception):\n    pass\n", "class ParseError(Exception):\n    pass\n\n\ndef text_of_name(x):\n    return x.strip()\n"),
    ], ["C13/fx/no-shared-write/c_parser.CParser._push_scope"]),
]

HARMLESS = [
    ("H-rename-locals", [
        (P, "        tok_type = self._peek_type()\n        match tok_type:\n            case \"CASE\" | \"DEFAULT\":\n                return self._parse_labeled_statement()\n",
            "        t = self._peek_type()\n        match t:\n            case \"CASE\" | \"DEFAULT\":\n                return self._parse_labeled_statement()\n"),
        (P, "        tok = self._expect(\"ID\")\n        return c_ast.ID(tok.value, self._tok_coord(tok))\n",
            "        t = self._expect(\"ID\")\n        return c_ast.ID(t.value, self._tok_coord(t))\n"),
        (L, "        column = pos - self._line_start + 1\n        tok = Token(tok_type, value, self._lineno, column)\n        return tok\n",
            "        col = pos - self._line_start + 1\n        result = Token(tok_type, value, self._lineno, col)\n        return result\n"),
    ]),
    ("H-reorder-independent-statements", [
        (P, "        self._lexer = lexer\n        self._buffer: List[Optional[Token]] = []\n        self._index = 0\n",
            "        self._index = 0\n        self._buffer: List[Optional[Token]] = []\n        self._lexer = lexer\n"),
        (L, "        self._pos = 0\n        self._line_start = 0\n", "        self._line_start = 0\n        self._pos = 0\n"),
        (G, "        self.indent_level = 0\n        self.reduce_parentheses = reduce_parentheses\n",
            "        self.reduce_parentheses = reduce_parentheses\n        self.indent_level = 0\n"),
    ]),
    ("H-extract-helper-methods", [
        (P, "        self._scope_stack = [dict()]\n        self.clex.input(text, filename)\n        self._tokens = _TokenStream(self.clex)\n\n",
            "        self._reset_state(text, filename)\n\n"),
        (P, "    # ------------------------------------------------------------------\n    # Scope and declaration helpers\n",
            "    def _reset_state(self, text, filename):\n        self._scope_stack = [dict()]\n        self.clex.input(text, filename)\n"
            "        self._tokens = _TokenStream(self.clex)\n\n    def _id_node(self, tok):\n        where = self._tok_coord(tok)\n"
            "        return c_ast.ID(tok.value, where)\n\n"
            "    # ------------------------------------------------------------------\n    # Scope and declaration helpers\n"),
        (P, "        tok = self._expect(\"ID\")\n        return c_ast.ID(tok.value, self._tok_coord(tok))\n",
            "        tok = self._expect(\"ID\")\n        return self._id_node(tok)\n"),
        (G, "        s = self._make_indent() + \"{\\n\"\n        self.indent_level += 2\n", "        s = self._open_brace()\n        self.indent_level += 2\n"),
        (G, "    def visit_CompoundLiteral(", "    def _open_brace(self) -> str:\n        return self._make_indent() + \"{\\n\"\n\n    def visit_CompoundLiteral("),
    ]),
    ("H-new-read-only-table", [
        (P, "_STORAGE_CLASS = {", "_EXTRA_TABLE = {\"KEYWORDS\": [\"a\", \"b\"], \"LIMIT\": 3}\n\n_STORAGE_CLASS = {"),
        (P, "        tok_type = self._peek_type()\n        if tok_type is None:\n            return False\n        if tok_type in _STARTS_STATEMENT:\n",
            "        tok_type = self._peek_type()\n        if tok_type is None:\n            return False\n"
            "        if tok_type in _EXTRA_TABLE[\"KEYWORDS\"] or len(_EXTRA_TABLE) > _EXTRA_TABLE[\"LIMIT\"]:\n            return False\n"
            "        if tok_type in _STARTS_STATEMENT:\n"),
    ]),
    ("H-new-mutated-local-list-and-node-field", [
        (P, "        ext = []\n        while self._peek() is not None:\n            ext.extend(self._parse_external_declaration())\n        return ext\n",
            "        ext = []\n        sizes = []\n        seen = {}\n        while self._peek() is not None:\n            ext.extend(self._parse_external_declaration())\n"
            "            sizes.append(len(ext))\n            seen[len(sizes)] = ext[-1] if ext else None\n            sizes.sort()\n        return ext\n"),
        (P, "        enum = c_ast.Enumerator(name_tok.value, value, self._tok_coord(name_tok))\n",
            "        enum = c_ast.Enumerator(name_tok.value, value, self._tok_coord(name_tok))\n        enum.value = value\n        enum.coord = self._tok_coord(name_tok)\n"),
        (G, "        visited_subexprs = []\n        for expr in n.exprs:\n            visited_subexprs.append(self._visit_expr(expr))\n        return \", \".join(visited_subexprs)\n\n    def visit_InitList",
            "        visited_subexprs = []\n        extra = []\n        for expr in n.exprs:\n            visited_subexprs.append(self._visit_expr(expr))\n"
            "            extra += [len(visited_subexprs)]\n        return \", \".join(visited_subexprs)\n\n    def visit_InitList"),
    ]),
]


def run_families(repo):
    env = dict(os.environ, VERIF_REPO=repo, PYTHONDONTWRITEBYTECODE="1")
    p = subprocess.run([PY, "-m", "pyvc.fx_obligations", "--json"], cwd=VERIF, env=env, capture_output=True, text=True, timeout=600)
    lines = [l for l in p.stdout.splitlines() if l.startswith("{")]
    if p.returncode != 0 or not lines:
        raise RuntimeError(f"families crashed on {repo}:\n{p.stdout[-2000:]}\n{p.stderr[-4000:]}")
    data = json.loads(lines[-1])
    flat = {}
    for fam, obs in data.items():
        for o in obs:
            flat[o["name"]] = o
    return data, flat


def apply(workdir, edits):
    for rel, old, new in edits:
        path = os.path.join(workdir, rel)
        text = open(path, encoding="utf-8").read()
        if text.count(old) != 1:
            raise RuntimeError(f"mutation text found {text.count(old)} times in {rel}: {old[:60]!r}")
        open(path, "w", encoding="utf-8").write(text.replace(old, new))
    for rel in {e[0] for e in edits}:
        compile(open(os.path.join(workdir, rel), encoding="utf-8").read(), rel, "exec")


def make_work(i):
    w = os.path.join(SCRATCH, f"work_{i}")
    if os.path.exists(w):
        shutil.rmtree(w)
    shutil.copytree(os.path.join(SCRATCH, "repo"), w)
    return w


def run_replay(workdir, name, body):
    sys.path.insert(0, VERIF)
    from pyvc import core
    path = os.path.join(workdir, "replay_" + str(abs(hash(name)) % 10**8) + ".py")
    src = core.REPLAY_HEADER.format(prop="selftest", name=name, backend="fx", py=REPLAY_PY, path=path,
                                    outcome="(selftest)", detail="", repo=workdir) + body
    open(path, "w").write(src)
    py = REPLAY_PY if os.path.exists(REPLAY_PY) else PY
    try:
        p = subprocess.run([py, path], capture_output=True, text=True, timeout=300,
                           env=dict(os.environ, VERIF_REPO=workdir, PYTHONDONTWRITEBYTECODE="1"))
    except subprocess.TimeoutExpired:
        return "timeout"
    out = p.stdout + p.stderr
    if "NOT-REPRODUCED" in out:
        return "NOT-REPRODUCED"
    if "REPRODUCED" in out:
        return "REPRODUCED"
    return "error: " + out.strip().splitlines()[-1][:200] if out.strip() else "error"


def main():
    args = sys.argv[1:]
    do_replay = "--no-replay" not in args
    only = args[args.index("-k") + 1] if "-k" in args else None
    t0 = time.time()
    if os.path.exists(SCRATCH):
        shutil.rmtree(SCRATCH)
    os.makedirs(SCRATCH)
    failures = []
    try:
        shutil.copytree(SRC_REPO, os.path.join(SCRATCH, "repo"), ignore=shutil.ignore_patterns(".git", "__pycache__", "*.pyc", ".pytest_cache"))
        _, base = run_families(os.path.join(SCRATCH, "repo"))
        notd = [n for n, o in base.items() if o["status"] != "discharged"]
        print(f"baseline (unchanged copy): {len(base)} obligations, {len(notd)} not discharged")
        if notd:
            failures.append(("baseline", notd[:10]))

        def job(item):
            i, kind, mid, edits, expected = item
            w = make_work(i)
            apply(w, edits)
            data, flat = run_families(w)
            msgs, ok = [], True
            if kind == "unresolvable":
                for pat in expected:
                    st_ = flat.get(pat, {}).get("status")
                    if st_ != "undecided":
                        ok = False
                        msgs.append(f"{pat}: {st_} (expected undecided)")
                ref = [n for n, o in flat.items() if o["status"] == "refuted"]
                if ref:
                    ok = False
                    msgs.append(f"refuted although nothing is known to be wrong: {ref[:5]}")
                msgs.append(f"undecided: {sorted(n for n, o in flat.items() if o['status'] == 'undecided')[:6]}")
            elif kind == "mutation":
                for pat in expected:
                    hits = [n for n in flat if fnmatch.fnmatchcase(n, pat.replace("[", "[[]"))] or ([pat] if pat in flat else [])
                    if not hits:
                        ok = False
                        msgs.append(f"expected obligation {pat} does not exist")
                    for n in hits:
                        if flat[n]["status"] != "refuted":
                            ok = False
                            msgs.append(f"{n}: {flat[n]['status']} (expected refuted)")
                refuted = sorted(n for n, o in flat.items() if o["status"] == "refuted")
                msgs.append(f"refuted: {len(refuted)}; undecided: {sum(1 for o in flat.values() if o['status'] == 'undecided')}")
                first = next((n for pat in expected for n in flat if n == pat and flat[n]["status"] == "refuted"), None)
                if first:
                    msgs.append("detail: " + flat[first]["detail"].splitlines()[1 if len(flat[first]["detail"].splitlines()) > 1 else 0][:230])
            else:
                for n, o in flat.items():
                    if n in base and o["status"] != base[n]["status"]:
                        ok = False
                        msgs.append(f"{n}: {base[n]['status']} -> {o['status']}: {o['detail'][:300]}")
                    if n not in base and o["status"] != "discharged":
                        ok = False
                        msgs.append(f"new obligation {n}: {o['status']}: {o['detail'][:300]}")
                gone = [n for n in base if n not in flat]
                if gone:
                    ok = False
                    msgs.append(f"obligations disappeared: {gone[:5]}")
                msgs.append(f"{len(flat)} obligations ({len(flat) - len(base):+d}), all verdicts as on the unchanged tree" if ok else "verdicts changed")
            return (mid, kind, ok, msgs, w, expected, flat)

        items = []
        for i, (mid, edits, expected) in enumerate(MUTATIONS):
            if only is None or only in mid:
                items.append((i, "mutation", mid, edits, expected))
        for j, (mid, edits, expected) in enumerate(UNRESOLVABLE):
            if only is None or only in mid:
                items.append((200 + j, "unresolvable", mid, edits, expected))
        for j, (mid, edits) in enumerate(HARMLESS):
            if only is None or only in mid:
                items.append((100 + j, "harmless", mid, edits, []))
        with concurrent.futures.ThreadPoolExecutor(max_workers=int(os.environ.get("FX_SELFTEST_JOBS", "6"))) as ex:
            results = list(ex.map(job, items))
        replay_jobs = []
        for mid, kind, ok, msgs, w, expected, flat in results:
            print(("PASS " if ok else "FAIL ") + mid)
            for m in msgs:
                print("     " + m)
            if not ok:
                failures.append((mid, msgs))
            if kind == "mutation" and do_replay:
                n = next((n for pat in expected for n in flat if n == pat and flat[n]["status"] == "refuted" and flat[n]["has_replay"]), None)
                if n:
                    replay_jobs.append((mid, w, n))
        if replay_jobs:
            sys.path.insert(0, VERIF)
            os.environ.setdefault("VERIF_REPO", os.path.join(SCRATCH, "repo"))
            from pyvc import fx_obligations as O
            bodies = {}
            # replay bodies are constants of the module, chosen per obligation family
            def body_for(name):
                if name.startswith("C17/"):
                    return O.REPLAY_LAYOUT
                if "indent-balanced" in name or "default-arg" in name:
                    return O.REPLAY_GENERATOR
                if "CLexer.input" in name:
                    return O.REPLAY_LEXER_REUSE
                if "no-node-retained" in name:
                    return O.REPLAY_RETAINED
                if name.startswith("C12/"):
                    return O.REPLAY_HISTORY
                return O.REPLAY_SHARED
            with concurrent.futures.ThreadPoolExecutor(max_workers=6) as ex:
                outs = list(ex.map(lambda j: (j[0], j[2], run_replay(j[1], j[2], body_for(j[2]))), replay_jobs))
            print("replays on the mutated trees (informative):")
            for mid, n, r in outs:
                print(f"     {mid}: {n}: {r}")
    finally:
        shutil.rmtree(SCRATCH, ignore_errors=True)
    print(f"selftest: {len(MUTATIONS)} seeded faults, {len(UNRESOLVABLE)} unresolvable edits, {len(HARMLESS)} harmless edits, {len(failures)} failure(s), {time.time() - t0:.1f}s")
    return 1 if failures else 0


if __name__ == "__main__":
    sys.exit(main())
