"""C06 -- parse() either returns a FileAST or raises ParseError, nothing else."""
from props import gxcommon as G


def run(tier, seed):
    from pyvc.smt_props import run_functions
    import contracts.parser_core as PC
    import contracts.tokenstream as TS

    # run-time-error freedom of the token-driven methods: exhaustive over the look-ahead classes, callees by contract
    res = G.gx(None, ["rte"], "C06/gx", tier)
    # the same on ARBITRARY (invalid) token sequences, including end of input at every position; every ParseError raised
    # there carries a coordinate or the file name as its location
    from pyvc import gx_obligations as GO
    res.add(GO.run_may(None, ["rte", "errloc"], "C06/gx", tier))
    # helpers that walk unbounded data / hold the invariants: SMT (IndexError, KeyError, AssertionError, AttributeError, TypeError)
    res.add(run_functions(TS.FUNCTIONS + [f for f in PC.CORE_FUNCTIONS if f not in ("CLexer._init_state", "CLexer.input")], "C06/smt", tier))
    try:
        import contracts.lexer as LX
        from props import lexreplay
        res.add(lexreplay.attach(run_functions(LX.C06_FUNCTIONS, "C06/smt", tier)))
    except ImportError:
        res.assumptions.append("lexer contracts (progress, error rules always advance) not built")
    from props import tables
    res.add(tables.error_channel_obligations("C06"))
    # the explicit `raise ValueError` lines of _parse_constant are unreachable only because the lexer never produces an
    # integer constant with an ill-formed suffix: the language obligations of the integer rules are the callee contract
    from pyvc import rx_obligations
    rx = rx_obligations.c10_obligations(tier)
    rx.obs = [o for o in rx.obs if o.name.startswith("C10/lang/INT_CONST_") and "INT_CONST_CHAR" not in o.name]
    for o in rx.obs:
        o.name = "C06/rx/" + o.name[4:]
    res.add(rx)
    # the #line sub-scanner (outside the SMT subset): bounded enumeration of directive bodies, incl. digit sequences that
    # CPython refuses to convert -- nothing but the error callback may come out of it
    from props import ppline
    pl = ppline.obligations(tier)
    for o in pl.obs:
        o.name = "C06/" + o.name
    res.add(pl)
    res.assumptions.append("RecursionError on inputs nested deeper than the interpreter's recursion limit is tolerated by the property")
    # the switch regrouping runs inside the parser on every switch statement: a body it cannot handle is a rejected program
    # / a stray exception (bounded enumeration, shared with C05)
    from props import switchcases
    sc = switchcases.obligations(tier)
    for o in sc.obs:
        o.name = "C06/" + o.name[4:]
    res.add(sc)
    return res
