"""C02 -- expression ASTs follow C precedence, associativity and operator binding."""
from props import gxcommon as G


def run(tier, seed):
    res = G.gx(G.EXPR_METHODS, ["accept", "term", "concrete"], "C02/gx", tier)
    from props import tables
    res.add(tables.c02_tables())
    try:
        from pyvc.smt_props import run_functions
        import contracts.expr as E
        res.add(run_functions(E.FUNCTIONS, "C02/smt", tier))
    except ImportError:
        res.assumptions.append("SMT contract of _parse_binary_expression not built: precedence climbing covered by GX with up to 2 operators only")
    return res
