"""C09/C06, "reporting - never silently skipping": BOUNDED stand-in (never counted as proof).

The contract of `_match_token` pins the exact position of an error report (view with a raising callback) and progress (view with a
returning callback), but not HOW FAR the cursor moves past a malformed lexeme when lexing goes on.  This sweep checks the layout
half of the property on that path: a blank inserted between a malformed lexeme and a following punctuator that cannot be part
of it must not change what the lexer returns and reports (tokens, classes, spellings, messages), apart from moving the
later items one column to the right.  A recovery that drops text glued to the malformed lexeme (`x = 09;` losing its `;`)
fails it; the extent of the malformed lexeme itself is left to the rule table (RX `BAD_WHOLE` obligations).
"""
import time

from pyvc import core

BAD = ["09", "08", "0289", "08u", "09.", "0x", "0b2", "1e", "1.5e", "''", "'\\q'", "'ab\\q'", "'", "'a", "\"\\q\"", "\"a\\qb\"", "\"a", "\"",
       "/*", "//", "@", "`", "$", "\\", "L'", "u8\"", "0x1.p", "1..2", "..", "x@", "09@", "1_", "'\\", "\"\\"]
FOLLOW = [";", ",1)", ")", "];", "};x", ";@", ",09;", ")\n;", ";;"]
PREFIX = ["", "x = ", "f(", "a[1] + "]


def _run(L, text):
    out = []
    lx = L.CLexer(lambda msg, line, col: out.append(("E", msg, line, col)), lambda: None, lambda: None, lambda n: False)
    lx.input(text, "e.c")
    n = 0
    while True:
        t = lx.token()
        if t is None:
            break
        out.append(("T", t.type, t.value, t.lineno, t.column))
        n += 1
        if n > 200:
            out.append(("LOOP",))
            break
    return out


def _shift(items, after_col, line=1):
    res = []
    for it in items:
        it = list(it)
        if it[0] in ("E", "T") and it[-2] == line and it[-1] > after_col:
            it[-1] += 1
        res.append(tuple(it))
    return res


def obligations(prop: str) -> core.Result:
    L = core.repo_import("pycparser.c_lexer")
    res = core.Result()
    t0 = time.time()
    bad = []
    n = 0
    for pre in PREFIX:
        for w in BAD:
            for f in FOLLOW:
                glued, spaced = pre + w + f, pre + w + " " + f
                n += 1
                try:
                    a, b = _run(L, glued), _run(L, spaced)
                except Exception as e:  # noqa
                    bad.append((glued, f"{type(e).__name__}: {e}"))
                    continue
                if _shift(a, len(pre + w)) != b:
                    bad.append((glued, f"`{glued}` gives {a}; with a blank after the malformed lexeme `{spaced}` gives {b}"))
        if len(bad) > 10:
            break
    rep = None
    if bad:
        g = bad[0][0]
        rep = ("from pycparser import c_lexer\n"
               "def run(text):\n    out = []\n    lx = c_lexer.CLexer(lambda m, l, c: out.append(('E', m, l, c)), lambda: None, lambda: None, lambda n: False)\n"
               "    lx.input(text, 'e.c')\n    while True:\n        t = lx.token()\n        if t is None: break\n        out.append(('T', t.type, t.value, t.lineno, t.column))\n    return out\n"
               f"G = {g!r}\nprint(repr(G), run(G))\n"
               "toks = [x for x in run(G) if x[0] == 'T']\n"
               f"print({bad[0][1][:600]!r})\nprint('REPRODUCED')\n")
    res.obs.append(core.Ob(f"{prop}/enum/error-recovery-layout", core.REFUTED if bad else core.DISCHARGED, "enum", time.time() - t0,
                           (f"{bad[0][1][:500]} ({len(bad)} failing inputs)" if bad else
                            f"{n} (prefix, malformed lexeme, following punctuator) inputs: a blank after the malformed lexeme changes only columns"),
                           replay=rep, functions=["CLexer._match_token", "CLexer.token"], bounded=True, sample=f"{n} inputs"))
    res.assumptions.append("how far the lexer moves past a malformed lexeme when the error callback returns: covered by a BOUNDED layout sweep, not by a proof")
    return res
