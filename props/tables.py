"""TB -- finite-domain table obligations: the parser's decision tables against the reference grammar's
FIRST sets and the C operator tables (all domains finite: exhaustive evaluation is a complete proof)."""
from pyvc import core
from pyvc import gx_obligations as GO
from spec import grammar as SG
from spec import grammar_decl as SD


def _ob(name, ok, detail, what, replay=None):
    return core.Ob(name, core.DISCHARGED if ok else core.REFUTED, "TB", 0.0, detail, replay=replay, functions=[what], sample=detail[:160])


def _set_ob(name, real, want, what, mode="eq", witness=None):
    real, want = set(real), set(want)
    if mode == "eq":
        ok = real == want
        det = f"{what} = reference set" if ok else f"{what}: missing {sorted(want - real)}, extra {sorted(real - want)}"
    else:
        ok = want <= real
        det = f"{what} covers the reference set" if ok else f"{what}: missing {sorted(want - real)}"
    return _ob(name, ok, det, "c_parser." + what, witness)


def _replay_for_missing_start(kind, text):
    return ("from pycparser import c_parser\n"
            f"SRC = {text!r}\nprint(SRC)\n"
            "try:\n    c_parser.CParser().parse(SRC, 'w.c'); print('accepted'); print('NOT-REPRODUCED')\n"
            "except c_parser.ParseError as e:\n    print('valid input rejected:', e); print('REPRODUCED')\n")


def c01_tables() -> core.Result:
    gx = GO.get_gx()
    P = gx.c_parser
    g = gx.g
    res = core.Result()
    src = core.Source.get("pycparser/c_parser.py")
    F = g.first
    res.obs.append(_set_ob("C01/tb/_DECL_START", P._DECL_START, F["declaration-specifiers"], "_DECL_START",
                           witness=_replay_for_missing_start("decl", "_Noreturn void f(void);\n_Thread_local int x;\n_Alignas(8) int y;\n_Atomic int z;\n")))
    res.obs.append(_set_ob("C01/tb/_STARTS_EXPRESSION", P._STARTS_EXPRESSION, F["expression"], "_STARTS_EXPRESSION",
                           witness=_replay_for_missing_start("expr", "void f(void){ _Alignof(int); sizeof(int); -x; !x; ~x; &x; *x; ++x; --x; 'a'; L'a'; u8\"s\"; 1.0; 0x1p3; }\n")))
    # statements: _starts_statement() = type in _STARTS_STATEMENT or in _STARTS_EXPRESSION (ID is an expression start)
    stmt_first = set(F["statement"]) | set(F["block-item"]) - set(F["declaration"])
    res.obs.append(_set_ob("C01/tb/_STARTS_STATEMENT", set(P._STARTS_STATEMENT) | set(P._STARTS_EXPRESSION), F["statement"],
                           "_STARTS_STATEMENT|_STARTS_EXPRESSION", mode="sup"))
    res.obs.append(_set_ob("C01/tb/_TYPE_QUALIFIER", P._TYPE_QUALIFIER, SD.QUALIFIERS.values(), "_TYPE_QUALIFIER"))
    res.obs.append(_set_ob("C01/tb/_STORAGE_CLASS", P._STORAGE_CLASS, SD.STORAGE.values(), "_STORAGE_CLASS"))
    res.obs.append(_set_ob("C01/tb/_FUNCTION_SPEC", P._FUNCTION_SPEC, SD.FUNCSPEC.values(), "_FUNCTION_SPEC",
                           witness=_replay_for_missing_start("fs", "_Noreturn void f(void);\ninline int g(void);\n")))
    res.obs.append(_set_ob("C01/tb/_TYPE_SPEC_SIMPLE", P._TYPE_SPEC_SIMPLE, SD.SIMPLE_TYPES.values(), "_TYPE_SPEC_SIMPLE"))
    res.obs.append(_set_ob("C01/tb/_ASSIGNMENT_OPS", P._ASSIGNMENT_OPS, SG.ASSIGN_OPS.values(), "_ASSIGNMENT_OPS"))
    res.obs.append(_set_ob("C01/tb/_BINARY_PRECEDENCE.keys", P._BINARY_PRECEDENCE.keys(), SG.BINOP_TOKENS.values(), "_BINARY_PRECEDENCE"))
    # C99 6.4.6: the digraphs <: :> <% %> %: are punctuators (alternative spellings of [ ] { } #)
    L = gx.c_lexer
    have = {ft.literal for ft in L._fixed_tokens}
    missing = [d for d in ("<:", ":>", "<%", "%>") if d not in have]
    rep = _replay_for_missing_start("digraph", "int a<:3:> = <% 1, 2, 3 %>;\n")
    res.obs.append(_ob("C01/tb/punctuators/digraphs", not missing,
                       (f"digraph punctuators {missing} are not tokens" if missing else "digraphs are tokens"), "c_lexer._fixed_tokens", rep))
    for q in ("CParser._starts_declaration", "CParser._starts_expression", "CParser._starts_statement"):
        if src.has(q):
            res.functions.append(src.func(q))
    res.trusted_base.append("FIRST sets computed from spec/grammar*.py (reference grammar)")
    return res


def c02_tables() -> core.Result:
    """The precedence table induces exactly C's ten levels; each operator token's literal is the C spelling."""
    gx = GO.get_gx()
    P, L = gx.c_parser, gx.c_lexer
    res = core.Result()
    lit = {ft.tok_type: ft.literal for ft in L._fixed_tokens}
    bad = []
    for sp, tt in SG.BINOP_TOKENS.items():
        if lit.get(tt) != sp:
            bad.append(f"token {tt} is spelled {lit.get(tt)!r}, C spells the operator {sp!r}")
    res.obs.append(_ob("C02/tb/binary-operator-spellings", not bad, "; ".join(bad) or "18 binary operator tokens carry the C spellings", "c_lexer._fixed_tokens"))
    bad = []
    prec = P._BINARY_PRECEDENCE
    ops = list(SG.BINOP_TOKENS.items())
    for sp1, t1 in ops:
        for sp2, t2 in ops:
            if t1 not in prec or t2 not in prec:
                continue
            l1, l2 = SG.level_of(sp1), SG.level_of(sp2)
            if (l1 < l2) != (prec[t1] < prec[t2]) or (l1 == l2) != (prec[t1] == prec[t2]):
                bad.append(f"{sp1} vs {sp2}: C levels {l1},{l2} but table {prec[t1]},{prec[t2]}")
    rep = ("from pycparser import c_parser\nfrom pycparser.c_generator import CGenerator\n"
           "ops=['||','&&','|','^','&','==','!=','<','>','<=','>=','<<','>>','+','-','*','/','%']\n"
           "LV=[['||'],['&&'],['|'],['^'],['&'],['==','!='],['<','>','<=','>='],['<<','>>'],['+','-'],['*','/','%']]\n"
           "lv=lambda o:[i for i,l in enumerate(LV) if o in l][0]\nbad=[]\n"
           "for a in ops:\n  for b in ops:\n    t=c_parser.CParser().parse('int r = x %s y %s z;'%(a,b)).ext[0].init\n"
           "    left = t.left.__class__.__name__=='BinaryOp'\n    want = lv(a) >= lv(b)\n    if left != want: bad.append((a,b))\n"
           "print(bad[:5]); print('REPRODUCED' if bad else 'NOT-REPRODUCED')\n")
    res.obs.append(_ob("C02/tb/precedence-levels", not bad, "; ".join(bad[:4]) or "the table orders all 18x18 operator pairs as C's ten levels do",
                       "c_parser._BINARY_PRECEDENCE", rep))
    asg = [f"{tt}: {lit.get(tt)!r} != {sp!r}" for sp, tt in SG.ASSIGN_OPS.items() if lit.get(tt) != sp]
    res.obs.append(_ob("C02/tb/assignment-operator-spellings", not asg, "; ".join(asg) or "11 assignment operators carry the C spellings", "c_lexer._fixed_tokens"))
    un = [f"{tt}: {lit.get(tt)!r} != {sp!r}" for sp, tt in SG.UNARY_OPS.items() if lit.get(tt) != sp]
    res.obs.append(_ob("C02/tb/unary-operator-spellings", not un, "; ".join(un) or "6 unary operators carry the C spellings", "c_lexer._fixed_tokens"))
    return res


def error_channel_obligations(prefix: str) -> core.Result:
    """The single error channel is never intercepted: no try statement of the parser, the lexer or the AST transforms
    catches ParseError (or a superclass, or everything).  A swallowed ParseError turns a located error into a silently
    different parse or into an error at another place (C06 message contract, C11 error locations, C18 rejection)."""
    import ast as _ast

    res = core.Result()
    for rel in ("pycparser/c_parser.py", "pycparser/c_lexer.py", "pycparser/ast_transforms.py", "pycparser/__init__.py"):
        src = core.Source.get(rel)
        bad = []
        for n in _ast.walk(src.tree):
            if isinstance(n, _ast.Try):
                for h in n.handlers:
                    names = []
                    t = h.type
                    if t is None:
                        names = ["<bare except>"]
                    else:
                        for e in (t.elts if isinstance(t, _ast.Tuple) else [t]):
                            names.append(e.id if isinstance(e, _ast.Name) else getattr(e, "attr", "?"))
                    if any(x in ("ParseError", "Exception", "BaseException", "<bare except>") for x in names):
                        bad.append(f"{rel}:{h.lineno} except {', '.join(names)}")
                if n.finalbody and any(isinstance(x, (_ast.Return, _ast.Break, _ast.Continue)) for f in n.finalbody for x in _ast.walk(f)):
                    bad.append(f"{rel}:{n.lineno} finally block that can swallow an exception")
        rep = ("from pycparser import c_parser\nbad=[]\n"
               "for src in ['int x = (int @) 1;', 'int x = sizeof(int `);', 'int f(void){ return (char @)0; }']:\n"
               "    off = max(src.find('@'), src.find('`'))\n"
               "    try:\n        c_parser.CParser().parse(src, 'w.c'); bad.append((src, 'accepted'))\n"
               "    except c_parser.ParseError as e:\n"
               "        if not str(e).startswith('w.c:1:%d:' % (off + 1)): bad.append((src, str(e)))\n"
               "print(bad)\nprint('REPRODUCED' if bad else 'NOT-REPRODUCED')\n")
        res.obs.append(_ob(f"{prefix}/tb/error-channel-not-intercepted/{rel.split('/')[-1]}", not bad,
                           "; ".join(bad) or "no handler catches ParseError / Exception / everything", rel, rep if bad else None))
    return res
