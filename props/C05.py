"""C05 -- statement ASTs mirror C's statement nesting and source order."""
from props import gxcommon as G


def run(tier, seed):
    res = G.gx(G.STMT_METHODS, ["term", "accept", "concrete"], "C05/gx", tier)
    try:
        from props import switchcases
        res.add(switchcases.obligations(tier))
    except ImportError:
        res.assumptions.append("fix_switch_cases regrouping obligations not built")
    return res
