"""C04 -- an identifier is a type name exactly where C scoping makes it one."""
from pyvc import core
from props import gxcommon as G

TIMING_REPLAY = '''from pycparser import c_parser, c_ast
SRC = "typedef int T;\\nvoid f(void) { int T = sizeof(T); }\\n"
print(SRC)
ast = c_parser.CParser().parse(SRC, 'w.c')
init = ast.ext[1].body.block_items[0].init
print(type(init.expr).__name__)
# C 6.2.1p7: the scope of the object T begins just after its declarator, so sizeof(T) names the object, not the type
print('REPRODUCED' if isinstance(init.expr, c_ast.Typename) else 'NOT-REPRODUCED')
'''


def timing_obligation():
    """Scope of a declared name begins at the end of its declarator (6.2.1p7): the name must be registered before the
    initializer of the same declarator (and the following declarators) are parsed."""
    from pyvc import gx_obligations as GO
    from pyvc import gx as GXM
    gx = GO.get_gx()
    nt = gx.g.nts["init-declarator"]
    bad = None
    n = 0
    for p in nt.prods:
        for flat, shape in p.flat:
            if not any(isinstance(s, GXM.T) and s.type == "EQUALS" for s in flat):
                continue
            outs = []
            GXM.explore(gx, "_parse_init_declarator", "init-declarator", p, flat, shape, ["SEMI"], (), {}, on_done=outs.append, budget=300)
            for oc in outs:
                if oc.kind != "ok":
                    continue
                n += 1
                ev = oc.run.events
                names = [e for e in ev if e[0] == "register"]
                init_at = [i for i, e in enumerate(ev) if e == ("stub", "_parse_initializer")]
                if init_at and not any(i < init_at[0] for i, e in enumerate(ev) if e[0] == "register"):
                    bad = oc.run.text()
    src = core.Source.get("pycparser/c_parser.py")
    res = core.Result()
    res.functions.append(src.func("CParser._parse_init_declarator"))
    st = core.REFUTED if bad else (core.DISCHARGED if n else core.UNDECIDED)
    res.obs.append(core.Ob("C04/gx/scope-timing/_parse_init_declarator/registered-before-initializer", st, "GX", 0.0,
                           (f"declarator name not registered before its initializer is parsed; form: {bad}" if bad else f"{n} runs"),
                           replay=TIMING_REPLAY if bad else None, functions=["CParser._parse_init_declarator"], sample=bad or ""))
    return res


def run(tier, seed):
    from pyvc.smt_props import run_functions
    import contracts.parser_core as PC  # noqa
    import contracts.lexer as LX

    res = run_functions(["CParser._is_type_in_scope", "CParser._add_typedef_name", "CParser._add_identifier", "CParser._push_scope",
                         "CParser._pop_scope", "CParser._lex_type_lookup_func", "CParser._lex_on_lbrace_func",
                         "CParser._lex_on_rbrace_func"] + LX.C04_FUNCTIONS, "C04/smt", tier)
    res.add(G.gx(None, ["scope"], "C04/gx", tier))
    # the re-interpretation of a trailing typedef name as the declared identifier, and the places that ask "does a type
    # name start here?" (declaration vs expression statement, cast / sizeof / compound literal vs parenthesised expression)
    res.add(G.gx(G.decl_methods() + ["_parse_block_item", "_parse_cast_expression", "_parse_unary_expression", "_parse_postfix_expression",
                                     "_parse_primary_expression", "_parse_iteration_statement"],
                 ["accept", "term"], "C04/gx", tier, drop=lambda o: "block-item: static_assert-declaration" in o.name))
    res.add(timing_obligation())
    # the composition of the real lexer (look-ahead, brace callbacks) with the real parser: bounded sweep of scope histories
    from props import scopesweep
    res.add(scopesweep.obligations(tier))
    res.assumptions.append("scope push/pop follows the brace tokens as they are LEXED (buffered look-ahead of at most one token beyond "
                           "the braces); the abstract stream of GX has no lexer, so the scope a name lands in is covered by the SMT "
                           "contracts of the callbacks, not by GX")
    return res
