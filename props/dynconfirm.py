"""Dynamic confirmation of FX results (tools/dynmon.py).

FX is a MAY-analysis: aliasing, effects and taint are over-approximated, so "not discharged" can mean a real defect or mere
imprecision (a correct per-instance memo, a private dataclass that carries a coordinate, an object that the alias analysis
lumps together with a module-level table).  An FX refutation is therefore reported as a VIOLATION only when the matching
monitor shows a concrete discrepancy on the real code (replayable); otherwise it is kept in the evidence as a BOUNDED stand-in
("not proved statically; no discrepancy on the corpus").  The monitors also run when FX discharges everything, as bounded
obligations of their own.
"""
import subprocess
import time

from pyvc import core

WHAT = {
    "shared": "module-level / class-level state, function defaults and interpreter settings are untouched by two interleaved parser+generator "
              "instances working through the corpus, and their ASTs share no node",
    "history": "every corpus input gives the same result (AST with coordinates / error message / generated text) on a fresh instance and on one "
               "that has been through the whole corpus, failures included",
    "layout": "every accepted corpus program, re-laid out (blanks, tabs, newlines, linemarkers between tokens), gives the same tree apart from "
              "coordinates and the same generated text",
}


def monitor(kind: str):
    t0 = time.time()
    try:
        p = subprocess.run([core.REPLAY_PY, f"{core.VERIF}/tools/dynmon.py", kind, core.REPO], capture_output=True, text=True, timeout=900)
        out = p.stdout
    except subprocess.TimeoutExpired:
        return None, ["monitor timed out"], time.time() - t0
    lines = [l[len("DISCREPANCY "):] for l in out.splitlines() if l.startswith("DISCREPANCY ")]
    fin = [l for l in out.splitlines() if l.startswith("DISCREPANCIES ")]
    if not fin:
        return None, [(p.stderr or out)[-300:]], time.time() - t0
    return int(fin[-1].split()[1]), lines, time.time() - t0


def apply(res: core.Result, prop: str, kind: str, select=lambda o: "/fx/" in o.name, also_undecided=False) -> None:
    n, lines, dt = monitor(kind)
    name = f"{prop}/dyn/{kind}"
    rep = ("import subprocess, sys, os\n"
           f"p = subprocess.run([sys.executable, {core.VERIF + '/tools/dynmon.py'!r}, {kind!r}, os.environ.get('VERIF_REPO', {core.REPO!r})], capture_output=True, text=True)\n"
           "print(p.stdout[-1500:])\nprint('REPRODUCED' if 'DISCREPANCIES 0' not in p.stdout else 'NOT-REPRODUCED')\n")
    if n is None:
        res.obs.append(core.Ob(name, core.UNDECIDED, "dynamic", dt, "monitor did not finish: " + "; ".join(lines)[:300], functions=[]))
        return
    if n:
        res.obs.append(core.Ob(name, core.REFUTED, "dynamic", dt, f"{n} discrepancies on the real code, e.g.\n" + "\n".join(lines[:4]), replay=rep,
                               functions=[], bounded=True, sample=lines[0][:200]))
    else:
        res.obs.append(core.Ob(name, core.DISCHARGED, "dynamic", dt, "BOUNDED: " + WHAT[kind], functions=[], bounded=True, sample=kind))
    for o in res.obs:
        if not select(o) or o.status not in ((core.REFUTED, core.UNDECIDED) if also_undecided else (core.REFUTED,)):
            continue
        if n:
            o.detail = (o.detail or "") + f"\n[confirmed by the dynamic monitor `{kind}`: {lines[0][:200]}]"
            o.replay = rep
        else:
            # not proved by the may-analysis, and nothing wrong observed on the real code: bounded stand-in, not a violation
            o.status = core.DISCHARGED
            o.bounded = True
            o.replay = None
            o.detail = ("BOUNDED: NOT PROVED by the FX may-analysis (possible imprecision); the dynamic monitor `%s` found no discrepancy on the real "
                        "code over its corpus. FX said: %s" % (kind, (o.detail or "")[:600]))
