"""C10 -- literals are accepted iff well-formed and classified by their spelling."""
from props import gxcommon as G


def run(tier, seed):
    from pyvc import rx_obligations

    res = rx_obligations.c10_obligations(tier)
    # Constant typing by suffix / prefix and spelling carried unchanged: term obligations of the constant productions
    res.add(G.gx(["_parse_constant", "_parse_unified_string_literal", "_parse_unified_wstring_literal"], ["term", "rte"], "C10/gx", tier))
    return res
