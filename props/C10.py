"""C10 -- literals are accepted iff well-formed and classified by their spelling."""
from props import gxcommon as G


def run(tier, seed):
    from pyvc import rx_obligations

    res = rx_obligations.c10_obligations(tier)
    # Constant typing by suffix / prefix and spelling carried unchanged: term obligations of the constant productions
    res.add(G.gx(["_parse_constant", "_parse_unified_string_literal", "_parse_unified_wstring_literal"], ["term", "rte"], "C10/gx", tier))
    # "reported through the error callback": every error rule / illegal character reaches the callback exactly once, at its
    # own position (contracts of CLexer._error and CLexer._match_token, shared with C09)
    from pyvc.smt_props import run_functions
    import contracts.parser_core  # noqa: F401
    import contracts.lexer as LX
    from props import lexreplay
    res.add(lexreplay.attach(run_functions(LX.FUNCS_BASE, "C10/smt", tier)))
    return res
