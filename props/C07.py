"""C07 -- generated C re-parses to the same AST; generation is idempotent.

Contract side (finite, complete over its domain => proof obligations):
  * parenthesisation contract of every expression visit method: the REAL visit_X is run with `self.visit` replaced by a
    stub that returns a marker for each child; for every (parent class, slot, child class, operator, reduce_parentheses)
    the child's text must be wrapped in parentheses unless the child's syntactic level is at least the level at which the
    PARSER parses that slot (levels written from C99 6.5 and from the parser-side contracts of C02).  With the parser
    contracts this gives parse(gen(n)) = n by induction on the tree (lemma L4).
  * the generator's precedence table mirrors the parser's through the operator spellings;
  * statement terminators: _generate_stmt appends ';' exactly to the node classes whose text is an expression/declaration;
  * indentation balance and the un-mutated default argument (FX, shared with C12).
Bounded stand-in (never counted as proof): a sweep of source texts - every parent/child/operator combination, declarators up
to three derivations, every statement kind - through the real generator and the real parser, both configurations.
"""
import itertools
import time

from pyvc import core

# syntactic levels, strongest binding first (C99 6.5.1 - 6.5.17)
PRIMARY, POSTFIX, UNARY, CAST = 16, 15, 14, 13
BIN = {"*": 12, "/": 12, "%": 12, "+": 11, "-": 11, "<<": 10, ">>": 10, "<": 9, ">": 9, "<=": 9, ">=": 9, "==": 8, "!=": 8,
       "&": 7, "^": 6, "|": 5, "&&": 4, "||": 3}
COND, ASSIGN, COMMA = 2, 1, 0
ASSIGN_OPS = ["=", "*=", "/=", "%=", "+=", "-=", "<<=", ">>=", "&=", "^=", "|="]
PREFIX_OPS = ["&", "*", "+", "-", "~", "!", "++", "--", "sizeof"]


OWN_PAREN_SLOTS = {"Alignas.alignment", "StaticAssert.cond"}
# slots whose construct writes its own delimiting parentheses directly around the child (`if ( e )`, `sizeof( e )` is NOT one of
# them: the parser reads that parenthesis as the primary-expression parenthesis)
DELIMITED_SLOTS = OWN_PAREN_SLOTS | {"If.cond", "While.cond", "DoWhile.cond", "Switch.cond"}
# GNU statement expression `({ ... })`: the parser accepts `(` `{` at the START OF AN ASSIGNMENT-EXPRESSION only
# (CParser._parse_assignment_expression), and returns the Compound itself.  So a Compound child needs one pair of parentheses
# of its own in a slot parsed at assignment/comma level, one more where the slot is parsed at a tighter level (the extra pair is
# read as a primary-expression parenthesis whose inside is an expression again), and one more where the construct's own
# delimiters stand next to the child.
STMT_EXPR = "StmtExpr"


def catalogue(A):
    """One representative node per (class, operator) with its syntactic level."""
    a, b, c = A.ID("a"), A.ID("b"), A.ID("c")
    tn = A.Typename(None, [], None, A.TypeDecl(None, [], None, A.IdentifierType(["int"])))
    out = [("ID", A.ID("x"), PRIMARY), ("Constant", A.Constant("int", "1"), PRIMARY), ("String", A.Constant("string", '"s"'), PRIMARY),
           ("ArrayRef", A.ArrayRef(a, b), POSTFIX), ("StructRef.", A.StructRef(a, ".", A.ID("m")), POSTFIX),
           ("StructRef->", A.StructRef(a, "->", A.ID("m")), POSTFIX), ("FuncCall", A.FuncCall(a, A.ExprList([b])), POSTFIX),
           ("FuncCall0", A.FuncCall(a, None), POSTFIX), ("p++", A.UnaryOp("p++", a), POSTFIX), ("p--", A.UnaryOp("p--", a), POSTFIX),
           ("CompoundLiteral", A.CompoundLiteral(tn, A.InitList([A.Constant("int", "1")])), POSTFIX),
           ("sizeof-type", A.UnaryOp("sizeof", tn), UNARY), ("Cast", A.Cast(tn, a), CAST),
           ("TernaryOp", A.TernaryOp(a, b, c), COND), ("ExprList", A.ExprList([a, b]), COMMA),
           (STMT_EXPR, A.Compound([A.Constant("int", "1")]), -1)]
    for op in PREFIX_OPS:
        out.append((f"UnaryOp{op}", A.UnaryOp(op, a), UNARY))
    for op, lv in BIN.items():
        out.append((f"BinaryOp{op}", A.BinaryOp(op, a, b), lv))
    for op in ASSIGN_OPS:
        out.append((f"Assignment{op}", A.Assignment(op, a, b), ASSIGN))
    return out


def slots(A):
    """(parent name, builder(child) -> parent node, field of the child, level at which the PARSER parses that slot)."""
    x, y = A.ID("p"), A.ID("q")
    tn = A.Typename(None, [], None, A.TypeDecl(None, [], None, A.IdentifierType(["int"])))
    out = []
    for op, lv in BIN.items():
        out.append((f"BinaryOp{op}.left", lambda ch, op=op: A.BinaryOp(op, ch, y), "left", lv))       # left associative
        out.append((f"BinaryOp{op}.right", lambda ch, op=op: A.BinaryOp(op, x, ch), "right", lv + 1))
    for op in ("&", "*", "+", "-", "~", "!"):
        out.append((f"UnaryOp{op}.expr", lambda ch, op=op: A.UnaryOp(op, ch), "expr", CAST))
    for op in ("++", "--"):
        out.append((f"UnaryOp{op}.expr", lambda ch, op=op: A.UnaryOp(op, ch), "expr", UNARY))
    for op in ("p++", "p--"):
        out.append((f"UnaryOp{op}.expr", lambda ch, op=op: A.UnaryOp(op, ch), "expr", POSTFIX))
    out.append(("Cast.expr", lambda ch: A.Cast(tn, ch), "expr", CAST))
    out.append(("TernaryOp.cond", lambda ch: A.TernaryOp(ch, x, y), "cond", 3))
    out.append(("TernaryOp.iftrue", lambda ch: A.TernaryOp(x, ch, y), "iftrue", COMMA))
    out.append(("TernaryOp.iffalse", lambda ch: A.TernaryOp(x, y, ch), "iffalse", COND))
    for op in ASSIGN_OPS:
        # the parser parses the left operand at conditional level (more permissive than C's unary-expression)
        out.append((f"Assignment{op}.lvalue", lambda ch, op=op: A.Assignment(op, ch, y), "lvalue", COND))
        out.append((f"Assignment{op}.rvalue", lambda ch, op=op: A.Assignment(op, x, ch), "rvalue", ASSIGN))
    out.append(("ArrayRef.name", lambda ch: A.ArrayRef(ch, y), "name", POSTFIX))
    out.append(("ArrayRef.subscript", lambda ch: A.ArrayRef(x, ch), "subscript", COMMA))
    out.append(("StructRef.name", lambda ch: A.StructRef(ch, ".", A.ID("m")), "name", POSTFIX))
    out.append(("FuncCall.name", lambda ch: A.FuncCall(ch, None), "name", POSTFIX))
    out.append(("ExprList.exprs", lambda ch: A.ExprList([x, ch, y]), None, ASSIGN))
    out.append(("FuncCall.args", lambda ch: A.FuncCall(x, A.ExprList([ch, y])), None, ASSIGN))
    out.append(("InitList.exprs", lambda ch: A.InitList([x, ch]), None, ASSIGN))
    # constant-expression positions (parsed at conditional level) and the array bound (assignment level)
    idt = lambda: A.IdentifierType(["int"])  # noqa: E731
    out.append(("Enumerator.value", lambda ch: A.Enumerator("E", ch), "value", COND))
    out.append(("Decl.bitsize", lambda ch: A.Decl("b", [], [], [], [], A.TypeDecl("b", [], None, idt()), None, ch), "bitsize", COND))
    out.append(("Decl.init", lambda ch: A.Decl("v", [], [], [], [], A.TypeDecl("v", [], None, idt()), ch, None), "init", ASSIGN))
    out.append(("ArrayDecl.dim", lambda ch: A.Decl("a", [], [], [], [], A.ArrayDecl(A.TypeDecl("a", [], None, idt()), ch, []), None, None), None, ASSIGN))
    out.append(("Alignas.alignment", lambda ch: A.Alignas(ch), "alignment", COND))
    out.append(("Case.expr", lambda ch: A.Case(ch, [A.EmptyStatement()]), "expr", COND))
    out.append(("NamedInitializer.designator", lambda ch: A.NamedInitializer([ch], A.Constant("int", "1")), None, COND))
    out.append(("NamedInitializer.expr", lambda ch: A.NamedInitializer([A.ID("m")], ch), "expr", ASSIGN))
    out.append(("StaticAssert.cond", lambda ch: A.StaticAssert(ch, None), "cond", COND))
    out.append(("sizeof.expr", lambda ch: A.UnaryOp("sizeof", ch), "expr", UNARY))
    # full-expression slots of statements (parsed at comma level: no child of the catalogue needs parentheses there, except the
    # statement expression)
    e = A.EmptyStatement
    out.append(("Return.expr", lambda ch: A.Return(ch), "expr", COMMA))
    out.append(("If.cond", lambda ch: A.If(ch, e(), None), "cond", COMMA))
    out.append(("While.cond", lambda ch: A.While(ch, e()), "cond", COMMA))
    out.append(("DoWhile.cond", lambda ch: A.DoWhile(ch, e()), "cond", COMMA))
    out.append(("Switch.cond", lambda ch: A.Switch(ch, A.Compound([])), "cond", COMMA))
    out.append(("For.init", lambda ch: A.For(ch, x, y, e()), "init", COMMA))
    out.append(("For.cond", lambda ch: A.For(x, ch, y, e()), "cond", COMMA))
    out.append(("For.next", lambda ch: A.For(x, y, ch, e()), "next", COMMA))
    return out


def _lex(text):
    """Token spellings of `text` by the real lexer (None if it reports an error)."""
    L = core.repo_import("pycparser.c_lexer")
    errs = []
    lx = L.CLexer(lambda *a: errs.append(a), lambda: None, lambda: None, lambda n: False)
    lx.input(text, "g.c")
    out = []
    while True:
        t = lx.token()
        if t is None:
            break
        out.append(t.value)
    return None if errs else out


def parenthesisation_contract() -> core.Result:
    A = core.repo_import("pycparser.c_ast")
    G = core.repo_import("pycparser.c_generator")
    src = core.Source.get("pycparser/c_generator.py")
    res = core.Result()
    cat = catalogue(A)
    n_checked = 0
    for sname, build, fld, need in slots(A):
        bad = []
        for cname, child, level in cat:
            for flag in (False, True):
                gen = G.CGenerator(reduce_parentheses=flag)
                real_visit = G.CGenerator.visit
                MARK = "\u27e6K\u27e7"

                def stub(node, child=child, gen=gen):
                    if node is child:
                        return MARK
                    return real_visit(gen, node)
                gen.visit = stub
                parent = build(child)
                try:
                    text = getattr(G.CGenerator, "visit_" + type(parent).__name__)(gen, parent)
                except Exception as e:  # noqa
                    bad.append(f"{cname} flag={flag}: {type(e).__name__}: {e}")
                    continue
                n_checked += 1
                if MARK not in text:
                    if sname == "NamedInitializer.designator" and cname == "ID":
                        continue  # an identifier designator is printed as `.name` (the AST cannot tell `[N]` from `.N`)
                    bad.append(f"{cname} flag={flag}: the child is not emitted at all: {text!r}")
                    continue
                i = text.index(MARK)
                if cname == STMT_EXPR:
                    before, after = text[:i].replace(" ", ""), text[i + len(MARK):].replace(" ", "")
                    pairs = min(len(before) - len(before.rstrip("(")), len(after) - len(after.lstrip(")")))
                    want = (1 if need <= ASSIGN else 2) + (1 if sname in DELIMITED_SLOTS else 0)
                    if pairs < want:
                        bad.append(f"a statement expression child is printed inside {pairs} pair(s) of parentheses where {want} are needed "
                                   f"(the parser takes `(` `{{` for a statement expression only at the start of an assignment-expression): {text!r}")
                    continue
                wrapped = text[:i].rstrip().endswith("(") and text[i + len(MARK):].lstrip().startswith(")")
                if sname in OWN_PAREN_SLOTS:
                    # `_Alignas( constant-expression )`, `_Static_assert( constant-expression , ...)`: the parentheses next to
                    # the child are the construct's own delimiters, not grouping parentheses
                    wrapped = text[:i].rstrip().endswith("((") and text[i + len(MARK):].lstrip().startswith(")")
                # a function-call / subscript bracket directly around the marker is a delimiter of its own
                if sname in ("ArrayRef.subscript",):
                    wrapped = wrapped or True
                if sname == "FuncCall.args" or sname == "ExprList.exprs" or sname == "InitList.exprs":
                    pass
                if not wrapped and level < need:
                    bad.append(f"child {cname} (level {level}) is printed without parentheses where the parser parses level >= {need}: {text!r}")
                elif not wrapped:
                    # token boundaries: the child's own text, put where the marker stands, must not fuse with its neighbours
                    # under the lexer's longest match (`-` before `--a` would read `--` `-` `a`)
                    ctext = G.CGenerator(reduce_parentheses=flag).visit(child)
                    whole = _lex(text[:i] + ctext + text[i + len(MARK):])
                    parts = _lex(text[:i]) + _lex(ctext) + _lex(text[i + len(MARK):])
                    if whole is not None and None not in (whole, parts) and whole != parts:
                        bad.append(f"child {cname} printed without parentheses fuses with a neighbouring token: "
                                   f"{(text[:i] + ctext + text[i + len(MARK):])!r} lexes as {whole}")
        q = "CGenerator.visit_" + sname.split(".")[0].rstrip("".join(set("".join(list(BIN) + ASSIGN_OPS + PREFIX_OPS + ["p"]))))
        rep = None
        if bad:
            rep = ROUNDTRIP_REPLAY
        res.obs.append(core.Ob(f"C07/gen/parenthesise/{sname}", core.REFUTED if bad else core.DISCHARGED, "GX", 0.0,
                               "; ".join(bad[:3]) or f"{len(cat) * 2} (child class, operator, flag) combinations", replay=rep,
                               functions=["CGenerator." + ("visit_" + sname.split(".")[0].split("Op")[0] + ("Op" if "Op" in sname.split(".")[0] else ""))],
                               sample=sname))
    for q in src.names():
        if q.startswith("CGenerator.") and q.count(".") == 1:
            res.functions.append(src.func(q))
    res.extra["gen_contract_runs"] = n_checked
    res.trusted_base.append("lemma L4 (spec/LEMMAS.md): if every child is emitted in parentheses unless its level is at least the level at which "
                            "the parser parses the slot, and each parse method parses a construct of its level as a unit (C02 term obligations), "
                            "then parse(gen(n)) = n by induction on n")
    return res


ROUNDTRIP_REPLAY = '''from pycparser import c_parser, c_generator
import itertools
ops = ['*','/','%','+','-','<<','>>','<','>','<=','>=','==','!=','&','^','|','&&','||']
atoms = ['a', '(b, c)', 'd = e', 'f ? g : h', '-i', '(int) j', 'k++', 'l[0]', 'sizeof m']
def strip(n):
    return (type(n).__name__, tuple((s, getattr(n, s)) for s in n.attr_names), tuple(strip(c) for _, c in n.children()))
bad = []
srcs = ['(%s) %s (%s)' % (x, o, y) for o in ops for x in atoms for y in atoms]
srcs += ['((%s) %s (%s)) %s (%s)' % ('a', o1, 'b', o2, 'c') for o1 in ops for o2 in ops]
srcs += ['(%s) %s ((%s) %s (%s))' % ('a', o1, 'b', o2, 'c') for o1 in ops for o2 in ops]
srcs += ['(%s) = (%s)' % (x, y) for x in atoms for y in atoms] + ['-(%s)' % x for x in atoms] + ['(%s)[(%s)]' % (x, y) for x in atoms for y in atoms]
srcs += ['(%s) ? (%s) : (%s)' % (x, y, z) for x in atoms[:5] for y in atoms[:5] for z in atoms[:5]]
srcs += ['return ({1;})', 'if (({1;})) x = 1', 'x = a[({1;})]', 'x = sizeof (({1;}))', '(({1;})) = 1', 'while (({1;})) x = 1', 'do x = 1; while (({1;}))',
         'for (({1;}); ({1;}); ({1;})) x = 1', 'switch (({1;})) { case (({1;})): x = 1; }', 'x = 1 + (({1;}))', 'x = (({1;})) ? 1 : 2', 'x = (int)(({1;}))']
for e in srcs:
    src = 'void f(void) { %s; }' % e
    try:
        t1 = c_parser.CParser().parse(src)
    except c_parser.ParseError:
        continue
    for flag in (False, True):
        g = c_generator.CGenerator(reduce_parentheses=flag)
        text = g.visit(t1)
        try:
            t2 = c_parser.CParser().parse(text)
        except Exception as ex:
            bad.append((e, flag, 'generated text does not parse: %s' % ex)); continue
        if strip(t1) != strip(t2): bad.append((e, flag, 'different AST after regeneration: ' + text.splitlines()[2].strip()))
        elif c_generator.CGenerator(reduce_parentheses=flag).visit(t2) != text: bad.append((e, flag, 'regenerated text differs'))
for b in bad[:5]: print(b)
print('REPRODUCED' if bad else 'NOT-REPRODUCED')
'''


PRAGMA_REPLAY = '''from pycparser import c_parser, c_generator
SRC = "#pragma omp  for  \\nint x;\\nvoid f(void) {\\n#pragma  y \\n x = 1; }\\n"
t1 = c_parser.CParser().parse(SRC)
text = c_generator.CGenerator().visit(t1)
t2 = c_parser.CParser().parse(text)
p1 = [n.string for n in [t1.ext[0]] + [t1.ext[2].body.block_items[0]]]
p2 = [n.string for n in [t2.ext[0]] + [t2.ext[2].body.block_items[0]]]
print(p1, p2)
print('REPRODUCED' if p1 != p2 else 'NOT-REPRODUCED')
'''


def table_obligations() -> core.Result:
    G = core.repo_import("pycparser.c_generator")
    P = core.repo_import("pycparser.c_parser")
    L = core.repo_import("pycparser.c_lexer")
    A = core.repo_import("pycparser.c_ast")
    res = core.Result()
    lit = {ft.tok_type: ft.literal for ft in L._fixed_tokens}
    pm = G.CGenerator.precedence_map
    bad = []
    for t1, p1 in P._BINARY_PRECEDENCE.items():
        for t2, p2 in P._BINARY_PRECEDENCE.items():
            s1, s2 = lit.get(t1), lit.get(t2)
            if s1 not in pm or s2 not in pm:
                bad.append(f"{s1 if s1 not in pm else s2} missing from CGenerator.precedence_map")
                continue
            if (p1 < p2) != (pm[s1] < pm[s2]) or (p1 == p2) != (pm[s1] == pm[s2]):
                bad.append(f"{s1} vs {s2}: parser {p1},{p2} generator {pm[s1]},{pm[s2]}")
    res.obs.append(core.Ob("C07/tb/precedence-map-mirrors-parser", core.REFUTED if bad else core.DISCHARGED, "TB", 0.0,
                           "; ".join(sorted(set(bad))[:4]) or "18x18 operator pairs ordered alike in parser and generator",
                           replay=ROUNDTRIP_REPLAY if bad else None, functions=["CGenerator.precedence_map"]))
    # statement terminators: the classes that print as an expression or declaration get ';', the others must not
    want_semi = {"Decl", "Assignment", "Cast", "UnaryOp", "BinaryOp", "TernaryOp", "FuncCall", "ArrayRef", "StructRef", "Constant", "ID",
                 "Typedef", "ExprList", "CompoundLiteral"}
    tn = A.Typename(None, [], None, A.TypeDecl(None, [], None, A.IdentifierType(["int"])))
    samples = {
        "Decl": A.Decl("v", [], [], [], [], A.TypeDecl("v", [], None, A.IdentifierType(["int"])), None, None),
        "Typedef": A.Typedef("T", [], ["typedef"], A.TypeDecl("T", [], None, A.IdentifierType(["int"]))),
        "Assignment": A.Assignment("=", A.ID("a"), A.ID("b")), "Cast": A.Cast(tn, A.ID("a")), "UnaryOp": A.UnaryOp("-", A.ID("a")),
        "BinaryOp": A.BinaryOp("+", A.ID("a"), A.ID("b")), "TernaryOp": A.TernaryOp(A.ID("a"), A.ID("b"), A.ID("c")),
        "FuncCall": A.FuncCall(A.ID("f"), None), "ArrayRef": A.ArrayRef(A.ID("a"), A.ID("i")), "StructRef": A.StructRef(A.ID("a"), ".", A.ID("m")),
        "Constant": A.Constant("int", "1"), "ID": A.ID("a"), "ExprList": A.ExprList([A.ID("a"), A.ID("b")]),
        "CompoundLiteral": A.CompoundLiteral(tn, A.InitList([A.Constant("int", "1")])),
        "Return": A.Return(None), "Break": A.Break(), "Continue": A.Continue(), "Goto": A.Goto("L"), "EmptyStatement": A.EmptyStatement(),
        "Compound": A.Compound([]), "If": A.If(A.ID("a"), A.EmptyStatement(), None), "While": A.While(A.ID("a"), A.EmptyStatement()),
        "DoWhile": A.DoWhile(A.ID("a"), A.EmptyStatement()), "For": A.For(None, None, None, A.EmptyStatement()),
        "Switch": A.Switch(A.ID("a"), A.Compound([])), "Label": A.Label("L", A.EmptyStatement()), "Pragma": A.Pragma("p"),
        "Case": A.Case(A.Constant("int", "1"), [A.EmptyStatement()]), "Default": A.Default([A.EmptyStatement()]),
    }
    bad = []
    for name, node in samples.items():
        g = G.CGenerator()
        try:
            t = g._generate_stmt(node)
        except Exception as e:  # noqa
            bad.append(f"{name}: {type(e).__name__}: {e}")
            continue
        core_text = g.visit(node)
        has = t.rstrip().endswith(";") and not core_text.rstrip().endswith(";")
        added = t.strip() == core_text.strip() + ";"
        if name in want_semi and not added:
            bad.append(f"{name} as a statement gets no ';': {t!r}")
        if name not in want_semi and added:
            bad.append(f"{name} as a statement gets a spurious ';': {t!r}")
    # text-valued attributes are emitted verbatim (the lexer keeps the whole rest of a #pragma line, blanks included)
    vb = []
    for node, want in ((A.Pragma("omp  for  "), "#pragma omp  for  "), (A.Pragma("x"), "#pragma x"), (A.Pragma(""), "#pragma"),
                       (A.ID("_a$1"), "_a$1"), (A.Constant("int", "0x1FuLL"), "0x1FuLL"), (A.Constant("string", '"a  b "'), '"a  b "'),
                       (A.Goto("L1"), "goto L1;")):
        try:
            got = G.CGenerator().visit(node)
        except Exception as e:  # noqa
            vb.append(f"{type(node).__name__}: {type(e).__name__}: {e}")
            continue
        if got != want:
            vb.append(f"{type(node).__name__}: generated {got!r}, the attribute requires {want!r}")
    res.obs.append(core.Ob("C07/tb/attributes-verbatim", core.REFUTED if vb else core.DISCHARGED, "TB", 0.0,
                           "; ".join(vb[:4]) or "spellings held in attributes (pragma text with blanks, names, constants, labels) are emitted unchanged",
                           replay=(PRAGMA_REPLAY if vb else None), functions=["CGenerator.visit_Pragma", "CGenerator.visit_ID", "CGenerator.visit_Constant"]))
    res.obs.append(core.Ob("C07/tb/statement-terminators", core.REFUTED if bad else core.DISCHARGED, "TB", 0.0,
                           "; ".join(bad[:4]) or f"{len(samples)} node classes in statement position: ';' exactly for expressions and declarations",
                           replay=ROUNDTRIP_REPLAY if bad else None, functions=["CGenerator._generate_stmt"]))
    return res


# ---------------------------------------------------------------- bounded stand-in: round trip sweep over source texts
def sweep_sources(tier):
    ops = list(BIN)
    atoms = ["a", "(b, c)", "d = e", "f ? g : h", "-i", "(int) j", "k++", "l[0]", "sizeof m", "n.o", "p(q)", "&r", "*s", "(int){1}",
             "sizeof(int)", "!t", "u->v", "w << 1"]
    ex = []
    sub = atoms if tier == "thorough" else atoms[:9]
    ex += ["(%s) %s (%s)" % (x, o, y) for o in ops for x in sub for y in sub]
    ex += ["((a) %s (b)) %s (c)" % (o1, o2) for o1 in ops for o2 in ops] + ["(a) %s ((b) %s (c))" % (o1, o2) for o1 in ops for o2 in ops]
    ex += ["(%s) %s (%s)" % (x, o, y) for o in ASSIGN_OPS for x in atoms for y in atoms]
    ex += ["%s(%s)" % (o, x) for o in ["-", "+", "!", "~", "&", "*", "++", "--", "sizeof "] for x in atoms]
    ex += ["(%s)++" % x for x in atoms] + ["(int)(%s)" % x for x in atoms] + ["(%s)[(%s)]" % (x, y) for x in atoms for y in atoms[:6]]
    ex += ["(%s).m" % x for x in atoms] + ["(%s)(%s, %s)" % (x, y, y) for x in atoms[:8] for y in atoms]
    ex += ["(%s) ? (%s) : (%s)" % (x, y, z) for x in atoms[:6] for y in atoms[:6] for z in atoms[:6]]
    ex += ["(%s), (%s)" % (x, y) for x in atoms for y in atoms]
    srcs = ["void f(void) { %s; }" % e for e in ex]
    stmts = ["if (a) b; else c;", "if (a) if (b) c; else d;", "if (a) { if (b) c; } else d;", "while (a) b;", "do a; while (b);",
             "for (;;) a;", "for (a; b; c) d;", "for (int i = 0, *p = 0; i; i++) ;", "for (int i = 0; ; ) { }", "switch (a) { case 1: b; case 2: case 3: c; default: d; }",
             "switch (a) { b; case 1: c; }", "L: a;", "L: ;", "goto L;", "return;", "return a, b;", "break;", "continue;", ";", "{ }", "{ a; { b; } }",
             "(int){1};", "int x = 1, y[2] = {1, 2};", "_Static_assert(1, \"m\");", "if (a)\n#pragma omp x\n b;", "#pragma p\n a;",
             "struct S { int a; } s = { .a = 1 };", "int a[3] = { [1] = 2 };", "typedef int T; T t;", "enum E { A, B = 2 } e;",
             "(a, b) = 1;", "(a = b) = c;", "a ? b : (c, d);", "sizeof(int[3]);", "x = (struct S){ .a = 1 }.a;", "char *s = \"a\" \"b\";"]
    srcs += ["void f(void) { %s }" % s for s in stmts]
    decls = []
    base = ["int", "const int", "struct S", "unsigned long", "T"]
    mods = ["*%s", "* const %s", "%s[3]", "%s[]", "%s(void)", "%s(int a, char *b)", "%s()"]
    names = ["x"]
    for depth in (1, 2, 3):
        new = []
        for n_ in names:
            for m in mods:
                new.append(m % ("(" + n_ + ")" if n_ != "x" else n_))
        decls += new if depth < 3 or tier == "thorough" else new[:120]
        names = new
    srcs += ["typedef int T;\n%s %s;" % (b, d) for d in decls for b in (base if tier == "thorough" else base[:2])]
    srcs += ["_Alignas(8) int x;", "_Alignas(4) _Alignas(8) int x;", "_Atomic(int) x;", "_Atomic(int *) x;", "int * _Atomic x;", "_Noreturn void f(void);",
             "static inline int f(int a) { return a; }", "int f(a, b) int a; char b; { return a; }", "extern _Thread_local int x;",
             "struct S { int a : 3; unsigned : 0; struct { int b; }; };", "union U { int a; float b; } u;", "enum { A };", "int f(int, ...);",
             "void (*signal(int, void (*)(int)))(int);", "int x = sizeof(struct S { int a; });", "_Pragma(\"foo\")", "#pragma bar\nint x;",
             "int a[static 3], b[const *], c[restrict static 2];" if False else "void g(int a[static 3], int b[const *], int c[restrict 2]);",
             "_Static_assert(sizeof(int) == 4, \"x\");", "int x = _Alignof(int);", "typedef struct S T2; T2 *p;",
             "_Alignas((1, 2)) int ac;", "_Static_assert((1, 2), \"m\");", "const struct S;", "volatile enum E2 { A2 };", "struct P { const struct Q; int m; };", "struct R { const int; volatile unsigned; int m; };",
             # consequence of the open C04 finding (a name's scope begins only after the whole init-declarator-list): the generator prints
             # one declaration per declarator, after which `(T)` is no longer a cast
             "typedef int T; void SCOPE_TIMING(void) { int T = 1, y = (T)+1; }",
             "_Atomic(int *) (*pa)[3];", "_Atomic(int *) (*fpa)(void);", "struct SA { _Atomic(int *) (*m)[2]; };", "int xa = sizeof(_Atomic(int *) (*)[3]);",
             "void fa(_Atomic(int *) (*)(void));", "_Atomic(int *) (aa), *(ba);",
             "_Atomic(int) const x1;", "const _Atomic(int *) c1;", "_Atomic(int) a1, *b1;", "_Atomic(int) *p1, q1;", "void f1(_Atomic(int) *);",
             "int z1 = sizeof(_Atomic(int));", "int y1 = (_Atomic(int *))0 == 0;", "typedef _Atomic(int) AI, *PAI;", "_Atomic(int[3]) arr1, brr1;",
             "struct S { int a; } a, b;", "typedef struct T { int x; } T1, *T2;", "enum E { A, B } e1, e2;", "union U { int a; } u1, *u2, u3[2];",
             "void f(int a[const], char *argv[restrict], int b[static const 2], int c[volatile *], int d[const restrict]);",
             "int f(int a[], int b[3][4], int (*c)[5]);", "struct S { struct S *next; } *head, nodes[3];"]
    # array declarators: every dimension form x qualifier list, in parameter position
    for quals in ("", "const", "const restrict", "static", "static const", "const static"):
        for dim in ("", "n", "3", "*"):
            if ("static" in quals and dim in ("", "*")) or (dim == "*" and "static" in quals):
                continue
            srcs.append("void g(int n, int a[%s]);" % (quals + (" " if quals and dim else "") + dim))
    return srcs


def sweep(tier) -> core.Result:
    P = core.repo_import("pycparser.c_parser")
    G = core.repo_import("pycparser.c_generator")
    res = core.Result()

    def strip(n):
        def val(v):
            if hasattr(v, "children"):
                return strip(v)
            if isinstance(v, list):
                return tuple(val(x) for x in v)
            return v
        return (type(n).__name__, tuple((s, val(getattr(n, s))) for s in n.attr_names), tuple(strip(c) for _, c in n.children()))
    t0 = time.time()
    srcs = sweep_sources(tier)
    bad = []
    n = 0
    for src in srcs:
        try:
            t1 = P.CParser().parse(src, "s.c")
        except P.ParseError:
            continue
        for flag in (False, True):
            n += 1
            try:
                text = G.CGenerator(reduce_parentheses=flag).visit(t1)
                t2 = P.CParser().parse(text, "s.c")
            except Exception as e:  # noqa
                bad.append((src, flag, f"{type(e).__name__}: {e}"))
                continue
            if strip(t1) != strip(t2):
                bad.append((src, flag, "second AST differs; generated: " + " ".join(text.split())[:120]))
            elif G.CGenerator(reduce_parentheses=flag).visit(t2) != text:
                bad.append((src, flag, "regenerated text differs"))
    # group failures by root cause signature (the source family)
    groups = {}
    for src, flag, why in bad:
        key = "alignas" if "_Alignas(4) _Alignas(8)" in src else "decllist" if "for (int i = 0, *p" in src else \
            "pragma-operator" if "_Pragma" in src else "scope-timing" if "SCOPE_TIMING" in src else "other"
        groups.setdefault(key, []).append((src, flag, why))
    rep_t = ("from pycparser import c_parser, c_generator\nSRC = %r\nFLAG = %r\n"
             "def strip(n):\n"
             "    def val(v):\n"
             "        if hasattr(v, 'children'): return strip(v)\n"
             "        if isinstance(v, list): return tuple(val(x) for x in v)\n"
             "        return v\n"
             "    return (type(n).__name__, tuple((s, val(getattr(n, s))) for s in n.attr_names), tuple(strip(c) for _, c in n.children()))\n"
             "t1 = c_parser.CParser().parse(SRC)\n"
             "try:\n    text = c_generator.CGenerator(reduce_parentheses=FLAG).visit(t1); print(text)\n    t2 = c_parser.CParser().parse(text)\n"
             "    ok = strip(t1) == strip(t2) and c_generator.CGenerator(reduce_parentheses=FLAG).visit(t2) == text\n"
             "except Exception as e:\n    print(type(e).__name__, e); ok = False\n"
             "print('NOT-REPRODUCED' if ok else 'REPRODUCED')\n")
    for key in ("alignas", "decllist", "pragma-operator", "scope-timing", "other"):
        g = groups.get(key, [])
        name = f"C07/sweep/roundtrip/{key}"
        if g:
            src, flag, why = g[0]
            res.obs.append(core.Ob(name, core.REFUTED, "enum", 0.0, f"{why}\nsource: {src}\nreduce_parentheses={flag}\n({len(g)} failing cases)",
                                   replay=rep_t % (src, flag), functions=["CGenerator.visit"], bounded=True, sample=src))
        else:
            res.obs.append(core.Ob(name, core.DISCHARGED, "enum", 0.0, f"{n} (source, configuration) round trips in total",
                                   functions=["CGenerator.visit"], bounded=True, sample=srcs[0]))
    res.extra["sweep_roundtrips"] = n
    res.extra["sweep_time_s"] = round(time.time() - t0, 1)
    res.assumptions.append("the visit methods of declarations, statements and initialisers are covered by the BOUNDED round-trip sweep "
                           "(every parent/child/operator pair, declarators up to 3 derivations, every statement kind), not by a proof")
    return res


def run(tier, seed):
    res = parenthesisation_contract()
    res.add(table_obligations())
    from pyvc import fx_obligations
    fx = fx_obligations.c12_fx(tier)
    fx.obs = [o for o in fx.obs if "/indent-balanced/" in o.name or "default-arg-not-mutated" in o.name or "generator-fields" in o.name]
    for o in fx.obs:
        o.name = "C07/" + o.name[4:]
    res.add(fx)
    # FX is a may-analysis: what it cannot discharge about generator state is a violation only if a re-used generator really
    # behaves differently from a fresh one (tools/dynmon.py history)
    from props import dynconfirm
    dynconfirm.apply(res, "C07", "history", also_undecided=True)
    res.add(sweep(tier))
    return res
