"""C01 -- every valid C99 / supported-C11 translation unit is accepted."""
from props import gxcommon as G


def run(tier, seed):
    # the static_assert ';' inside a block is accepted by the parser as a whole (the ';' becomes an empty statement):
    # that is an AST-shape matter reported under C05, not a rejection
    res = G.gx(None, ["accept"], "C01/gx", tier, drop=lambda o: "block-item: static_assert-declaration" in o.name)
    from props import tables
    res.add(tables.c01_tables())
    return res
