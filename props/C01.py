"""C01 -- every valid C99 / supported-C11 translation unit is accepted."""
from props import gxcommon as G


def run(tier, seed):
    # the static_assert ';' inside a block is accepted by the parser as a whole (the ';' becomes an empty statement):
    # that is an AST-shape matter reported under C05, not a rejection
    res = G.gx(None, ["accept"], "C01/gx", tier, drop=lambda o: "block-item: static_assert-declaration" in o.name)
    from props import tables
    res.add(tables.c01_tables())
    # literal and identifier forms (u8/u/U literals, every constant form): the lexer rules against the C99 lexical grammar
    from pyvc import rx_obligations
    rx = rx_obligations.c10_obligations(tier)
    rx.obs = [o for o in rx.obs if o.name.startswith(("C10/lang", "C10/priority"))]
    for o in rx.obs:
        o.name = "C01/rx/" + o.name[4:]
    res.add(rx)
    kw = rx_obligations.c09_rx_obligations(tier)
    kw.obs = [o for o in kw.obs if "/keywords" in o.name or "/fixed-buckets" in o.name]
    for o in kw.obs:
        o.name = "C01/rx/" + o.name[8:]
    res.add(kw)
    # speculative parsing must leave the stream where it was (mark/reset contracts of the token stream)
    from pyvc.smt_props import run_functions
    import contracts.tokenstream as TS
    import contracts.parser_core  # noqa: F401
    res.add(run_functions(TS.FUNCTIONS + ["CParser._mark", "CParser._reset", "CParser._peek", "CParser._advance", "CParser._accept",
                                          "CParser._expect"], "C01/smt", tier))
    # acceptance is claimed for a parser in ANY earlier state (a re-used instance): every parse starts from the same lexer,
    # scope and stream state, and the scope / classification functions do what C scoping says (typedef feedback)
    import contracts.lexer as LX  # noqa: F401
    res.add(run_functions(["CParser.parse#prologue", "CLexer.input", "CLexer._init_state", "CParser._is_type_in_scope",
                           "CParser._add_typedef_name", "CParser._add_identifier", "CParser._push_scope", "CParser._pop_scope"],
                          "C01/smt", tier))
    # typedef feedback through the real lexer/parser composition (valid programs with local re-declarations must not be rejected)
    from props import scopesweep
    sw = scopesweep.obligations(tier)
    sw.obs = [o for o in sw.obs if o.name.endswith("/core")]
    for o in sw.obs:
        o.name = "C01/" + o.name[4:]
    res.add(sw)
    # the switch regrouping runs inside the parser on every switch statement: a body it cannot handle is a rejected program
    # / a stray exception (bounded enumeration, shared with C05)
    from props import switchcases
    sc = switchcases.obligations(tier)
    for o in sc.obs:
        o.name = "C01/" + o.name[4:]
    res.add(sc)
    return res
