"""C17 -- the AST (minus coordinates) depends only on the token sequence."""
from pyvc import fx_obligations
from props import gxcommon as G


def run(tier, seed):
    res = fx_obligations.c17_fx(tier)
    from props import dynconfirm
    dynconfirm.apply(res, "C17", "layout")
    # parentheses influence grouping only: `( expression )` returns the inner value itself
    # (a redundant pair of parentheses around ANY operand must not change the tree: every expression method returns the tree
    # the grammar assigns, so that `a ? x : b ? y : z` and `a ? x : (b ? y : z)` are the same tree)
    res.add(G.gx(G.EXPR_METHODS, ["accept", "term", "concrete"], "C17/gx", tier))
    from pyvc.smt_props import run_functions as _rf
    import contracts.expr as _E
    res.add(_rf(_E.FUNCTIONS, "C17/smt", tier))
    try:
        from pyvc.smt_props import run_functions
        import contracts.lexer as LX
        from props import lexreplay
        res.add(lexreplay.attach(run_functions(LX.C17_FUNCTIONS, "C17/smt", tier)))
    except ImportError:
        res.assumptions.append("lexer layout contracts (SMT) not built; layout independence rests on the FX lexer-layout-only-state obligations")
    from props import parensweep
    res.add(parensweep.obligations(tier))
    from props import ppline
    pl = ppline.obligations(tier)
    for o in pl.obs:
        o.name = "C17/" + o.name
    res.add(pl)
    return res
