"""C17 -- the AST (minus coordinates) depends only on the token sequence."""
from pyvc import fx_obligations
from props import gxcommon as G


def run(tier, seed):
    res = fx_obligations.c17_fx(tier)
    # parentheses influence grouping only: `( expression )` returns the inner value itself
    res.add(G.gx(["_parse_primary_expression", "_parse_postfix_expression", "_parse_unary_expression", "_parse_cast_expression"],
                 ["accept", "term"], "C17/gx", tier))
    try:
        from pyvc.smt_props import run_functions
        import contracts.lexer as LX
        from props import lexreplay
        res.add(lexreplay.attach(run_functions(LX.C17_FUNCTIONS, "C17/smt", tier)))
    except ImportError:
        res.assumptions.append("lexer layout contracts (SMT) not built; layout independence rests on the FX lexer-layout-only-state obligations")
    from props import ppline
    pl = ppline.obligations(tier)
    for o in pl.obs:
        o.name = "C17/" + o.name
    res.add(pl)
    return res
