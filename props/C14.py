"""C14 -- node classes and tree traversal conform to the declarative AST specification (_c_ast.cfg)."""
import ast
import inspect
import time

from pyvc import core
from pyvc.smt_props import run_functions


def _tb(name, ok, detail, fn, replay=None):
    return core.Ob(name, core.DISCHARGED if ok else core.REFUTED, "TB", 0.0, detail, replay=replay,
                   functions=[fn], sample=detail[:120])


def table_obligations() -> core.Result:
    """Finite obligations on the real class objects, against the independent cfg reader."""
    import contracts.c_ast_gen as G

    res = core.Result()
    c_ast = core.repo_import("pycparser.c_ast")
    src = core.Source.get("pycparser/c_ast.py")
    cfg = G.CFG
    real = {k for k, v in vars(c_ast).items() if isinstance(v, type) and issubclass(v, c_ast.Node) and v is not c_ast.Node}
    res.obs.append(_tb("C14/tb/class-set", real == set(cfg), f"classes in c_ast.py vs _c_ast.cfg: extra={sorted(real - set(cfg))} missing={sorted(set(cfg) - real)}", "c_ast"))
    for cls, fields in cfg.items():
        if cls not in real:
            continue
        k = getattr(c_ast, cls)
        names = [f for f, _ in fields]
        attrs = tuple(f for f, kind in fields if kind == "attr")
        rep = (f"from pycparser import c_ast\nk = c_ast.{cls}\nimport inspect\n"
               f"print(k.__slots__, k.attr_names, list(inspect.signature(k.__init__).parameters))\n")
        want_slots = tuple(names) + ("coord", "__weakref__")
        res.obs.append(_tb(f"C14/tb/slots/{cls}", tuple(k.__slots__) == want_slots,
                           f"{cls}.__slots__ = {k.__slots__!r}; specification gives {want_slots!r}", f"{cls}",
                           rep + f"print('REPRODUCED' if tuple(k.__slots__) != {want_slots!r} else 'NOT-REPRODUCED')\n"))
        res.obs.append(_tb(f"C14/tb/attr_names/{cls}", tuple(k.attr_names) == attrs,
                           f"{cls}.attr_names = {k.attr_names!r}; specification gives {attrs!r}", f"{cls}",
                           rep + f"print('REPRODUCED' if tuple(k.attr_names) != {attrs!r} else 'NOT-REPRODUCED')\n"))
        sig = inspect.signature(k.__init__)
        ps = list(sig.parameters.values())[1:]
        ok = [p.name for p in ps] == names + ["coord"] and ps[-1].default is None and \
            all(p.default is inspect.Parameter.empty for p in ps[:-1]) and \
            all(p.kind == inspect.Parameter.POSITIONAL_OR_KEYWORD for p in ps)
        want_ps = names + ["coord"]
        res.obs.append(_tb(f"C14/tb/init-signature/{cls}", ok,
                           f"{cls}.__init__{sig}; specification order {names} then coord=None", f"{cls}.__init__",
                           rep + f"print('REPRODUCED' if list(inspect.signature(k.__init__).parameters)[1:] != {want_ps!r} else 'NOT-REPRODUCED')\n"))
        # iteration protocol: __iter__ returns an ITERATOR (a generator), for absent and for present children alike -- the SMT
        # contract speaks about the sequence of values it yields, this about the kind of object
        bad_it = None
        for present in (False, True):
            kw = {}
            for f, kind in fields:
                kw[f] = (f"<{f}>" if kind == "attr" else ((c_ast.ID("k") if present else None) if kind == "child"
                                                           else ([c_ast.ID("k0"), c_ast.ID("k1")] if present else None)))
            try:
                node = k(**kw)
                got = list(iter(node))
                want = [c for _, c in node.children()]
                if len(got) != len(want) or any(a is not b for a, b in zip(got, want)):
                    bad_it = f"iteration yields {got!r}, children() reports {want!r}"
            except Exception as e:  # noqa
                bad_it = f"iter({cls}(...)) with children {'present' if present else 'absent'}: {type(e).__name__}: {e}"
        res.obs.append(_tb(f"C14/tb/iter-protocol/{cls}", bad_it is None, bad_it or f"iter({cls}) is an iterator over exactly the children", f"{cls}.__iter__",
                           REPLAY % (cls, "__iter__")))
        # methods are defined by the class itself (not inherited / monkey-patched)
        own = all(m in vars(k) for m in ("__init__", "children", "__iter__"))
        res.obs.append(_tb(f"C14/tb/own-methods/{cls}", own, f"{cls} defines __init__/children/__iter__ itself: {own}", cls))
    for q in ("Node", "NodeVisitor"):
        if src.has(q):
            res.functions.append(src.func(q))
    res.trusted_base.append("independent reader of _c_ast.cfg: contracts/c_ast_gen.py read_cfg() (sha256 %s)" % core.file_sha("contracts/c_ast_gen.py"))
    return res


REPLAY = '''
import itertools, re, os
from pycparser import c_ast
cls, meth = %r, %r
cfg = {}
for line in open(os.path.join(os.path.dirname(c_ast.__file__), "_c_ast.cfg")):
    line = line.split("#", 1)[0].strip()
    m = re.fullmatch(r"(\\w+)\\s*:\\s*\\[(.*)\\]", line)
    if m:
        cfg[m.group(1)] = [e.strip() for e in m.group(2).split(",") if e.strip()]
ents = cfg[cls]
singles = [e[:-1] for e in ents if e.endswith("*") and not e.endswith("**")]
seqs = [e[:-2] for e in ents if e.endswith("**")]
attrs = [e for e in ents if not e.endswith("*")]
bad = None
for present in itertools.product((False, True), repeat=len(singles)):
    for lens in itertools.product((None, 0, 1, 2), repeat=len(seqs)):
        kw = {a: "<%%s>" %% a for a in attrs}
        for s, p in zip(singles, present):
            kw[s] = c_ast.ID("s_" + s) if p else None
        for q, n in zip(seqs, lens):
            kw[q] = None if n is None else [c_ast.ID("%%s_%%d" %% (q, i)) for i in range(n)]
        order = [e.rstrip("*") for e in ents]
        node = getattr(c_ast, cls)(*[kw[f] for f in order], "COORD")
        exp = [(s, kw[s]) for s in singles if kw[s] is not None]
        for q in seqs:
            exp += [("%%s[%%d]" %% (q, i), c) for i, c in enumerate(kw[q] or [])]
        if meth == "__init__":
            ok = all(getattr(node, f) is kw[f] for f in order) and node.coord == "COORD"
        elif meth == "children":
            got = node.children()
            ok = isinstance(got, tuple) and len(got) == len(exp) and all(a[0] == b[0] and a[1] is b[1] for a, b in zip(got, exp))
        else:
            got = list(iter(node))
            ok = len(got) == len(exp) and all(a is b[1] for a, b in zip(got, exp))
        if not ok and bad is None:
            bad = (present, lens)
print("first failing (present singles, sequence lengths):", bad)
print("REPRODUCED" if bad is not None else "NOT-REPRODUCED")
'''


def _replay_for(qual):
    cls, _, meth = qual.partition(".")
    return REPLAY % (cls, meth)


def run(tier, seed):
    import contracts.c_ast_gen as G
    import contracts.visitor as V

    res = run_functions(G.FUNCTIONS + V.FUNCTIONS, "C14/smt", tier)
    for o in res.obs:
        if o.status == core.REFUTED and o.replay is None and o.functions:
            o.replay = _replay_for(o.functions[0])
    res.add(table_obligations())
    res.add(V.structural_obligations())
    # producer side of "one line per node": no parse method ever stores a node in an attr_names field
    from props import gxcommon as GXC
    res.add(GXC.gx(None, ["attrs"], "C14/gx", tier))
    res.assumptions.append("sequence-valued fields ('**' in the specification) hold None or a list (precondition of the constructors)")
    return res
