"""C03 -- declaration ASTs encode C declarator semantics for every declared name."""
from props import gxcommon as G


def run(tier, seed):
    res = G.gx(G.decl_methods(), ["accept", "term", "concrete"], "C03/gx", tier)
    try:
        from pyvc.smt_props import run_functions
        import contracts.declarators as D
        res.add(run_functions(D.FUNCTIONS, "C03/smt", tier))
    except ImportError:
        res.assumptions.append("SMT contracts of _type_modify_decl/_fix_decl_name_type not built; they run for real inside the GX runs")
    from props import declsweep
    res.add(declsweep.independence())
    return res
