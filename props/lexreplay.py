"""Native replay of lexer counter-models: the witness text of the model is fed to the real CLexer and checked against
an independent oracle written from the property (C09/C10/C11/C04): lossless, position exact, longest match against
the C punctuators, keyword classification, brace callbacks, errors reported at the offending column."""
import re

ORACLE = r'''
from pycparser.c_lexer import CLexer
TEXT = %r
TYPES = %r     # identifiers the type-lookup callback says are types
PUNCT = ["...", "<<=", ">>=", "++", "--", "->", "&&", "||", "<<", ">>", "<=", ">=", "==", "!=", "*=", "/=", "%%=", "+=", "-=", "&=",
         "|=", "^=", "=", "+", "-", "*", "/", "%%", "|", "&", "~", "^", "!", "<", ">", "?", "(", ")", "[", "]", "{", "}", ",", ".", ";", ":"]
KEYWORDS = """auto break case char const continue default do double else enum extern float for goto if inline int long register
restrict return short signed sizeof static struct switch typedef union unsigned void volatile while _Bool _Complex _Noreturn
_Thread_local _Static_assert _Atomic _Alignof _Alignas _Pragma __int128 offsetof""".split()
errs, lb, rb = [], [0], [0]
lex = CLexer(lambda m, l, c: errs.append((m, l, c)), lambda: lb.__setitem__(0, lb[0] + 1), lambda: rb.__setitem__(0, rb[0] + 1),
             lambda n: n in TYPES)
lex.input(TEXT, "w.c")
toks = []
steps = 0
while True:
    t = lex.token()
    steps += 1
    if t is None or steps > 10 * len(TEXT) + 10:
        break
    toks.append(t)
problems = []
if steps > 10 * len(TEXT) + 10:
    problems.append("lexer does not terminate")
has_directive = "#" in TEXT
lines = TEXT.split("\n")
starts = [0]
for ln in lines[:-1]:
    starts.append(starts[-1] + len(ln) + 1)
pos = 0
for t in toks:
    if has_directive:
        break
    if not (1 <= t.lineno <= len(lines)):
        problems.append(f"token {t} has a line outside the text"); break
    off = starts[t.lineno - 1] + t.column - 1
    if TEXT[off:off + len(t.value)] != t.value:
        problems.append(f"token {t!r} does not spell the text at its line/column"); continue
    if off < pos:
        problems.append(f"token {t!r} overlaps the previous one")
    skipped = TEXT[pos:off]
    if not errs and skipped.strip(" \t\n") != "":
        problems.append(f"characters {skipped!r} skipped without a report")
    for p in PUNCT:
        if TEXT.startswith(p, off) and len(p) > len(t.value):
            problems.append(f"{t!r}: the longer punctuator {p!r} starts here (longest match)")
    if t.value in KEYWORDS and t.type in ("ID", "TYPEID"):
        problems.append(f"keyword {t.value} classified as {t.type}")
    if t.type == "TYPEID" and t.value not in TYPES:
        problems.append(f"{t.value} classified TYPEID but the lookup says no")
    if t.type == "ID" and t.value in TYPES:
        problems.append(f"{t.value} classified ID but the lookup says it is a type")
    pos = off + len(t.value)
if not has_directive:
    if lb[0] != sum(1 for t in toks if t.type == "LBRACE") or rb[0] != sum(1 for t in toks if t.type == "RBRACE"):
        problems.append(f"brace callbacks {lb[0]}/{rb[0]} do not match the brace tokens produced")
    for (m, l, c) in errs:
        if "Illegal character" in m:
            off = starts[l - 1] + c - 1 if 1 <= l <= len(lines) else -1
            if not (0 <= off < len(TEXT)) or repr(TEXT[off]) not in m:
                problems.append(f"error {m!r} reported at {l}:{c}, which is not that character")
print("tokens:", [(t.type, t.value, t.lineno, t.column) for t in toks]); print("errors:", errs)
for p in problems: print("  problem:", p)
print("REPRODUCED" if problems else "NOT-REPRODUCED")
'''


def z3_unescape(s: str) -> str:
    return re.sub(r"\\u\{([0-9a-fA-F]+)\}", lambda m: chr(int(m.group(1), 16)), s)


def replay_from_detail(detail: str):
    m = re.search(r'^text = VStr\("(.*)"\)$', detail or "", re.M | re.S)
    if not m:
        m = re.search(r'text = VStr\("(.*?)"\)\s*$', detail or "", re.M | re.S)
    if not m:
        return None
    text = z3_unescape(m.group(1)).replace('""', '"')
    ids = sorted(set(re.findall(r"[A-Za-z_$][A-Za-z_$0-9]*", text)))
    # try with and without the identifiers being types: the script itself is deterministic for one choice
    return ORACLE % (text, ids if "TYPEID" in (detail or "") else [])


def attach(res):
    from pyvc import core
    for o in res.obs:
        if o.status == core.REFUTED and o.replay is None and "/CLexer." in o.name:
            o.replay = replay_from_detail(o.detail)
    return res
