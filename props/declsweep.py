"""Bounded native sweeps over declarations (never counted as proof).

C03 `declarator-independence`: a declaration with several declarators means the same as the sequence of declarations with one
declarator each (C99 6.7p... the specifiers apply to every declarator separately): for a list of specifier texts -- among them
`_Atomic(T)` with pointer, array and function derivations inside T -- and all pairs / some triples of declarator shapes, every
declared entity must equal the entity of the single-declarator declaration, and two entities share no declarator node.

C11 `parameter-coordinates`: every parameter of a prototype, named or not, whatever its first specifier is, carries a coordinate
on its own line of the source (each parameter is laid out on a line of its own), in the right file, and so does the ParamList.

Both are the end-to-end reading of what the modular obligations prove per production under budgets; they exist because a
budget-cut production (`BOUNDED: run budget exhausted`) may never reach the one specifier shape that matters.
"""
import itertools
import time

from pyvc import core

SPECS = ["int", "const int", "unsigned long", "_Atomic(int)", "_Atomic(int *)", "const _Atomic(int *)", "_Atomic(int (*)(char))",
         "_Atomic(int[3])", "_Atomic(int (*)[2])", "_Atomic(int) volatile", "T", "struct S"]
DECLS = ["a", "*b", "c[2]", "(*d)(void)", "*e[3]", "(*f)[2]", "* const g"]
CONTEXTS = [("file", "typedef int T; struct S { int m; };\n%s\n"), ("member", "typedef int T; struct S { int m; };\nstruct W {\n%s\n};\n"),
            ("block", "typedef int T; struct S { int m; };\nvoid fn(void) {\n%s\n}\n")]
PARAM_SPECS = ["int", "const int", "_Atomic(int)", "_Atomic(char) *", "struct S", "enum E *", "unsigned", "T", "_Atomic int", "volatile _Atomic(int)",
               "register int", "_Atomic(int) const", "long long", "_Atomic(int (*)(void))", "const T *", "_Atomic(T)", "_Atomic(int[2])"]
DECL_NODES = ("TypeDecl", "PtrDecl", "ArrayDecl", "FuncDecl", "Typename", "Decl", "ParamList")


def _strip(A, n):
    def val(v):
        if isinstance(v, A.Node):
            return _strip(A, v)
        if isinstance(v, list):
            return tuple(val(x) for x in v)
        return v
    return (type(n).__name__, tuple((s, val(getattr(n, s))) for s in n.attr_names), tuple(_strip(A, c) for _, c in n.children()))


def _nodes(A, n, acc):
    """The declarator SPINE of an entity: the Decl and the chain of derivations down to the TypeDecl that carries the name.  What
    hangs off the spine (the base type, a parameter list written inside `_Atomic(...)`) belongs to the specifiers and may be shared."""
    while n is not None and type(n).__name__ in DECL_NODES:
        acc.add(id(n))
        n = getattr(n, "type", None)
    return acc


def _entities(A, tree, ctx):
    if ctx == "file":
        return [d for d in tree.ext[2:]]
    if ctx == "member":
        return list(tree.ext[2].type.decls)
    return list(tree.ext[2].body.block_items)


def independence() -> core.Result:
    P = core.repo_import("pycparser.c_parser")
    A = core.repo_import("pycparser.c_ast")
    res = core.Result()
    t0 = time.time()
    bad = []
    n = 0
    combos = list(itertools.permutations(DECLS, 2)) + [tuple(DECLS[i:i + 3]) for i in range(len(DECLS) - 2)]
    for ctx, tmpl in CONTEXTS:
        for spec in SPECS:
            single = {}
            for d in DECLS:
                try:
                    single[d] = _strip(A, _entities(A, P.CParser().parse(tmpl % f"{spec} {d};", "d.c"), ctx)[0])
                except Exception:  # noqa
                    single[d] = None
            for combo in combos:
                if any(single[d] is None for d in combo):
                    continue
                src = tmpl % f"{spec} {', '.join(combo)};"
                n += 1
                try:
                    ents = _entities(A, P.CParser().parse(src, "d.c"), ctx)
                except Exception as e:  # noqa
                    bad.append((src, f"rejected although every single-declarator form is accepted: {type(e).__name__}: {e}"))
                    continue
                if len(ents) != len(combo):
                    bad.append((src, f"{len(ents)} entities for {len(combo)} declarators"))
                    continue
                for d, ent in zip(combo, ents):
                    if _strip(A, ent) != single[d]:
                        bad.append((src, f"the entity declared by `{d}` differs from the one `{spec} {d};` declares"))
                        break
                else:
                    sets = [_nodes(A, e, set()) for e in ents]
                    for i in range(len(sets)):
                        for j in range(i + 1, len(sets)):
                            if sets[i] & sets[j]:
                                bad.append((src, f"declarators {combo[i]!r} and {combo[j]!r} share {len(sets[i] & sets[j])} declarator node(s)"))
        if len(bad) > 8:
            break
    rep = None
    if bad:
        rep = ("from pycparser import c_parser\n" f"SRC = {bad[0][0]!r}\nprint(SRC)\nc_parser.CParser().parse(SRC).show(attrnames=True)\n"
               f"print({bad[0][1]!r})\nprint('REPRODUCED')\n")
    res.obs.append(core.Ob("C03/sweep/declarator-independence", core.REFUTED if bad else core.DISCHARGED, "enum", time.time() - t0,
                           (f"{bad[0][1]} ({len(bad)} failing declarations)\nsource: {bad[0][0]}" if bad else
                            f"{n} declarations with 2-3 declarators ({len(SPECS)} specifier lists x {len(CONTEXTS)} contexts) equal their single-declarator forms and share no declarator node"),
                           replay=rep, functions=["CParser._build_declarations", "ast_transforms.fix_atomic_specifiers"], bounded=True, sample=f"{n} declarations"))
    res.assumptions.append("declarator independence across all specifier shapes: BOUNDED native sweep (the modular obligation of the production is budget-cut)")
    return res


def parameter_coordinates() -> core.Result:
    P = core.repo_import("pycparser.c_parser")
    res = core.Result()
    t0 = time.time()
    bad = []
    n = 0
    head = "typedef int T;\n# 40 \"inc/p.h\" 1\nvoid f(\n"
    for s1, s2 in itertools.product(PARAM_SPECS, PARAM_SPECS[:6] + ["_Atomic(char) nm2"]):
        for named in (False, True):
            p1 = s1 + (" nm1" if named and not s1.endswith("]") else "")
            src = head + p1 + "\n,\n" + s2 + "\n);\n"
            n += 1
            try:
                t = P.CParser().parse(src, "p.c")
            except Exception as e:  # noqa
                continue
            pl = t.ext[1].type.args
            want = [41, 43]
            for k, prm in enumerate(pl.params):
                c = prm.coord
                if c is None or c.line != want[k] or c.file != "inc/p.h":
                    bad.append((src, f"parameter {k + 1} (`{[p1, s2][k]}`) has coordinate {c}; its tokens are on line {want[k]} of inc/p.h"))
            if pl.coord is None or pl.coord.line != 41 or pl.coord.file != "inc/p.h":
                bad.append((src, f"the ParamList has coordinate {pl.coord}; its first token is on line 41 of inc/p.h"))
    rep = None
    if bad:
        rep = ("from pycparser import c_parser\n" f"SRC = {bad[0][0]!r}\nprint(SRC)\nt = c_parser.CParser().parse(SRC, 'p.c')\n"
               "for p in t.ext[1].type.args.params: print(type(p).__name__, p.coord)\n" f"print({bad[0][1]!r})\nprint('REPRODUCED')\n")
    res.obs.append(core.Ob("C11/sweep/parameter-coordinates", core.REFUTED if bad else core.DISCHARGED, "enum", time.time() - t0,
                           (f"{bad[0][1]} ({len(bad)} failing cases)" if bad else
                            f"{n} prototypes: every parameter (named or not, {len(PARAM_SPECS)} leading specifier shapes) and the ParamList stand on their own line of the marked file"),
                           replay=rep, functions=["CParser._parse_declaration_specifiers", "CParser._parse_parameter_declaration"], bounded=True,
                           sample=f"{n} prototypes"))
    res.assumptions.append("first-specifier coordinate for every leading specifier shape: BOUNDED native sweep (the production of _parse_declaration_specifiers is budget-cut)")
    return res
