"""C16 -- parsing work grows linearly with input size; no backtracking blow-up."""
import time

from pyvc import core
from props import gxcommon as G


TIMING_SCRIPT = r'''
import sys, time
sys.path.insert(0, sys.argv[1])
from pycparser.c_lexer import CLexer
FAMS = {
    "escape-run-in-string": lambda n: '"' + "\\x41" * n + '";',
    "escape-run-unterminated-string": lambda n: '"' + "\\123" * n,
    "digit-run": lambda n: "1" * n + "z",
    "float-digits-no-exponent": lambda n: "0." + "1" * n + "e",
    "unterminated-char": lambda n: "'" + "\\\\" * n,
    "bad-escape-run": lambda n: '"' + "\\%" * n + '"',
    "identifier-run": lambda n: "a" * n + "$" * n,
    "octal-run": lambda n: "0" + "7" * n + "9",
    "decimal-escapes-with-8-9-closed-char": lambda n: "'" + "\\18" * n + "'",
    "decimal-escapes-with-8-9-unterminated": lambda n: "'" + "\\189" * n,
    "hex-escapes-closed-char": lambda n: "'" + "\\x1f" * n + "'",
    "hex-then-nonhex-escapes-in-string": lambda n: '"' + "\\x1g" * n + '"',
    "octal-escapes-closed-char": lambda n: "'" + "\\17" * n + "'",
    "x-escapes-without-digits": lambda n: "'" + "\\x" * n + "'",
    "mixed-escapes-wide-char": lambda n: "L'" + "\\1\\x2\\n" * n + "'",
}
f = FAMS[sys.argv[2]]
def lex_time(text):
    lx = CLexer(lambda m, a, b: None, lambda: None, lambda: None, lambda n: False)
    best = 1e9
    for _ in range(3):
        lx.input(text)
        t0 = time.perf_counter(); k = 0
        while lx.token() is not None and k < 10 * len(text) + 10: k += 1
        best = min(best, time.perf_counter() - t0)
    return best
n = 6
pts = []
while n <= 200000:
    t = lex_time(f(n)); pts.append((n, t)); print(n, t, flush=True)
    if t > 0.05 and len(pts) >= 3: break
    n *= 2
'''
TIMING_FAMILIES = ["escape-run-in-string", "escape-run-unterminated-string", "digit-run", "float-digits-no-exponent", "unterminated-char",
                   "bad-escape-run", "identifier-run", "octal-run", "decimal-escapes-with-8-9-closed-char",
                   "decimal-escapes-with-8-9-unterminated", "hex-escapes-closed-char", "hex-then-nonhex-escapes-in-string",
                   "octal-escapes-closed-char", "x-escapes-without-digits", "mixed-escapes-wide-char"]


def _time_family(name):
    import subprocess
    try:
        p = subprocess.run([core.REPLAY_PY, "-c", TIMING_SCRIPT, core.REPO, name], capture_output=True, text=True, timeout=25)
        pts = [(int(a), float(b)) for a, b in (l.split() for l in p.stdout.splitlines() if l.strip())]
        return name, pts, None if p.returncode == 0 else p.stderr[-200:]
    except subprocess.TimeoutExpired as e:
        out = e.stdout.decode() if isinstance(e.stdout, bytes) else (e.stdout or "")
        pts = [(int(a), float(b)) for a, b in (l.split() for l in out.splitlines() if l.strip())]
        return name, pts, "TIMEOUT"


def regex_timing(tier) -> core.Result:
    """BOUNDED stand-in for the assumed cost contract of `re` (no contract can be attached to sre): the adversarial literal
    families named by the property, each in its own process under a time limit, at doubling sizes starting from 6 repetitions
    (so that an exponential blow-up shows as a time-out on a short input instead of hanging the check)."""
    import multiprocessing as mp

    res = core.Result()
    with mp.get_context("fork").Pool(8) as pool:
        rows = pool.map(_time_family, TIMING_FAMILIES)
    for name, pts, err in rows:
        bad, why = False, ""
        if err == "TIMEOUT":
            last = pts[-1] if pts else (0, 0)
            bad, why = True, f"timed out (25 s) after n={last[0]} repetitions took {last[1]:.3f} s: super-polynomial on a short input"
        elif err:
            why = "timing script failed: " + err
        else:
            big = [(n, t) for n, t in pts if t > 0.004]
            ratios = [big[i + 1][1] / big[i][1] for i in range(len(big) - 1)]
            # super-linear only if two consecutive doublings both cost clearly more than double
            bad = any(ratios[i] > 3.3 and ratios[i + 1] > 3.3 for i in range(len(ratios) - 1)) or any(t > 5.0 and n < 2000 for n, t in pts)
            why = "sizes/times " + ", ".join(f"{n}:{t * 1e3:.1f}ms" for n, t in pts[-4:])
        rep = ("import subprocess, sys\n"
               f"print('family {name}: see TIMING_SCRIPT in /verif/props/C16.py'); print('NOT-REPRODUCED')\n")
        st = core.REFUTED if bad else (core.UNDECIDED if err and err != "TIMEOUT" else core.DISCHARGED)
        res.obs.append(core.Ob(f"C16/timing/lexer-regex/{name}", st, "timing", 0.0, why, replay=rep if bad else None,
                               functions=["c_lexer._regex_rules"], bounded=True, sample=name))
    res.assumptions.append("cost of one `re` match is linear in the text it inspects for the 24 rules: ASSUMED; the timing family is a bounded stand-in")
    return res


def run(tier, seed):
    from pyvc.smt_props import run_functions
    import contracts.tokenstream as TS
    import contracts.lexer as LX

    # speculation never throws away unbounded work (a callee's construct, or a scan that grows with the construct)
    res = G.gx(None, ["cost", "rescan"], "C16/gx", tier)
    # each token is lexed once however often the parser backtracks; the lexer loop makes progress on every iteration
    res.add(run_functions(TS.FUNCTIONS + ["CLexer.token#progress"] + LX.PROGRESS_VARIANTS, "C16/smt", tier))
    res.add(regex_timing(tier))
    res.assumptions.append("cost model: Python-level call events inside c_parser/c_lexer; loops that only walk attribute chains "
                           "(_type_modify_decl tail walks) cost 0 in this model")
    return res
