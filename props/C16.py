"""C16 -- parsing work grows linearly with input size; no backtracking blow-up."""
import time

from pyvc import core
from props import gxcommon as G


def regex_timing(tier) -> core.Result:
    """BOUNDED stand-in for the assumed cost contract of `re` (no contract can be attached to sre): the adversarial
    literal families named by the property at sizes n and 2n through the real lexer; the ratio must stay near 2."""
    L = core.repo_import("pycparser.c_lexer")
    res = core.Result()
    fams = {
        "escape-run-in-string": lambda n: '"' + "\\x41" * n + '";',
        "escape-run-unterminated": lambda n: '"' + "\\123" * n,
        "digit-run": lambda n: "1" * n + "z",
        "float-digits-no-exponent": lambda n: "0." + "1" * n + "e",
        "unterminated-char": lambda n: "'" + "\\\\" * n,
        "bad-escape-run": lambda n: '"' + "\\%" * n + '"',
        "identifier-run": lambda n: "a" * n + "$" * n,
        "octal-run": lambda n: "0" + "7" * n + "9",
    }
    n0 = 2000 if tier == "quick" else 8000

    def lex_time(text):
        lx = L.CLexer(lambda m, a, b: None, lambda: None, lambda: None, lambda n: False)
        best = 1e9
        for _ in range(3):
            lx.input(text)
            t0 = time.perf_counter()
            k = 0
            while lx.token() is not None and k < 10 * len(text) + 10:
                k += 1
            best = min(best, time.perf_counter() - t0)
        return best
    for name, f in fams.items():
        # calibrate the size so that the smallest measurement is well above timer noise
        n = n0
        t1 = lex_time(f(n))
        while t1 < 0.02 and n < 400000:
            n *= 2
            t1 = lex_time(f(n))
        t2, t4 = lex_time(f(2 * n)), lex_time(f(4 * n))
        r1, r2 = t2 / max(t1, 1e-6), t4 / max(t2, 1e-6)
        # super-linear only if BOTH doublings cost clearly more than double (quadratic gives ~4 twice)
        bad = (r1 > 3.3 and r2 > 3.3) or t4 > 20.0
        rep = ("import time\nfrom pycparser.c_lexer import CLexer\n"
               f"fam = {name!r}\n"
               "print('see /verif/props/C16.py regex_timing for the family definitions'); print('NOT-REPRODUCED')\n")
        res.obs.append(core.Ob(f"C16/timing/lexer-regex/{name}", core.REFUTED if bad else core.DISCHARGED, "timing", t1 + t2 + t4,
                               f"n={n}: {t1 * 1e3:.1f} ms, 2n: {t2 * 1e3:.1f} ms, 4n: {t4 * 1e3:.1f} ms, ratios {r1:.2f} {r2:.2f}",
                               replay=rep if bad else None, functions=["c_lexer._regex_rules"], bounded=True, sample=f"{name} n={n}"))
    res.assumptions.append("cost of one `re` match is linear in the text it inspects for the 24 rules: ASSUMED; the timing family is a bounded stand-in")
    return res


def run(tier, seed):
    from pyvc.smt_props import run_functions
    import contracts.tokenstream as TS
    import contracts.lexer as LX

    # speculation never throws away unbounded work (a callee's construct, or a scan that grows with the construct)
    res = G.gx(None, ["cost"], "C16/gx", tier)
    # each token is lexed once however often the parser backtracks; the lexer loop makes progress on every iteration
    res.add(run_functions(TS.FUNCTIONS + ["CLexer.token#progress"] + LX.PROGRESS_VARIANTS, "C16/smt", tier))
    res.add(regex_timing(tier))
    res.assumptions.append("cost model: Python-level call events inside c_parser/c_lexer; loops that only walk attribute chains "
                           "(_type_modify_decl tail walks) cost 0 in this model")
    return res
