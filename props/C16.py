"""C16 -- parsing work grows linearly with input size; no backtracking blow-up."""
import time

from pyvc import core
from props import gxcommon as G


TIMING_SCRIPT = r'''
import sys, time
sys.path.insert(0, sys.argv[1])
from pycparser.c_lexer import CLexer
FAMS = {
    "escape-run-in-string": lambda n: '"' + "\\x41" * n + '";',
    "escape-run-unterminated-string": lambda n: '"' + "\\123" * n,
    "digit-run": lambda n: "1" * n + "z",
    "float-digits-no-exponent": lambda n: "0." + "1" * n + "e",
    "unterminated-char": lambda n: "'" + "\\\\" * n,
    "bad-escape-run": lambda n: '"' + "\\%" * n + '"',
    "identifier-run": lambda n: "a" * n + "$" * n,
    "octal-run": lambda n: "0" + "7" * n + "9",
    "decimal-escapes-with-8-9-closed-char": lambda n: "'" + "\\18" * n + "'",
    "decimal-escapes-with-8-9-unterminated": lambda n: "'" + "\\189" * n,
    "hex-escapes-closed-char": lambda n: "'" + "\\x1f" * n + "'",
    "hex-then-nonhex-escapes-in-string": lambda n: '"' + "\\x1g" * n + '"',
    "octal-escapes-closed-char": lambda n: "'" + "\\17" * n + "'",
    "x-escapes-without-digits": lambda n: "'" + "\\x" * n + "'",
    "mixed-escapes-wide-char": lambda n: "L'" + "\\1\\x2\\n" * n + "'",
    # directive sub-scanners (their own regexes / loops)
    "line-directive-unterminated-filename": lambda n: '#line 1 "' + "a" * n,
    "line-directive-filename-backslashes-unterminated": lambda n: '# 1 "' + "a\\\\" * n,
    "line-directive-filename-escapes-closed": lambda n: '# 1 "' + "\\a" * n + '" 1 2\nx',
    "line-directive-digit-run": lambda n: "#line " + "1" * n + "x\n",
    "line-directive-flag-run": lambda n: '# 1 "f" ' + "1 " * n + "x\n",
    "pragma-long-line": lambda n: "#pragma " + "x " * n,
    "pragma-blank-run": lambda n: "#pragma" + " \t" * n + "\n" + "# " * n,
}
f = FAMS[sys.argv[2]]
import resource
def lex_time(text, reps):
    lx = CLexer(lambda m, a, b: None, lambda: None, lambda: None, lambda n: False)
    best = 1e9
    for _ in range(reps):
        lx.input(text)
        t0 = time.process_time(); k = 0
        while lx.token() is not None and k < 10 * len(text) + 10: k += 1
        best = min(best, time.process_time() - t0)
    return best
# CPU-time budget per size (RLIMIT_CPU: enforced by the kernel even inside the regex engine, and independent of how busy the
# machine is): a polynomial of degree <= 2 costs at most ~4x the previous size and sre's one-off strategy switch up to ~200x
# at millisecond scale; allow 100x (+30 s of CPU, single run) before calling it a blow-up
n = 6
pts = []
last = 0.0
hard = resource.getrlimit(resource.RLIMIT_CPU)[1]
while n <= 200000:
    reps = 1
    budget = 30.0 + 100.0 * last
    used = time.process_time()
    lim = int(used + budget) + 1
    resource.setrlimit(resource.RLIMIT_CPU, (lim, hard if hard == resource.RLIM_INFINITY or hard > lim else lim))
    print("SIZE", n, "budget", round(budget, 1), flush=True)
    t = lex_time(f(n), reps); pts.append((n, t)); print(n, t, flush=True)
    # one more doubling after the first size above 0.4 s of CPU (an exponential family does not survive it); only the kernel
    # CPU limit gives a verdict, ratios are not used
    if last > 0.4: break
    last = t
    n *= 2
'''
WORK_SCRIPT = 'import sys, time\nsys.path.insert(0, sys.argv[1] if len(sys.argv)>1 else \'/repo\')\nsys.setrecursionlimit(100000)\nfrom pycparser import c_parser\nFAMS = {\n "nested-switch": lambda n: "void f(void){" + "switch(x){case 1:"*n + ";" + "}"*n + "}",\n "many-cases": lambda n: "void f(void){switch(x){" + "case 1: a; b; case 2: "*n + ";}}",\n "nested-blocks": lambda n: "void f(void){" + "{"*n + ";" + "}"*n + "}",\n "nested-parens": lambda n: "int x = " + "("*n + "1" + ")"*n + ";",\n "binary-chain": lambda n: "int x = 1" + " + 2 * 3"*n + ";",\n "nested-ternary": lambda n: "int x = " + "a ? b : "*n + "c;",\n "nested-struct": lambda n: "struct S {" * n + "int x;" + "} m;"*n ,\n "nested-struct-two-declarators": lambda n: "struct { " * n + "int x;" + " } a, b;" * n,\n "nested-union-members": lambda n: "union U { " * n + "int x; char y;" + " } m, *p;" * n,\n "struct-member-list": lambda n: "struct S { " + "".join(f"int a{i}, *b{i}, c{i}[2]; " for i in range(n)) + "};",\n "nested-init": lambda n: "int a[] = " + "{"*n + "1" + "}"*n + ";",\n "many-decls": lambda n: "".join(f"int a{i}, *b{i}, c{i}[3];" for i in range(n)),\n "nested-calls": lambda n: "int x = " + "f("*n + "1" + ")"*n + ";",\n "nested-if": lambda n: "void f(void){" + "if (a) "*n + ";}",\n "nested-casts": lambda n: "int x = " + "(int)"*n + "1;",\n "nested-sizeof": lambda n: "int x = " + "sizeof "*n + "1;",\n "postfix-chain": lambda n: "int x = a" + "[1].m->n(2)"*n + ";",\n "pointer-chain": lambda n: "int " + "* const "*n + "p;",\n "array-dims": lambda n: "int a" + "[2]"*n + ";",\n "param-list": lambda n: "void f(" + "".join(f"int a{i}, " for i in range(n)) + "int z);",\n "enum-list": lambda n: "enum E {" + "".join(f"A{i} = 1, " for i in range(n)) + "Z};",\n "string-concat": lambda n: "char *s = " + \'"a" \'*n + ";",\n "typedef-chain": lambda n: "typedef int T0;" + "".join(f"typedef T{i} T{i+1};" for i in range(n)),\n "label-chain": lambda n: "void f(void){" + "".join(f"L{i}: " for i in range(n)) + ";}",\n "compound-nesting": lambda n: "void f(void){" + "while (1) { if (x) { "*n + ";" + "} }"*n + "}",\n}\ndef count(text):\n    c=[0]\n    def prof(frame, ev, arg):\n        if ev=="call": c[0]+=1\n    p=c_parser.CParser()\n    sys.setprofile(prof)\n    try:\n        p.parse(text)\n    finally:\n        sys.setprofile(None)\n    return c[0]\nFAMS.update({\n "error-nested-typenames": lambda n: "int x = " + "(int[" * n + "int" + "])0" * n + ";",\n "error-unclosed-parens": lambda n: "int x = " + "(" * n + "1;",\n "error-deep-in-blocks": lambda n: "void f(void){" + "{" * n + "int @;" + "}" * n + "}",\n "error-after-casts": lambda n: "int x = " + "(int)" * n + ";",\n})\ndef count_any(text):\n    try:\n        return count(text)\n    except c_parser.ParseError:\n        return count.last\n_orig_count = count\ndef count(text):\n    c=[0]\n    def prof(frame, ev, arg):\n        if ev=="call": c[0]+=1\n    p=c_parser.CParser()\n    sys.setprofile(prof)\n    try:\n        p.parse(text)\n    except c_parser.ParseError:\n        pass\n    finally:\n        sys.setprofile(None)\n    return c[0]\nnames = sys.argv[2:] or list(FAMS)\nfor nm in names:\n    f=FAMS[nm]; pts=[]\n    for n in (20,40,80,160):\n        try: pts.append(count(f(n)))\n        except Exception as e: pts.append(-1); print("#", nm, n, type(e).__name__, str(e)[:60])\n    print(nm, *pts)\n'
WORK_FAMILIES = ["nested-switch", "many-cases", "nested-blocks", "nested-parens", "binary-chain", "nested-ternary", "nested-struct",
                 "nested-struct-two-declarators", "nested-union-members", "struct-member-list",
                 "nested-init", "many-decls", "nested-calls", "nested-if", "nested-casts", "nested-sizeof", "postfix-chain", "pointer-chain",
                 "array-dims", "param-list", "enum-list", "string-concat", "typedef-chain", "label-chain", "compound-nesting",
                 "error-nested-typenames", "error-unclosed-parens", "error-deep-in-blocks", "error-after-casts"]


def _work_family(fam):
    import subprocess
    pre = "import resource\nresource.setrlimit(resource.RLIMIT_CPU, (150, 160))\n"
    try:
        p = subprocess.run([core.REPLAY_PY, "-c", pre + WORK_SCRIPT, core.REPO, fam], capture_output=True, text=True, timeout=900)
    except subprocess.TimeoutExpired:
        return fam, None, "WALL"
    for l in p.stdout.splitlines():
        w = l.split()
        if len(w) == 5 and w[0] == fam:
            return fam, [int(x) for x in w[1:]], None
    if p.returncode in (-24, -9, 152, 137):
        return fam, None, "TIMEOUT"
    return fam, None, "failed: " + (p.stderr or "")[-200:]


def work_scaling(tier) -> core.Result:
    """BOUNDED stand-in for the parts of the pipeline that are under no cost contract (ast_transforms, error paths): the number
    of Python calls made by CParser.parse -- a deterministic count, no timing -- on input families at sizes 20/40/80/160
    must at most double (+ slack) when the size doubles."""
    import multiprocessing as mp

    res = core.Result()
    with mp.get_context("fork").Pool(8) as pool:
        outs = pool.map(_work_family, WORK_FAMILIES)
    rows, errs = {}, {}
    for fam, pts, err in outs:
        if pts is not None:
            rows[fam] = pts
        errs[fam] = err
    for fam in WORK_FAMILIES:
        name = f"C16/work/{fam}"
        pts = rows.get(fam)
        rep = ("import subprocess, sys, os\n" f"SCRIPT = {WORK_SCRIPT!r}\n"
               "pre = 'import resource\\nresource.setrlimit(resource.RLIMIT_CPU, (100, 110))\\n'\n"
               f"p = subprocess.run([sys.executable, '-c', pre + SCRIPT, os.environ.get('VERIF_REPO', {core.REPO!r}), {fam!r}], capture_output=True, text=True)\n"
               "print(p.stdout)\nv = [int(x) for x in p.stdout.split()[-4:]] if p.returncode == 0 else []\n"
               "print('REPRODUCED' if p.returncode != 0 or min(v) < 0 or (v[2] > 2.08 * v[1] and v[3] > 2.15 * v[2]) else 'NOT-REPRODUCED')\n")
        err = errs.get(fam) or ""
        if pts is None:
            st, why = (core.REFUTED, "the parser did not finish sizes 20/40/80/160 of this family within 150 s of CPU (work grows much faster than the input)") \
                if err == "TIMEOUT" else (core.UNDECIDED, "no measurement: " + err[-200:])
        elif min(pts) < 0:
            st, why = core.REFUTED, f"an exception other than ParseError (RecursionError?) on sizes 20/40/80/160: call counts {pts}"
        else:
            r = [pts[i + 1] / max(1, pts[i]) for i in range(3)]
            # the counts are deterministic; a linear family approaches 2.0 from below, any quadratic component pushes the
            # later ratios above 2 and growing
            bad = r[1] > 2.08 and r[2] > 2.15
            st, why = (core.REFUTED if bad else core.DISCHARGED), f"calls at sizes 20/40/80/160: {pts}; doubling ratios {[round(x, 2) for x in r]}"
        res.obs.append(core.Ob(name, st, "count", 0.0, why, replay=rep if st == core.REFUTED else None,
                               functions=["CParser.parse", "ast_transforms.fix_switch_cases"], bounded=True, sample=fam))
    res.assumptions.append("work-count families: call counts of CParser.parse at four sizes per family (bounded stand-in for cost contracts on ast_transforms and on error paths)")
    return res


TIMING_FAMILIES = ["escape-run-in-string", "escape-run-unterminated-string", "digit-run", "float-digits-no-exponent", "unterminated-char",
                   "bad-escape-run", "identifier-run", "octal-run", "decimal-escapes-with-8-9-closed-char",
                   "decimal-escapes-with-8-9-unterminated", "hex-escapes-closed-char", "hex-then-nonhex-escapes-in-string",
                   "octal-escapes-closed-char", "x-escapes-without-digits", "mixed-escapes-wide-char",
                   "line-directive-unterminated-filename", "line-directive-filename-backslashes-unterminated",
                   "line-directive-filename-escapes-closed", "line-directive-digit-run", "line-directive-flag-run", "pragma-long-line",
                   "pragma-blank-run"]


def _parse_points(out):
    pts, size = [], None
    for l in out.splitlines():
        w = l.split()
        if len(w) == 4 and w[0] == "SIZE":
            size = (int(w[1]), float(w[3]))
        elif len(w) == 2:
            try:
                pts.append((int(w[0]), float(w[1])))
            except ValueError:
                pass
    return pts, size


def _time_family(name):
    """Returns (name, points, verdict): verdict None (finished), 'CPU-LIMIT' (the kernel stopped the process because one size
    used more than 100x (+30 s) the CPU time of the previous size), 'WALL' (safety net: no verdict) or an error text."""
    import subprocess
    try:
        p = subprocess.run([core.REPLAY_PY, "-c", TIMING_SCRIPT, core.REPO, name], capture_output=True, text=True, timeout=600)
        pts, size = _parse_points(p.stdout)
        if p.returncode == 0:
            return name, pts, None
        if p.returncode in (-24, -9, 152, 137) and size is not None:   # SIGXCPU (or SIGKILL at the hard limit)
            return name, pts + [(size[0], float("inf"))], f"CPU-LIMIT at n={size[0]} (budget {size[1]} s of CPU)"
        return name, pts, "failed: " + p.stderr[-200:]
    except subprocess.TimeoutExpired as e:
        out = e.stdout.decode() if isinstance(e.stdout, bytes) else (e.stdout or "")
        return name, _parse_points(out)[0], "WALL"


def regex_timing(tier) -> core.Result:
    """BOUNDED stand-in for the assumed cost contract of `re` (no contract can be attached to sre): the adversarial literal
    families named by the property, each in its own process under a time limit, at doubling sizes starting from 6 repetitions
    (so that an exponential blow-up shows as a time-out on a short input instead of hanging the check)."""
    import multiprocessing as mp

    res = core.Result()
    with mp.get_context("fork").Pool(8) as pool:
        rows = pool.map(_time_family, TIMING_FAMILIES)
    for name, pts, err in rows:
        bad, why = False, ""
        if err and err.startswith("CPU-LIMIT"):
            fin = [q for q in pts if q[1] != float("inf")]
            last = fin[-1] if fin else (0, 0)
            bad, why = True, f"{err}: the previous size n={last[0]} took {last[1]:.3f} s of CPU; more than 100x (+30 s of CPU) for one doubling: exponential backtracking"
        elif err:
            why = "no timing verdict: " + err
        else:
            big = [(n, t) for n, t in pts if t > 0.004]
            ratios = [big[i + 1][1] / big[i][1] for i in range(len(big) - 1)]
            # super-linear only if two consecutive doublings both cost clearly more than double
            # CPU time (not wall time: the machine may be busy), best of three; super-linear = two consecutive doublings that
            # each cost more than 3.3x AND end above 0.3 s of CPU (below that, allocator / cache effects dominate)
            # No verdict from ratios: on a busy machine CPU-time ratios of 5x between doublings were observed on linear
            # families (and sre shows a one-off ~100x step when its input outgrows a fast path).  Only the kernel-enforced CPU
            # limit -- a doubling that costs more than 100x plus 30 s of CPU -- is taken as a blow-up (exponential backtracking).
            bad = False
            why = "sizes/times " + ", ".join(f"{n}:{t * 1e3:.1f}ms" for n, t in pts[-4:])
        rep = ("import subprocess, sys, os\n"
               f"SCRIPT = {TIMING_SCRIPT!r}\n"
               f"repo = os.environ.get('VERIF_REPO', {core.REPO!r})\n"
               f"p = subprocess.run([sys.executable, '-c', SCRIPT, repo, {name!r}], capture_output=True, text=True, timeout=900)\n"
               "print(p.stdout[-600:])\n"
               "pts = [l.split() for l in p.stdout.splitlines() if len(l.split()) == 2 and l.split()[0].isdigit()]\n"
               "killed = p.returncode in (-24, -9, 152, 137)\n"
               "big = [(int(n), float(t)) for n, t in pts if float(t) > 0.004]\n"
               "r = [big[i + 1][1] / big[i][1] for i in range(len(big) - 1)]\n"
               "slow = killed\n"
               "print('stopped by the CPU limit (one doubling cost more than 100x + 30 s of CPU):', killed)\n"
               "print('REPRODUCED' if slow else 'NOT-REPRODUCED')\n")
        st = core.REFUTED if bad else (core.UNDECIDED if err and not err.startswith("CPU-LIMIT") else core.DISCHARGED)
        res.obs.append(core.Ob(f"C16/timing/lexer-regex/{name}", st, "timing", 0.0, why, replay=rep if bad else None,
                               functions=["c_lexer._regex_rules" if "directive" not in name and "pragma" not in name else ("CLexer._handle_ppline" if "line" in name else "CLexer._handle_pppragma")], bounded=True, sample=name))
    res.assumptions.append("cost of one `re` match is linear in the text it inspects for the 24 rules: ASSUMED; the timing family is a bounded stand-in")
    return res


def run(tier, seed):
    from pyvc.smt_props import run_functions
    import contracts.tokenstream as TS
    import contracts.lexer as LX

    # speculation never throws away unbounded work (a callee's construct, or a scan that grows with the construct)
    res = G.gx(None, ["cost", "rescan"], "C16/gx", tier)
    # each token is lexed once however often the parser backtracks; the lexer loop makes progress on every iteration
    res.add(run_functions(TS.FUNCTIONS + ["CLexer.token#progress"] + LX.PROGRESS_VARIANTS, "C16/smt", tier))
    res.add(regex_timing(tier))
    # polynomial (not exponential) regex backtracking is invisible to the CPU-limit timing family: static shape check
    from props import rxambig
    res.add(rxambig.obligations())
    res.add(work_scaling(tier))
    # a handler that catches ParseError and tries again makes error paths exponential in the nesting depth: the error
    # channel is never intercepted
    from props import tables
    res.add(tables.error_channel_obligations("C16"))
    res.assumptions.append("cost model: Python-level call events inside c_parser/c_lexer; loops that only walk attribute chains "
                           "(_type_modify_decl tail walks) cost 0 in this model")
    return res
