"""The two patterns CLexer.token() uses to decide what follows a '#': `_pragma_pattern` and `_line_pattern` (c_lexer.py).

They are matched against the text after '#'.  Obligations, decided for ALL strings by the RX engine (sre -> z3 regular
expressions, derivative procedure as second opinion; the witness is re-validated with the real `re`):

  keyword-boundary   whatever the pattern matches is   blanks* KEYWORD c   with c not an ASCII identifier character
                     (resp. blanks* digits for the linemarker form): an identifier that merely STARTS with the keyword
                     (#pragmatic, #linear) is never taken for the directive (C18: other directives are rejected)
  recognised         blanks* KEYWORD blank  (resp. blanks* digit+) is matched: the directive forms are recognised (C09)
"""
import re
import time

from pyvc import core, rx

BL = rx.cs_norm([(32, 32), (9, 9)])
WORD = rx.cs_norm([(ord("0"), ord("9")), (ord("A"), ord("Z")), (ord("a"), ord("z")), (ord("_"), ord("_"))])
DIG = rx.cs_norm([(ord("0"), ord("9"))])
NONWORD = rx.cs_minus(rx.cs_norm([(0, rx.MAXCH)]), WORD)

def _nd():
    import unicodedata
    rs = [(c, c) for c in range(0x80, rx.MAXCH + 1) if unicodedata.category(chr(c)) == "Nd"]
    return rx.cs_norm(rs)


REPLAY = '''from pycparser.c_lexer import CLexer
TEXT = %r
errs = []
lx = CLexer(lambda m, l, c: errs.append(m), lambda: None, lambda: None, lambda n: False)
lx.input(TEXT, "d.c")
toks = []
while True:
    t = lx.token()
    if t is None:
        break
    toks.append((t.type, t.value))
print(repr(TEXT), "->", toks, errs)
# %s
bad = %s
print("REPRODUCED" if bad else "NOT-REPRODUCED")
'''


def obligations(prefix: str) -> core.Result:
    L = core.repo_import("pycparser.c_lexer")
    res = core.Result()
    t0 = time.time()
    blanks = rx.star(rx.cls(BL))
    specs = {
        "_pragma_pattern": dict(
            upper=rx.cat(blanks, rx.lit("pragma"), rx.cls(NONWORD)),
            lower=rx.cat(blanks, rx.lit("pragma"), rx.cls(BL)),
            probe=lambda w: "#" + w + "tic x\n", bad="any(t[0] == 'PPPRAGMA' for t in toks)",
            what="an identifier that only starts with `pragma` must not be lexed as a #pragma directive"),
        "_line_pattern": dict(
            # (digits in the sense of `\\d`: a non-ASCII decimal digit is taken for a linemarker and then rejected by
            # _handle_ppline as an invalid #line directive -- rejected either way, so it is allowed here)
            upper=rx.alt(rx.cat(blanks, rx.lit("line"), rx.cls(NONWORD)), rx.cat(blanks, rx.plus(rx.cls(rx.cs_union(DIG, _nd()))))),
            lower=rx.alt(rx.cat(blanks, rx.lit("line"), rx.cls(BL)), rx.cat(blanks, rx.plus(rx.cls(DIG)))),
            probe=lambda w: "#" + w + "ar 3\nint x;\n", bad="not errs or not any('Directives not supported' in e for e in errs)",
            what="`#linear ...` is not a #line directive: it must be reported as an unsupported directive"),
    }
    for name, sp in specs.items():
        pat = getattr(L, name, None)
        fn = ["c_lexer." + name]
        if pat is None:
            res.obs.append(core.Ob(f"{prefix}/directive/{name}/bind", core.UNDECIDED, "RX", 0.0, f"c_lexer.{name} not found", functions=fn))
            continue
        src = pat.pattern if hasattr(pat, "pattern") else pat
        try:
            full = rx.Translator(src).full()
        except rx.Untranslatable as e:
            res.obs.append(core.Ob(f"{prefix}/directive/{name}/keyword-boundary", core.UNDECIDED, "RX", 0.0, f"pattern not translatable: {e}", functions=fn))
            continue
        for kind, lits in (("keyword-boundary", [(full, True), (sp["upper"], False)]),
                           ("recognised", [(sp["lower"], True), (full, False)])):
            r = rx.solve(lits, 20000)
            oname = f"{prefix}/directive/{name}/{kind}"
            if r["status"] == "unsat":
                res.obs.append(core.Ob(oname, core.DISCHARGED, "RX/" + (r.get("by") or "z3"), r["time_s"],
                                       f"for all strings ({'pattern <= specification' if kind == 'keyword-boundary' else 'specification <= pattern'}): {src!r}",
                                       functions=fn, sample=src))
            elif r["status"] == "sat":
                w = r["witness"]
                real = re.compile(src).fullmatch(w) is not None
                genuine = real if kind == "keyword-boundary" else not real
                if not genuine:
                    res.obs.append(core.Ob(oname, core.UNDECIDED, "RX", r["time_s"], f"model {w!r} not confirmed by the real `re`", functions=fn))
                    continue
                if kind == "keyword-boundary":
                    text = sp["probe"](w)
                    rep = REPLAY % (text, sp["what"], sp["bad"])
                    det = f"{src!r} matches {w!r} as a whole: {sp['what']}"
                else:
                    text = "#" + w + "\nint x;\n"
                    rep = REPLAY % (text, "a well-formed directive must be recognised", "bool(errs) and 'Directives not supported' in errs[0]")
                    det = f"{src!r} does not match the directive start {w!r}"
                res.obs.append(core.Ob(oname, core.REFUTED, "RX", r["time_s"], det, replay=rep, functions=fn, sample=w))
            else:
                res.obs.append(core.Ob(oname, core.UNDECIDED, "RX", r["time_s"], "solver: " + "; ".join(r["trail"][-3:]), functions=fn))
    res.solver_time_s = time.time() - t0
    res.trusted_base.append("directive patterns: translation sre -> z3 regular expressions (pyvc/rx.py), the real `re` re-validates every witness")
    return res
