"""C17, "parentheses influence grouping only": BOUNDED stand-in (never counted as proof).

For every expression node of a corpus of programs, the program is printed again by the real generator with ONE extra pair of
parentheses around that node, parsed by the real parser, and the tree must equal the original tree (coordinates aside).  This
is the end-to-end reading of the property for redundant parentheses; the modular obligations (term family of every expression
method) prove the same per production, but a look-ahead heuristic that spans several productions -- `( identifier ) (` taken
for a cast -- only shows when the real methods run together.
"""
import time

from pyvc import core

CORPUS = [
    "int g; void f(int a, int b, int *p, struct S *s) { g = a + b * 2 - (a << 1) % 3; f2(a, b); (*p)++; p[a] = s->m.n[1]; a = b ? a : b ? 1 : 2; }",
    "void f(int a, int (*fp)(int), char **v) { a = fp(a) + f3(a)(b); v[0][1] = (char)a; a = sizeof a + sizeof(int) + -a + !a + ~a + &a == 0; }",
    "void f(int a, int b) { if (a && b || !a) a = b, b = a; while (a--) b += a; for (a = 0; a < b; a++) b -= 1; return a ^ b | a & b; }",
    "int arr[3 + 4] = { 1, 2 * 3, [5] = 6 }; struct S { int bf : 2 + 1; } s = { .bf = 1 }; enum E { A = 1 << 2, B = A + 1 };",
    "void f(int x) { switch (x + 1) { case 1 + 1: x = x * x; break; default: x = -x; } do x++; while (x < 10); _Static_assert(1 + 1, \"m\"); }",
    "void f(struct S s, struct S *q) { s.a = q->b; q->c.d = s.e[1].f; g(s.a)(q->b); x = (y); h((x), (y)); k = a[b][c]; m = *p++ + ++*p; }",
    "typedef int T; void f(T t, int n) { T u = (T)n + (T)(n) + sizeof(T); u = (t) + (n); t = (int){1} + n; u = n * (T)t; }",
    # statements whose first token is a literal / a string / a prefix operator, directly after a label, `case`, `default`, `else`, `do`
    "void f(int x) { again: 1 + g(x); switch (x) { case 1: 2 * x; case 2: \"s\"[0]; default: 'c' + x; } L2: -x; L3: 1.5 + x; if (x) 3 + x; else 4 + x; do 5 * x; while (x); }",
]
SOURCE_TEMPLATES = ["void f(int x) { again: @ + g(x); }", "void f(int x) { switch (x) { case 1: @ * 2; default: @ - 1; } }", "void f(int x) { if (x) @ + 1; else @ + 2; }",
                    "void f(int x) { do @ + 1; while (x); while (x) @ + 1; for (;;) @ + 1; }", "void f(int x) { { @ + 1; } ; @ + 2; }", "void f(int x) { L1: L2: @ ? 1 : 2; }"]
EXPR = ("ID", "Constant", "BinaryOp", "UnaryOp", "TernaryOp", "Assignment", "FuncCall", "ArrayRef", "StructRef", "Cast")
SKIP_SLOTS = ("field", "message")          # member names and the _Static_assert message are not expressions


def _strip(A, n):
    def val(v):
        if isinstance(v, A.Node):
            return _strip(A, v)
        if isinstance(v, list):
            return tuple(val(x) for x in v)
        return v
    return (type(n).__name__, tuple((s, val(getattr(n, s))) for s in n.attr_names), tuple(_strip(A, c) for _, c in n.children()))


def obligations(tier) -> core.Result:
    P = core.repo_import("pycparser.c_parser")
    G = core.repo_import("pycparser.c_generator")
    A = core.repo_import("pycparser.c_ast")
    res = core.Result()
    t0 = time.time()
    bad = []
    n = 0
    for src in CORPUS:
        try:
            t1 = P.CParser().parse(src, "p.c")
        except P.ParseError as e:
            bad.append((src, "", f"corpus program rejected: {e}"))
            continue
        targets = []

        def walk(node, slot=None, parent=None):
            base = (slot or "").split("[")[0]
            if type(node).__name__ in EXPR and base not in SKIP_SLOTS and not (isinstance(parent, A.NamedInitializer) and base == "name"):
                targets.append(node)
            for nm, c in node.children():
                walk(c, nm, node)
        walk(t1)
        want = _strip(A, t1)
        for tgt in targets:
            class Gen(G.CGenerator):
                def visit(self, node, tgt=tgt):
                    s = super().visit(node)
                    return "(" + s + ")" if node is tgt else s
            n += 1
            try:
                text = Gen().visit(t1)
                t2 = P.CParser().parse(text, "p.c")
            except Exception as e:  # noqa
                bad.append((src, G.CGenerator().visit(tgt), f"{type(e).__name__}: {e}"))
                continue
            if _strip(A, t2) != want:
                bad.append((text, G.CGenerator().visit(tgt), "a redundant pair of parentheses around `%s` changes the tree" % G.CGenerator().visit(tgt)))
        if len(bad) > 8:
            break
    # the same at source level (the sweep above starts from a tree the parser has already built): a statement whose first operand
    # is written with and without parentheses, in every position where the parser must decide whether a statement follows
    for tmpl in SOURCE_TEMPLATES:
        for operand in ("1", "2.5", "'c'", "\"s\"[0]", "x", "-x", "sizeof x"):
            plain, paren = tmpl.replace("@", operand), tmpl.replace("@", "(" + operand + ")")
            n += 1
            try:
                ta, tb = P.CParser().parse(plain, "p.c"), P.CParser().parse(paren, "p.c")
            except Exception as e:  # noqa
                bad.append((plain, operand, f"{type(e).__name__}: {e}"))
                continue
            if _strip(A, ta) != _strip(A, tb):
                bad.append((paren, operand, f"`{plain}` and `{paren}` parse to different trees"))
    rep = None
    if bad:
        text, tg, why = bad[0]
        rep = ("from pycparser import c_parser, c_generator\n" f"SRC = {text!r}\nprint(SRC)\n"
               "t = c_parser.CParser().parse(SRC, 'p.c')\nt.show()\n"
               f"print({why!r})\nprint('REPRODUCED')\n")
    res.obs.append(core.Ob("C17/sweep/redundant-parentheses", core.REFUTED if bad else core.DISCHARGED, "enum", time.time() - t0,
                           (f"{bad[0][2]} ({len(bad)} failing variants)\nprogram: {bad[0][0][:300]}" if bad else
                            f"{n} single-node parenthesisations of {len(CORPUS)} programs parse to the original tree"),
                           replay=rep, functions=["CParser._parse_primary_expression", "CParser._parse_cast_expression", "CParser._try_parse_paren_type_name"],
                           bounded=True, sample=f"{n} variants"))
    res.assumptions.append("redundant-parentheses sweep: bounded native stand-in for the interplay of the cast / postfix / primary look-ahead")
    return res
