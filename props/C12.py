"""C12 -- a parser's result depends only on (text, filename), never on its history."""
from pyvc import core
from pyvc.smt_props import run_functions


def run(tier, seed):
    import contracts.parser_core as pc  # noqa
    import contracts.tokenstream as ts  # noqa

    res = run_functions(
        ["CParser.parse#prologue", "CParser.parse", "CLexer.input", "CLexer._init_state", "_TokenStream.__init__"],
        "C12/smt", tier)
    from pyvc import fx_obligations
    res.add(fx_obligations.c12_fx(tier))
    from props import dynconfirm
    dynconfirm.apply(res, "C12", "history", also_undecided=True)
    # results of different calls are independent: every node a parse method returns is built by that invocation (not a
    # module-level / class-level object, not a node handed out before)
    from props import gxcommon as G
    res.add(G.gx(None, ["fresh"], "C12/gx", tier))
    return res
