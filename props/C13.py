"""C13 -- separate parser/generator instances never influence each other (frame contracts + lemma L3)."""
from pyvc import fx_obligations


def run(tier, seed):
    res = fx_obligations.c13_fx(tier)
    from props import dynconfirm
    dynconfirm.apply(res, "C13", "shared")
    res.trusted_base.append("lemma L3 (spec/LEMMAS.md): disjoint footprints + immutable shared tables => every interleaving yields the sequential results")
    res.assumptions.append("CPython executes per-object operations of different threads without tearing (GIL); user-supplied lexer= classes honour the same frame")
    return res
