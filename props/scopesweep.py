"""C04, composition of lexer and parser: BOUNDED stand-in (never counted as proof).

The modular obligations of C04 (scope-stack functions by SMT, registration sets per production by GX) leave one thing to an
assumption: WHEN, relative to the lexer's one-token look-ahead and its brace callbacks, a name is entered and into WHICH open
scope.  That is a property of the real lexer and the real parser running together, so it is swept natively here: every
history of scope events over one name up to a length bound is rendered as a C program, after every event a probe statement
`N * p;` is inserted (a declaration iff N currently names a type), and the real parser's reading of the probe is compared with
a model of C block scoping (a stack of {name: is_typedef}).  Histories that would need a feature listed as a known finding
(an enumerator or label spelled like a visible typedef name) are not generated.
"""
import itertools
import time

from pyvc import core

N = "T"
# (name, text, effect) -- effect on the model: ("decl", is_typedef) into the current scope / "open" / "close" / "openfn" / None
EVENTS = [
    ("typedef", f"typedef int {N};", ("decl", True)),
    ("typedef-ptr", f"typedef char *{N};", ("decl", True)),
    ("object", f"int {N};", ("decl", False)),
    ("object-init", f"int {N} = 1;", ("decl", False)),
    ("function-decl", f"int {N}(void);", ("decl", False)),
    ("prototype-param", f"void g(int {N});", None),
    ("prototype-param-ptr", f"int (*h)(char, int {N});", None),
    ("member", f"struct S {{ int {N}; }};", None),
    ("tag", f"struct {N};", None),
    ("cast-type-param", f"int q = sizeof(int (*)(int {N}));", None),
    ("open-block", "{", "open"),
    ("close-block", "}", "close"),
    ("open-function-with-param", f"void f(int {N}) {{", "openfn-param"),
    ("open-function-unnamed-then-param", f"void f(int, int {N}) {{", "openfn-param"),   # C23: a parameter name may be omitted
    ("open-function", "void f(void) {", "openfn"),
    ("open-function-named-N", f"void {N}(void) {{", "openfn-named"),
    # definition with an implicit `int` return type (C89; a documented extension of the parser): the header starts with the name
    ("open-implicit-int-function-with-param", f"f(int {N}, int u) {{", "openfn-param"),
    # function definitions whose declarator is not `name ( parameters )` directly before the body: the parameters of the function
    # being defined are those of the declarator part nearest the name (C99 6.9.1p5), wherever the body's `{` stands
    ("open-function-parenthesised-with-param", f"void (f(int {N})) {{", "openfn-param"),
    ("open-function-returning-fnptr-with-param", f"int (*f(int {N}))(int u) {{", "openfn-param"),
    ("open-function-returning-fnptr-inner-param", f"int (*f(int u))(int {N}) {{", "openfn"),
    ("open-function-returning-arrayptr-with-param", f"int (*f(int {N}))[3] {{", "openfn-param"),
    # old-style definition: the parameter is an ordinary identifier of the BODY (declared by the declaration list before `{`)
    ("open-kr-function-with-param", f"int f({N}) int {N}; {{", "openfn-param"),
    ("enumerator", f"enum {{ {N} }};", ("decl", False)),
    ("for-decl", f"for (int {N} = 0; ; ) {{ }}", None),
]


def _lookup(stack):
    for sc in reversed(stack):
        if N in sc:
            return sc[N]
    return False


def histories(maxlen):
    """Yield (program texts with probe, expected is-type) for every valid event sequence."""
    names = [e[0] for e in EVENTS]
    for ln in range(1, maxlen + 1):
        for seq in itertools.product(range(len(EVENTS)), repeat=ln):
            stack = [dict()]
            kinds = ["file"]          # what opened each scope: file / block / fn
            text = []
            ok = True
            probes = []
            for step, ei in enumerate(seq):
                ename, etext, eff = EVENTS[ei]
                in_fn = "fn" in kinds
                if eff == "open":
                    if not in_fn:
                        ok = False
                        break
                    stack.append({})
                    kinds.append("block")
                elif eff == "close":
                    if len(stack) == 1:
                        ok = False
                        break
                    stack.pop()
                    kinds.pop()
                elif eff in ("openfn", "openfn-param", "openfn-named"):
                    if in_fn:
                        ok = False
                        break
                    if ename.startswith("open-kr-") and _lookup(stack):
                        ok = False   # known finding: a typedef name re-used as a K&R parameter name is rejected
                        break
                    if eff == "openfn-named":
                        # the function's own name is an ordinary identifier of the ENCLOSING (file) scope
                        if N in stack[-1]:
                            ok = False
                            break
                        stack[-1][N] = False
                    stack.append({N: False} if eff == "openfn-param" else {})
                    kinds.append("fn")
                elif ename in ("for-decl", "cast-type-param") and not in_fn and ename == "for-decl":
                    ok = False
                    break
                elif isinstance(eff, tuple):
                    cur = stack[-1]
                    if N in cur:
                        ok = False   # redeclaration in the same scope: not generated (mostly invalid C)
                        break
                    if ename == "enumerator" and _lookup(stack):
                        ok = False   # known finding: enumerator spelled like a visible typedef name is rejected
                        break
                    if ename == "function-decl" and in_fn and False:
                        ok = False
                        break
                    cur[N] = eff[1]
                elif ename in ("prototype-param", "prototype-param-ptr", "member", "cast-type-param", "for-decl"):
                    # a parameter / member / type-name parameter named N where N is a typedef: `int T` is then a declarator that
                    # re-declares the typedef name, which is fine and has no effect outside
                    pass
                text.append(etext)
                # probe here
                want = _lookup(stack)
                closing = "}" * (len(stack) - 1)
                if "fn" in kinds:
                    prog = "\n".join(text) + f"\n{N} * p;\n" + closing + "\n"
                    where = "inline"
                else:
                    prog = "\n".join(text) + f"\nvoid probe_(void) {{ {N} * p; }}\n"
                    where = "probe-fn"
                probes.append((prog, want, where, [names[i] for i in seq[: step + 1]]))
            if ok:
                for p in probes:
                    yield p


def obligations(tier) -> core.Result:
    P = core.repo_import("pycparser.c_parser")
    A = core.repo_import("pycparser.c_ast")
    res = core.Result()
    src = core.Source.get("pycparser/c_parser.py")
    for q in ("CParser._add_identifier", "CParser._add_typedef_name", "CParser._lex_on_lbrace_func", "CParser._lex_on_rbrace_func"):
        if src.has(q):
            res.functions.append(src.func(q))
    maxlen = 4 if tier == "quick" else 5
    t0 = time.time()
    seen = set()
    bad = []
    n = 0
    counts = {}

    def find_probe(node):
        """The statement / declaration that declares or mentions p: the last block item of the innermost open function."""
        found = []

        class V(A.NodeVisitor):
            def visit_Decl(self, d):
                if d.name == "p":
                    found.append(d)
                self.generic_visit(d)

            def visit_BinaryOp(self, b):
                if isinstance(b.right, A.ID) and b.right.name == "p" and b.op == "*":
                    found.append(b)
                self.generic_visit(b)
        V().visit(node)
        return found

    for prog, want, where, hist in histories(maxlen):
        if prog in seen:
            continue
        seen.add(prog)
        fam = ("with-for-declaration" if "for-decl" in hist else
               "with-kr-definition" if any(h.startswith("open-kr-") for h in hist) else
               "with-nested-function-declarator" if any(h.startswith(("open-function-parenthesised", "open-function-returning")) for h in hist) else "core")
        counts[fam] = counts.get(fam, 0) + 1
        if len([b_ for b_ in bad if b_[3] == fam]) >= 6:
            continue
        n += 1
        try:
            ast = P.CParser().parse(prog, "h.c")
        except P.ParseError as e:
            bad.append((prog, hist, f"valid program rejected: {e}", fam))
            continue
        except Exception as e:  # noqa
            bad.append((prog, hist, f"{type(e).__name__}: {e}", fam))
            continue
        f = find_probe(ast)
        got = None if not f else isinstance(f[-1], A.Decl)
        if got is None or got != want:
            bad.append((prog, hist, f"probe `{N} * p;` read as {'a declaration' if got else ('an expression' if got is not None else 'nothing recognisable')}; "
                                    f"C scoping says {N} {'names a type' if want else 'does not name a type'} there", fam))
    for fam in ("core", "with-for-declaration", "with-nested-function-declarator", "with-kr-definition"):
        _emit(res, fam, [b_ for b_ in bad if b_[3] == fam], counts.get(fam, 0), maxlen, time.time() - t0)
    res.assumptions.append("composition of the lexer's look-ahead / brace callbacks with the registration sites: covered by a BOUNDED sweep of scope histories, not by a proof")
    return res


def _emit(res, fam, bad, n, maxlen, dt):
    rep = None
    if bad:
        prog, hist, why = bad[0][:3]
        rep = ("from pycparser import c_parser, c_ast\n" f"SRC = {prog!r}\nprint(SRC)\n"
               "try:\n    ast = c_parser.CParser().parse(SRC, 'h.c')\nexcept c_parser.ParseError as e:\n    print('rejected:', e); print('REPRODUCED'); raise SystemExit(1)\n"
               "found = []\n"
               "class V(c_ast.NodeVisitor):\n"
               "    def visit_Decl(self, d):\n        if d.name == 'p': found.append('declaration')\n        self.generic_visit(d)\n"
               "    def visit_BinaryOp(self, b):\n        if isinstance(b.right, c_ast.ID) and b.right.name == 'p': found.append('expression')\n        self.generic_visit(b)\n"
               f"V().visit(ast)\nprint('probe read as', found[-1:] , '; C scoping: {'declaration' if bad[0][2].count('names a type') and 'does not' not in bad[0][2] else 'expression'}')\n"
               f"print('REPRODUCED' if found[-1:] != [{('declaration' if ('does not name' not in why and 'names a type' in why) else 'expression')!r}] else 'NOT-REPRODUCED')\n")
    res.obs.append(core.Ob(f"C04/sweep/scope-histories/{fam}", core.REFUTED if bad else core.DISCHARGED, "enum", dt,
                           (f"history {bad[0][1]}: {bad[0][2]} ({len(bad)} failing programs shown of {n} run)" if bad else
                            f"{n} programs (all valid event histories over one name up to length {maxlen}, a probe after every event) read as C scoping requires"),
                           replay=rep, functions=["CParser._add_identifier", "CParser._add_typedef_name"], bounded=True, sample=f"{n} histories"))
