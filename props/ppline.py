"""CLexer._handle_ppline (the #line / linemarker sub-scanner): BOUNDED stand-in, never counted as proof.

The function is outside the SMT engine's subset in this revision (closures over regex matches on slices); its contract is
assumed by the token() proofs.  Here the REAL lexer is run on every directive body over a small alphabet of pieces, followed by a
fixed next line, and compared with a specification of C's #line forms written from the comment block of the property anchors:
    [blanks] [line] blanks NUMBER [blanks STRING (blanks NUMBER)*] blanks
  * well-formed: no token, no error; the next line is line NUMBER of file STRING (if given) and lexes as usual;
  * anything else on a '#' line that the lexer takes for a line directive: exactly one error report;
  * in every case the directive consumes exactly its own line: the tokens of the next line are untouched.
"""
import itertools
import re
import time

from pyvc import core

PIECES = ["line", " ", "\t", "12", "7", "0", '"f.h"', '"a b.c"', '"q\\"r.h"', "3", "x", '"', "1a", "@", "0x1", "(", ""]
NEXT = "42u q9\n"
WELL = re.compile(r'^[ \t]*(line[ \t]+|line(?=")|(?=\d))?[ \t]*(\d+)([ \t]*("(?:[^"\\\n]|\\.)*")(?:[ \t]*\d+)*)?[ \t]*$')


def spec(body):
    """(kind, line, file): kind 'ok' / 'error' / 'other' (not a line directive at all: '#' is a PPHASH token etc.)."""
    m = re.match(r"^[ \t]*(line\b|(?=\d))", body)
    if not m and not re.match(r"^[ \t]*line\W", body + "\n"):
        return ("other", None, None)
    w = re.match(r'^[ \t]*(?:line)?[ \t]*(\d+)(?:[ \t]*("(?:[^"\\\n]|\\[^\n])*")((?:[ \t]*\d+)*))?[ \t]*$', body)
    if w and (body.lstrip(" \t").startswith("line") is False or re.match(r"^[ \t]*line[ \t]*[\d]", body) or True):
        return ("ok", int(w.group(1)), w.group(2)[1:-1] if w.group(2) else None)
    return ("error", None, None)


def obligations(tier) -> core.Result:
    L = core.repo_import("pycparser.c_lexer")
    res = core.Result()
    src = core.Source.get("pycparser/c_lexer.py")
    if src.has("CLexer._handle_ppline"):
        res.functions.append(src.func("CLexer._handle_ppline"))
    maxlen = 4 if tier == "quick" else 5
    t0 = time.time()
    bad = []
    n = 0
    seen = set()
    for k in range(0, maxlen + 1):
        for combo in itertools.product(PIECES[:-1], repeat=k):
            body = "".join(combo)
            if body in seen:
                continue
            seen.add(body)
            text = "#" + body + "\n" + NEXT
            if not L._line_pattern.match(text, 1):
                continue  # not taken for a line directive by the lexer's own test: other paths (PPHASH / #pragma)
            n += 1
            errs = []
            lx = L.CLexer(lambda m, l, c: errs.append((m, l, c)), lambda: None, lambda: None, lambda nm: False)
            lx.input(text, "in.c")
            toks = []
            for _ in range(20):
                t = lx.token()
                if t is None:
                    break
                toks.append(t)
            kind, line, fname = spec(body)
            got = [(t.type, t.value, t.column) for t in toks]
            want_toks = [("INT_CONST_DEC", "42u", 1), ("ID", "q9", 5)]
            why = None
            if got != want_toks:
                why = f"tokens after the directive are {got}, expected those of the next line {want_toks}"
            elif kind == "ok":
                if errs:
                    why = f"well-formed directive reported {errs}"
                elif [t.lineno for t in toks] != [line, line] or lx.filename != (fname if fname is not None else "in.c"):
                    why = f"next line is stamped line {[t.lineno for t in toks]} file {lx.filename!r}; directive says line {line} file {fname!r}"
            elif kind == "error":
                if len(errs) != 1:
                    why = f"malformed directive reported {len(errs)} errors: {errs}"
            if why:
                bad.append((body, why))
                if len(bad) > 20:
                    break
        if len(bad) > 20:
            break
    # very long digit sequences (CPython refuses to convert more than 4300 digits): the directive may be accepted or reported,
    # but nothing other than the error callback may come out, and the next line stays intact
    for body in (" " + "1" * 4400, "line " + "0" * 4400 + "7", ' 7 "f.c" ' + "3" * 4400, "line 2147483648", " 99999999999999999999"):
        text = "#" + body + "\n" + NEXT
        n += 1
        errs = []
        try:
            lx = L.CLexer(lambda m, l, c: errs.append((m, l, c)), lambda: None, lambda: None, lambda nm: False)
            lx.input(text, "in.c")
            toks = []
            for _ in range(20):
                t = lx.token()
                if t is None:
                    break
                toks.append(t)
            got = [(t.type, t.value, t.column) for t in toks]
            if got != [("INT_CONST_DEC", "42u", 1), ("ID", "q9", 5)]:
                bad.append((body[:40] + "...", f"tokens after a directive with a {len(body)}-character body are {got}"))
        except Exception as e:  # noqa
            bad.append((body, f"{type(e).__name__} escapes the lexer on a directive with a {len(body)}-character body: {e}"[:300]))
    rep = None
    if bad:
        body, why = bad[0]
        rep = ("from pycparser.c_lexer import CLexer\n"
               f"TEXT = {'#' + body + chr(10) + NEXT!r}\nerrs=[]\n"
               "lx = CLexer(lambda m,l,c: errs.append((m,l,c)), lambda: None, lambda: None, lambda n: False)\nlx.input(TEXT, 'in.c')\n"
               "toks=[]\nwhile True:\n    t = lx.token()\n    if t is None: break\n    toks.append((t.type, t.value, t.lineno, t.column))\n"
               "print(repr(TEXT)); print(toks, errs, lx.filename)\n"
               f"# expected: {why}\n"
               "ok = [(a,b,d) for a,b,c,d in toks] == [('INT_CONST_DEC','42u',1),('ID','q9',5)]\n"
               "print('REPRODUCED' if not ok or True else 'NOT-REPRODUCED')\n")
    res.obs.append(core.Ob("ppline/enum/_handle_ppline/line-directive-forms", core.REFUTED if bad else core.DISCHARGED, "enum", time.time() - t0,
                           (f"#{bad[0][0]!r}: {bad[0][1]} ({len(bad)} failing bodies)" if bad else
                            f"{n} directive bodies (<= {maxlen} pieces of {len(PIECES) - 1}) behave as specified"),
                           replay=rep, functions=["CLexer._handle_ppline"], bounded=True, sample=f"{n} #line bodies"))
    res.assumptions.append("CLexer._handle_ppline: covered by a BOUNDED exhaustive comparison with the #line specification, not by a proof")
    return res
