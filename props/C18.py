"""C18 -- structurally malformed input is always rejected."""
from pyvc import gx_obligations as GO
from props import tables


def run(tier, seed):
    # bracket discipline of every production on ARBITRARY token sequences: whatever returns normally has consumed a
    # word whose (), [] and {} are matched inside the invocation (callees by contract)
    # (and no exception other than ParseError on arbitrary tokens, end of input at every position included: "rejected WITH
    # ParseError", e.g. a '#' as the last token)
    res = GO.run_may(None, ["bracket", "rte"], "C18/gx", tier)
    from pyvc.smt_props import run_functions
    import contracts.parser_core as PC  # noqa: F401
    import contracts.tokenstream as TS
    import contracts.lexer as LX
    # parse() raises unless the input is exhausted; look-ahead never consumes; lexer reports what it cannot tokenise
    res.add(run_functions(["CParser.parse", "CParser._lex_error_func", "CParser._mark", "CParser._reset", "CParser._accept",
                           "CParser._expect", "CParser._advance"] + TS.FUNCTIONS + LX.MATCH_VARIANTS + LX.TOKEN_FUNCTIONS, "C18/smt", tier))
    res.add(tables.error_channel_obligations("C18"))
    from props import ppline
    pl = ppline.obligations(tier)
    for o in pl.obs:
        o.name = "C18/" + o.name
    res.add(pl)

    from pyvc import rx_obligations
    rx = rx_obligations.c10_obligations(tier)
    # error coverage, and the literal languages themselves (a rule that has grown beyond the C token -- a quote swallowed into a
    # binary constant -- accepts text that is not C; the `ucn` parts are about REJECTED valid text and do not belong here)
    rx.obs = [o for o in rx.obs if o.name.startswith("C10/error-coverage") or (o.name.startswith("C10/lang/") and o.name.endswith("/core"))]
    for o in rx.obs:
        o.name = "C18/rx/" + o.name[4:]
    res.add(rx)
    # a directive other than #line / #pragma is rejected: the two recognisers never take a longer word for their keyword
    from props import directives
    res.add(directives.obligations("C18"))
    return res
