"""C09 -- tokenisation is lossless, longest-match and position-exact."""
from props import lexreplay


def run(tier, seed):
    from pyvc.smt_props import run_functions
    from pyvc import rx_obligations
    import contracts.lexer as LX

    import contracts.parser_core  # noqa: F401
    res = lexreplay.attach(run_functions(LX.C09_FUNCTIONS + ["CLexer.input", "CLexer._init_state"], "C09/smt", tier))
    res.add(rx_obligations.c09_rx_obligations(tier))
    # "each literal kind": every well-formed literal must come back as ONE token of its class, so the literal languages of the
    # rule table (as shadowed by earlier rules) are part of this property too
    rx = rx_obligations.c10_obligations(tier)
    rx.obs = [o for o in rx.obs if o.name.startswith(("C10/lang", "C10/priority"))]
    for o in rx.obs:
        o.name = "C09/rx/" + o.name[4:]
    res.add(rx)
    from props import directives
    res.add(directives.obligations("C09"))
    from props import ppline
    pl = ppline.obligations(tier)
    for o in pl.obs:
        o.name = "C09/" + o.name
    res.add(pl)

    from props import errrecovery
    res.add(errrecovery.obligations("C09"))

    res.assumptions.append("CLexer._handle_ppline (the #line sub-scanner) is under an ASSUMED contract (frame, progress, line-start reset); "
                           "its body is not verified in this revision")
    return res
