"""C09 -- tokenisation is lossless, longest-match and position-exact."""
from props import lexreplay


def run(tier, seed):
    from pyvc.smt_props import run_functions
    from pyvc import rx_obligations
    import contracts.lexer as LX

    import contracts.parser_core  # noqa: F401
    res = lexreplay.attach(run_functions(LX.C09_FUNCTIONS + ["CLexer.input", "CLexer._init_state"], "C09/smt", tier))
    res.add(rx_obligations.c09_rx_obligations(tier))
    from props import ppline
    pl = ppline.obligations(tier)
    for o in pl.obs:
        o.name = "C09/" + o.name
    res.add(pl)

    res.assumptions.append("CLexer._handle_ppline (the #line sub-scanner) is under an ASSUMED contract (frame, progress, line-start reset); "
                           "its body is not verified in this revision")
    return res
