"""C09 -- tokenisation is lossless, longest-match and position-exact."""
from props import lexreplay


def run(tier, seed):
    from pyvc.smt_props import run_functions
    from pyvc import rx_obligations
    import contracts.lexer as LX

    res = lexreplay.attach(run_functions(LX.C09_FUNCTIONS, "C09/smt", tier))
    res.add(rx_obligations.c09_rx_obligations(tier))
    res.assumptions.append("CLexer._handle_ppline (the #line sub-scanner) is under an ASSUMED contract (frame, progress, line-start reset); "
                           "its body is not verified in this revision")
    return res
