"""Shared helpers for the GX-based property modules."""
from pyvc import core
from pyvc import gx_obligations as GO

EXPR_METHODS = ["_parse_expression", "_parse_expression_opt", "_parse_assignment_expression", "_parse_constant_expression",
                "_parse_conditional_expression", "_parse_binary_expression", "_parse_cast_expression", "_parse_unary_expression",
                "_parse_postfix_expression", "_parse_argument_expression_list", "_parse_primary_expression",
                "_parse_offsetof_member_designator", "_parse_identifier", "_parse_identifier_or_typeid", "_parse_constant",
                "_parse_unified_string_literal", "_parse_unified_wstring_literal"]
STMT_METHODS = ["_parse_statement", "_parse_pragmacomp_or_statement", "_parse_block_item", "_parse_block_item_list",
                "_parse_compound_statement", "_parse_labeled_statement", "_parse_expression_statement",
                "_parse_selection_statement", "_parse_iteration_statement", "_parse_jump_statement", "_parse_pppragma_directive",
                "_parse_pppragma_directive_list", "_parse_static_assert"]


def decl_methods():
    gx = GO.get_gx()
    allm = sorted({c[0] for c in GO.method_cases(gx)})
    return [m for m in allm if m not in EXPR_METHODS and m not in STMT_METHODS]


def gx(methods, families, prefix, tier, keep=None, drop=None):
    res = GO.run_families(methods, families, prefix, tier=tier)
    if keep is not None:
        res.obs = [o for o in res.obs if keep(o)]
    if drop is not None:
        res.obs = [o for o in res.obs if not drop(o)]
    return res
