"""C11 -- coordinates point at the real source location of every construct and error."""
from props import gxcommon as G


FILE_REPLAY = '''from pycparser import c_parser
SRC = 'void f(void){ if (x) y;\\n# 1 "other.h"\\n z; }\\n'
print(SRC)
ast = c_parser.CParser().parse(SRC, 'f.c')
iff = ast.ext[0].body.block_items[0]
print('If node at', iff.coord, '- the `if` token is on line 1 of f.c')
print('REPRODUCED' if iff.coord.file != 'f.c' else 'NOT-REPRODUCED')
'''


def run(tier, seed):
    res = G.gx(None, ["coord", "concrete"], "C11/gx", tier)
    from pyvc.smt_props import run_functions
    import contracts.parser_core  # noqa
    res.add(run_functions(["CParser._coord", "CParser._tok_coord", "CParser._parse_error", "CParser._tok_coord#file"], "C11/smt", tier))
    for o in res.obs:
        if o.name.startswith("C11/smt/CParser._tok_coord#file/post") and o.status == "refuted":
            o.replay = FILE_REPLAY
    try:
        import contracts.lexer as LX
        from props import lexreplay
        res.add(lexreplay.attach(run_functions(LX.C11_FUNCTIONS, "C11/smt", tier)))
    except ImportError:
        res.assumptions.append("lexer line/column contracts not built")
    from props import tables
    res.add(tables.error_channel_obligations("C11"))
    from props import ppline
    pl = ppline.obligations(tier)
    for o in pl.obs:
        o.name = "C11/" + o.name
    res.add(pl)

    from props import declsweep
    res.add(declsweep.parameter_coordinates())
    return res
