"""C11 -- coordinates point at the real source location of every construct and error."""
from props import gxcommon as G


def run(tier, seed):
    res = G.gx(None, ["coord"], "C11/gx", tier)
    from pyvc.smt_props import run_functions
    import contracts.parser_core  # noqa
    res.add(run_functions(["CParser._coord", "CParser._tok_coord", "CParser._parse_error"], "C11/smt", tier))
    try:
        import contracts.lexer as LX
        from props import lexreplay
        res.add(lexreplay.attach(run_functions(LX.C11_FUNCTIONS, "C11/smt", tier)))
    except ImportError:
        res.assumptions.append("lexer line/column contracts not built")
    from props import tables
    res.add(tables.error_channel_obligations("C11"))
    from props import ppline
    pl = ppline.obligations(tier)
    for o in pl.obs:
        o.name = "C11/" + o.name
    res.add(pl)

    return res
