"""C05, switch bodies: ast_transforms.fix_switch_cases / _extract_nested_case against the regrouping specification
(spec/grammar.py regroup_switch, written from the property text).

BOUNDED stand-in (never counted as proof): the REAL function is run on every Switch whose body is a sequence of up to
L block items, each item a chain of 0..3 case/default labels ending in a statement (what _parse_labeled_statement builds),
and compared with the specification.  L = 3 (quick) / 4 (thorough)."""
import itertools
import time

from pyvc import core


def obligations(tier) -> core.Result:
    from spec.grammar import regroup_switch

    A = core.repo_import("pycparser.c_ast")
    T = core.repo_import("pycparser.ast_transforms")
    res = core.Result()
    src = core.Source.get("pycparser/ast_transforms.py")
    for q in ("fix_switch_cases", "_extract_nested_case"):
        if src.has(q):
            res.functions.append(src.func(q))
    L = 3 if tier == "quick" else 4
    chains = [()]
    for d in (1, 2, 3):
        chains += list(itertools.product("CD", repeat=d))
    # the statement at the end of a label chain (or a plain block item): an expression statement or the empty statement ';'
    # (which is also what the parser puts under a label that is followed by a declaration)
    kinds = [(c, st) for c in chains for st in ("id", "empty")]
    counter = [0]

    def mk_item(kind, tag):
        chain, st = kind
        counter[0] += 1
        node = A.ID(f"s{tag}") if st == "id" else A.EmptyStatement()
        for k in reversed(chain):
            node = A.Case(A.Constant("int", str(counter[0])), [node]) if k == "C" else A.Default([node])
        return node

    def dump(n):
        if isinstance(n, A.Switch):
            return ("Switch", dump(n.stmt))
        if isinstance(n, A.Compound):
            return ("Compound", tuple(dump(x) for x in (n.block_items or [])))
        if isinstance(n, A.Case):
            return ("Case", n.expr.value, tuple(dump(x) for x in n.stmts))
        if isinstance(n, A.Default):
            return ("Default", tuple(dump(x) for x in n.stmts))
        if isinstance(n, A.ID):
            return n.name
        return type(n).__name__

    t0 = time.time()
    bad = None
    n = 0
    exc = None
    for ln in range(0, L + 1):
        for combo in itertools.product(kinds, repeat=ln):
            counter[0] = 0
            a = A.Switch(A.ID("x"), A.Compound([mk_item(c, i) for i, c in enumerate(combo)] or None))
            counter[0] = 0
            b = A.Switch(A.ID("x"), A.Compound([mk_item(c, i) for i, c in enumerate(combo)] or None))
            n += 1
            try:
                got = T.fix_switch_cases(a)
            except Exception as e:  # noqa
                exc = (combo, f"{type(e).__name__}: {e}")
                break
            want = regroup_switch(A, b)
            if dump(got) != dump(want):
                bad = (combo, dump(got), dump(want))
                break
        if bad or exc:
            break
    # non-compound switch body: returned unchanged
    s = A.Switch(A.ID("x"), A.ID("y"))
    same = T.fix_switch_cases(s) is s and isinstance(s.stmt, A.ID)

    def render(combo):
        out = []
        for i, (c, st) in enumerate(combo):
            out.append("".join(("case %d: " % (j + 1)) if k == "C" else "default: " for j, k in enumerate(c)) + (f"s{i};" if st == "id" else ";"))
        return "switch (x) { " + " ".join(out) + " }"

    rep = None
    detail = f"{n} switch bodies (<= {L} items, label chains <= 3) regrouped as specified"
    status = core.DISCHARGED
    if bad or exc:
        combo = (bad or exc)[0]
        status = core.REFUTED
        detail = (f"{render(combo)}: got {bad[1]}, specification {bad[2]}" if bad else f"{render(combo)}: {exc[1]}")
        rep = ("from pycparser import c_parser, c_ast\n"
               f"SRC = 'void f(int x) {{ ' + {render(combo)!r} + ' }}'\nprint(SRC)\n"
               "sw = c_parser.CParser().parse(SRC).ext[0].body.block_items[0]\nsw.show()\n"
               "ok = True\nlast = None\n"
               "for it in sw.stmt.block_items:\n"
               "    if isinstance(it, (c_ast.Case, c_ast.Default)):\n"
               "        # consecutive labels must be siblings: no label nested in a label\n"
               "        if any(isinstance(s, (c_ast.Case, c_ast.Default)) for s in it.stmts): ok = False\n"
               "        last = it\n"
               "    elif last is not None: ok = False   # a statement after a label must be under that label\n"
               "print('NOT-REPRODUCED' if ok else 'REPRODUCED')\n")
    res.obs.append(core.Ob("C05/enum/fix_switch_cases/regroup", status, "enum", time.time() - t0, detail, replay=rep,
                           functions=["fix_switch_cases", "_extract_nested_case"], bounded=True, sample=detail[:200]))
    res.obs.append(core.Ob("C05/enum/fix_switch_cases/non-compound-body-unchanged", core.DISCHARGED if same else core.REFUTED, "TB", 0.0,
                           "a switch whose body is not a compound statement is returned as is", functions=["fix_switch_cases"]))
    res.assumptions.append("fix_switch_cases is covered by a BOUNDED exhaustive comparison with its specification (not a proof)")
    return res
