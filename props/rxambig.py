"""C16, regular expressions of the lexer: adjacent unbounded repetitions over overlapping character sets.

A sequence  X{a,inf}  N*  Y{b,inf}  in which every item N between the two repetitions can match the empty string and X, Y can
match a common character lets a backtracking matcher split one run of that character in linearly many ways; when the rest of
the pattern then fails, `re` tries them all: quadratic time on a run of n characters (cubic with three such repetitions).  The
check walks the parse tree (`re._parser`, the tree `re` itself compiles from) of every pattern the lexer compiles -- the rules of
the master regex and the directive patterns -- and demands that no sequence has this shape.  It is a sufficient condition
for polynomial blow-up of THIS kind only (exponential blow-ups are the timing family's business); a hit is replayed by timing
the real lexer on a run of the common character.
"""
import re
import time

from pyvc import core

try:
    import re._parser as sre_parse          # 3.11+
    import re._constants as sre_c
except ImportError:                          # pragma: no cover
    import sre_parse
    import sre_constants as sre_c

MAXREPEAT = sre_c.MAXREPEAT
ALPHABET = [chr(c) for c in range(9, 127)] + ["\u00e9", "\u0660"]


def _chars(item):
    """Set of characters of ALPHABET with which a match of `item` can START; and whether it can match the empty string."""
    op, av = item
    name = str(op)
    if name == "LITERAL":
        return {chr(av)} & set(ALPHABET), False
    if name == "NOT_LITERAL":
        return {c for c in ALPHABET if c != chr(av)}, False
    if name == "ANY":
        return {c for c in ALPHABET if c != "\n"}, False
    if name == "IN":
        pat = sre_parse.SubPattern(sre_parse.State())
        pat.data = [item]
        try:
            rx = re.compile("[" + "".join(_in_src(x) for x in av) + "]")
            return {c for c in ALPHABET if rx.fullmatch(c)}, False
        except Exception:
            return set(ALPHABET), False
    if name in ("MAX_REPEAT", "MIN_REPEAT", "POSSESSIVE_REPEAT"):
        lo, hi, sub = av
        s, e = _seq_chars(sub)
        return s, e or lo == 0
    if name == "SUBPATTERN":
        return _seq_chars(av[-1])
    if name == "BRANCH":
        s, e = set(), False
        for alt in av[1]:
            a, b = _seq_chars(alt)
            s |= a
            e = e or b
        return s, e
    if name in ("AT", "ASSERT", "ASSERT_NOT"):
        return set(), True
    if name == "ATOMIC_GROUP":
        return _seq_chars(av)
    return set(ALPHABET), True       # unknown construct: assume anything (may only produce extra hits, never hide one)


def _in_src(x):
    op, av = x
    name = str(op)
    if name == "LITERAL":
        return re.escape(chr(av))
    if name == "RANGE":
        return re.escape(chr(av[0])) + "-" + re.escape(chr(av[1]))
    if name == "NEGATE":
        return "^"
    if name == "CATEGORY":
        return {"CATEGORY_DIGIT": r"\d", "CATEGORY_NOT_DIGIT": r"\D", "CATEGORY_SPACE": r"\s", "CATEGORY_NOT_SPACE": r"\S",
                "CATEGORY_WORD": r"\w", "CATEGORY_NOT_WORD": r"\W"}.get(str(av), r"\w\W")
    return ""


def _seq_chars(seq):
    s, empty = set(), True
    for it in seq:
        a, e = _chars(it)
        s |= a
        if not e:
            empty = False
            break
    return s, empty


def _unbounded(item):
    op, av = item
    return str(op) in ("MAX_REPEAT", "MIN_REPEAT") and av[1] == MAXREPEAT


def _body_chars(item):
    """All characters a match of one iteration of an unbounded repetition of a SINGLE-CHARACTER body can be (None if the body is
    not a single character class: nested structure is the timing family's business)."""
    lo, hi, sub = item[1]
    if len(sub) != 1 or str(sub[0][0]) not in ("LITERAL", "IN", "ANY", "NOT_LITERAL"):
        return None
    return _chars(sub[0])[0]


def hits(pattern):
    out = []

    def walk(seq):
        items = list(seq)
        for i, it in enumerate(items):
            op, av = it
            name = str(op)
            if name in ("MAX_REPEAT", "MIN_REPEAT", "POSSESSIVE_REPEAT"):
                walk(av[2])
            elif name == "SUBPATTERN":
                walk(av[-1])
            elif name == "BRANCH":
                for alt in av[1]:
                    walk(alt)
            elif name in ("ASSERT", "ASSERT_NOT"):
                walk(av[1])
            elif name == "ATOMIC_GROUP":
                walk(av)
            if _unbounded(it):
                a = _body_chars(it)
                if a is None:
                    continue
                for j in range(i + 1, len(items)):
                    nxt = items[j]
                    if _unbounded(nxt):
                        b = _body_chars(nxt)
                        if b is not None and a & b:
                            out.append(sorted(a & b)[0])
                    if not _chars(nxt)[1]:
                        break
    walk(sre_parse.parse(pattern))
    return out


def obligations() -> core.Result:
    L = core.repo_import("pycparser.c_lexer")
    res = core.Result()
    pats = []
    for r in getattr(L, "_regex_rules", []):
        pats.append((f"rule {r.tok_type}", r.regex_pattern))
    for k, v in vars(L).items():
        if hasattr(v, "pattern") and hasattr(v, "flags") and k != "_regex_master":
            pats.append((k, v.pattern))
    t0 = time.time()
    bad = []
    for name, p in pats:
        try:
            h = hits(p)
        except Exception as e:  # noqa
            res.obs.append(core.Ob(f"C16/rx/adjacent-unbounded-repetitions/{name.split()[-1]}", core.UNDECIDED, "RX/tree", 0.0,
                                   f"pattern could not be analysed: {type(e).__name__}: {e}", functions=["c_lexer._regex_rules"]))
            continue
        if h:
            bad.append((name, p, h[0]))
    rep = None
    if bad:
        name, p, ch = bad[0]
        rep = ("import re, time\nfrom pycparser import c_lexer\n"
               f"P = {p!r}\nCH = {ch!r}\n"
               "def t(n):\n    s = CH * n + '\\x00'\n    t0 = time.process_time(); re.compile(P).match(s); return time.process_time() - t0\n"
               "a, b = t(4000), t(16000)\nprint('match time on a run of', repr(CH), ': n=4000', round(a, 4), 's; n=16000', round(b, 4), 's')\n"
               "print('REPRODUCED' if b > 8 * a and b > 0.05 else 'NOT-REPRODUCED')\n")
    res.obs.append(core.Ob("C16/rx/adjacent-unbounded-repetitions", core.REFUTED if bad else core.DISCHARGED, "RX/tree", time.time() - t0,
                           ("; ".join(f"{n}: two unbounded repetitions that can both match {c!r} with only optional items between them in {p[:80]!r}"
                                      for n, p, c in bad[:3]) if bad else
                            f"{len(pats)} lexer patterns: no sequence X{{..,inf}} (optional)* Y{{..,inf}} over a common character"),
                           replay=rep, functions=["c_lexer._regex_rules"], sample=f"{len(pats)} patterns"))
    res.trusted_base.append("re._parser.parse yields the tree `re` compiles (the same assumption as the RX engine)")
    return res
