#!/usr/bin/env python3-vt
"""Self-test of the RX engine.   python3-vt /verif/tests_rx/selftest.py [--keep] [--only=NAME]

 1. translator cross-check: for every rule of the real lexer (and the auxiliary patterns)
    the z3 translation, evaluated concretely, must agree with the real `re` on thousands of
    random strings -- for fullmatch, "matches a prefix", and the exact set of match ends in
    context (graph / at_or_beyond / any_marked).
 2. seeded faults: each one-line mutation of a scratch copy of the repo must turn at least
    one obligation REFUTED (witness validated concretely, replay REPRODUCED) that is not
    refuted on the unchanged tree.
 3. harmless edits must leave every verdict unchanged.
"""
import json
import os
import random
import re
import shutil
import subprocess
import sys
import time

HERE = os.path.dirname(os.path.abspath(__file__))
VERIF = os.path.dirname(HERE)
sys.path.insert(0, VERIF)
sys.dont_write_bytecode = True
SCRATCH = "/tmp/rx_scratch"
PY = sys.executable
REPLAY_PY = os.environ.get("VERIF_REPLAY_PY", "/venv/bin/python")


def sub(old, new, count=1):
    def f(text):
        assert text.count(old) >= 1, f"mutation anchor not found: {old!r}"
        return text.replace(old, new, count)
    return f


def move_bad_oct_after_int_oct(text):
    m = re.search(r'    _RegexRule\(\n        "BAD_CONST_OCT",\n(?:.*\n)*?    \),\n', text)
    assert m, "BAD_CONST_OCT rule not found"
    block = m.group(0)
    text = text.replace(block, "")
    anchor = '    _RegexRule("INT_CONST_OCT", _octal_constant, _RegexAction.TOKEN, None),\n'
    assert anchor in text
    return text.replace(anchor, anchor + block)


def swap_u16_u32_strings(text):
    a = '    _RegexRule("U16STRING_LITERAL", _u16string_literal, _RegexAction.TOKEN, None),\n'
    b = '    _RegexRule("U32STRING_LITERAL", _u32string_literal, _RegexAction.TOKEN, None),\n'
    assert a + b in text
    return text.replace(a + b, b + a)


MUTATIONS = [
    ("exponent-sign", sub('_exponent_part = r"""([eE][-+]?[0-9]+)"""', '_exponent_part = r"""([eE][-]?[0-9]+)"""')),
    ("octal-allows-8-9", sub('_octal_constant = "0[0-7]*"', '_octal_constant = "0[0-9]*"')),
    ("bad-oct-after-int-oct", move_bad_oct_after_int_oct),
    ("hex-escape-no-lookahead", sub('_hex_escape = r"""(x[0-9a-fA-F]+)(?![0-9a-fA-F])"""', '_hex_escape = r"""(x[0-9a-fA-F]+)"""')),
    ("float-suffix-mandatory", sub('+ "))[FfLl]?)"', '+ "))[FfLl])"')),
    ("no-arrow", sub('    _FixedToken("ARROW", "->"),\n', "")),
    ("bool-not-keyword", sub('if keyword.startswith("_") and len(keyword) > 1 and keyword[1].isalpha():',
                             'if keyword.startswith("_") and len(keyword) > 1 and keyword[1].isalpha() and keyword != "_BOOL":')),
    ("buckets-ascending", sub("_bucket.sort(key=lambda item: len(item.literal), reverse=True)",
                              "_bucket.sort(key=lambda item: len(item.literal), reverse=False)")),
    ("identifier-no-dollar", sub('_identifier = r"[a-zA-Z_$][0-9a-zA-Z_$]*"', '_identifier = r"[a-zA-Z_][0-9a-zA-Z_]*"')),
    ("hex-float-exponent-optional", sub('    + _binary_exponent_part\n    + "[FfLl]?)"', '    + _binary_exponent_part + "?"\n    + "[FfLl]?)"')),
    # not in the brief's list: a pure backtracking-order fault (languages unchanged, R4 broken)
    ("fraction-alternatives-swapped", sub('_fractional_constant = r"""([0-9]*\\.[0-9]+)|([0-9]+\\.)"""',
                                          '_fractional_constant = r"""([0-9]+\\.)|([0-9]*\\.[0-9]+)"""')),
]
HARMLESS = [
    ("hex-digits-reordered", sub('_hex_digits = "[0-9a-fA-F]+"', '_hex_digits = "[0-9A-Fa-f]+"')),
    ("u16-u32-string-rules-swapped", swap_u16_u32_strings),
]


# ------------------------------------------------------------------------------------------
def crosscheck():
    from pyvc import core, rx
    L = core.repo_import("pycparser.c_lexer")
    rnd = random.Random(20260923)
    alph = list("0189afxXuUlLeEpP.+-'\"\\\n $_bB/*~q%;") + [chr(0x663), chr(0x2FFFE), chr(0x1F600), "\t"]
    starts = ["'", "'\\", '"', '"\\', "0", "0x", "0b", "1.", ".", "L'", "u8'", "u8\"", "'a", "'\\x", "'\\1", "'ab", "'\\x\n", "/", "a$"]
    pats = [(r.tok_type, r.regex_pattern) for r in L._regex_rules]
    pats += [("_line_pattern", L._line_pattern.pattern), ("_pragma_pattern", L._pragma_pattern.pattern),
             ("_decimal_constant", L._decimal_constant), ("_string_literal", L._string_literal)]
    M = chr(rx.MARK)
    bad = n = 0
    for name, p in pats:
        t = rx.Translator(p)
        F, P = rx.Dfa(t.full()), rx.Dfa(t.pref())
        G, A, Y = rx.Dfa(t.graph()), rx.Dfa(t.at_or_beyond()), rx.Dfa(t.any_marked())
        rxc = re.compile(p)
        for i in range(3000):
            s = "".join(rnd.choice(alph) for _ in range(rnd.randint(0, 8)))
            if i % 2:
                s = rnd.choice(starts) + s
            n += 1
            if (rxc.fullmatch(s) is not None) != F.accepts(s):
                bad += 1
                print("  FULL mismatch", name, ascii(s))
            if (rxc.match(s) is not None) != P.accepts(s):
                bad += 1
                print("  PREF mismatch", name, ascii(s))
            if i % 3 == 0:
                ends = set(rx.re_match_ends(p, s))
                for k in range(len(s) + 1):
                    w = s[:k] + M + s[k:]
                    if (G.accepts(w) != (k in ends) or A.accepts(w) != any(x >= k for x in ends)
                            or Y.accepts(w) != bool(ends)):
                        bad += 1
                        print("  GRAPH mismatch", name, ascii(s), k, sorted(ends))
    # the solver and the derivative procedure on a known equality / inequality
    a = rx.Translator(r"(ab|a)*c").full()
    b = rx.Translator(r"(a|ab)*c").full()
    c = rx.Translator(r"(ab)*c").full()
    assert rx.solve([(a, True), (b, False)])["status"] == "unsat"
    r = rx.solve([(a, True), (c, False)])
    assert r["status"] == "sat" and re.fullmatch(r"(ab|a)*c", r["witness"]) and not re.fullmatch(r"(ab)*c", r["witness"])
    try:
        rx.Translator(r"a(?=b)").full()
        raise AssertionError("positive lookahead must be Untranslatable")
    except rx.Untranslatable:
        pass
    print(f"[crosscheck] {n} strings x (fullmatch, prefix, match-ends) over {len(pats)} patterns: {bad} disagreements")
    return bad == 0


def run_obligations(repo, tag):
    out = f"/tmp/rx_selftest_{tag}.json"
    env = dict(os.environ, VERIF_REPO=repo, PYTHONDONTWRITEBYTECODE="1")
    t0 = time.time()
    p = subprocess.run([PY, os.path.join(VERIF, "pyvc", "rx_obligations.py"), "quick", f"--json={out}"],
                       env=env, capture_output=True, text=True, timeout=1800)
    if p.returncode != 0 or not os.path.exists(out):
        print(p.stdout[-2000:], p.stderr[-4000:])
        raise RuntimeError(f"obligation run failed for {tag}")
    d = json.load(open(out))
    os.remove(out)
    assert d["repo"] == repo, (d["repo"], repo)
    return {o["name"]: o for o in d["obligations"]}, time.time() - t0


def replay_reproduces(ob, repo):
    from pyvc import core
    path = f"/tmp/rx_selftest_replay_{os.getpid()}.py"
    with open(path, "w", encoding="utf-8") as f:
        f.write(core.REPLAY_HEADER.format(prop="selftest", name=ob["name"], backend=ob["backend"], py=REPLAY_PY,
                                          path=path, outcome="", detail="", repo=repo) + ob["replay"])
    p = subprocess.run([REPLAY_PY, path], capture_output=True, text=True, timeout=120,
                       env=dict(os.environ, VERIF_REPO=repo, PYTHONDONTWRITEBYTECODE="1"))
    os.remove(path)
    txt = p.stdout + p.stderr
    return "REPRODUCED" in txt and "NOT-REPRODUCED" not in txt, txt.strip().splitlines()[-1:] if txt.strip() else []


def main():
    keep = "--keep" in sys.argv
    only = next((a.split("=", 1)[1] for a in sys.argv[1:] if a.startswith("--only=")), None)
    t00 = time.time()
    ok = crosscheck()
    base, dt = run_obligations("/repo", "baseline")
    base_ref = sorted(n for n, o in base.items() if o["status"] == "refuted")
    und = sorted(n for n, o in base.items() if o["status"] == "undecided")
    print(f"[baseline] {len(base)} obligations, {len(base_ref)} refuted, {len(und)} undecided, {dt:.0f}s")
    ok = ok and not und
    src = open("/repo/pycparser/c_lexer.py", encoding="utf-8").read()
    try:
        for kind, lst in (("mutation", MUTATIONS), ("harmless", HARMLESS)):
            for name, fn in lst:
                if only and only != name:
                    continue
                shutil.rmtree(SCRATCH, ignore_errors=True)
                shutil.copytree("/repo", SCRATCH, ignore=shutil.ignore_patterns(".git", "__pycache__"))
                with open(os.path.join(SCRATCH, "pycparser", "c_lexer.py"), "w", encoding="utf-8") as f:
                    f.write(fn(src))
                res, dt = run_obligations(SCRATCH, name)
                changed = sorted(n for n in set(res) | set(base)
                                 if res.get(n, {}).get("status") != base.get(n, {}).get("status"))
                newly = [n for n in res if res[n]["status"] == "refuted" and base.get(n, {}).get("status") != "refuted"]
                if kind == "mutation":
                    good = bool(newly)
                    rep = ""
                    if good:
                        r_ok, tail = replay_reproduces(res[newly[0]], SCRATCH)
                        good = r_ok
                        rep = f"; replay of {newly[0]}: {'REPRODUCED' if r_ok else 'NOT reproduced ' + str(tail)}"
                    print(f"[{'ok' if good else 'FAIL'}] mutation {name}: {len(newly)} obligations newly refuted "
                          f"(e.g. {newly[0] if newly else '-'}: {res[newly[0]]['sample'] if newly else ''}){rep} [{dt:.0f}s]")
                else:
                    good = not changed
                    print(f"[{'ok' if good else 'FAIL'}] harmless {name}: {len(changed)} verdicts changed {changed[:5]} [{dt:.0f}s]")
                ok = ok and good
    finally:
        if not keep:
            shutil.rmtree(SCRATCH, ignore_errors=True)
    print(f"[selftest] {'PASSED' if ok else 'FAILED'} in {time.time() - t00:.0f}s")
    return 0 if ok else 1


if __name__ == "__main__":
    sys.exit(main())
