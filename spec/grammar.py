"""Reference grammar: ISO/IEC 9899:1999 Annex A.2 (plus the C11 productions the properties name and
pycparser's documented extensions), transcribed at the granularity of the parser's methods, with the
AST each production must yield (property statements C02/C03/C05 and _c_ast.cfg).

Written from the standard and the property text, NOT from c_parser.py: where pycparser merges or
splits nonterminals (binary-expression for the ten precedence levels, declarator kinds) the
language-preserving rewrite is stated next to the production.  Left recursion is written as
iteration (Star), which preserves the language and, with the fold in `build`, the tree.

build(v, gx): v mirrors the right-hand side (Token for T, value for N, None/value for Opt, list for Star).
"""
from pyvc.gx import ANY_INSIDE, Grammar, N, Opt, Star, T

# C99 6.5.5 - 6.5.14: binary operators by precedence level, weakest first (all left associative)
C_BINARY_LEVELS = [
    ["||"], ["&&"], ["|"], ["^"], ["&"], ["==", "!="], ["<", ">", "<=", ">="], ["<<", ">>"], ["+", "-"], ["*", "/", "%"],
]
BINOP_TOKENS = {  # C spelling -> pycparser token type (c_lexer token names)
    "||": "LOR", "&&": "LAND", "|": "OR", "^": "XOR", "&": "AND", "==": "EQ", "!=": "NE", "<": "LT", ">": "GT",
    "<=": "LE", ">=": "GE", "<<": "LSHIFT", ">>": "RSHIFT", "+": "PLUS", "-": "MINUS", "*": "TIMES", "/": "DIVIDE",
    "%": "MOD",
}
ASSIGN_OPS = {"=": "EQUALS", "*=": "TIMESEQUAL", "/=": "DIVEQUAL", "%=": "MODEQUAL", "+=": "PLUSEQUAL",
              "-=": "MINUSEQUAL", "<<=": "LSHIFTEQUAL", ">>=": "RSHIFTEQUAL", "&=": "ANDEQUAL", "^=": "XOREQUAL",
              "|=": "OREQUAL"}
UNARY_OPS = {"&": "AND", "*": "TIMES", "+": "PLUS", "-": "MINUS", "~": "NOT", "!": "LNOT"}


def level_of(op: str) -> int:
    for i, lv in enumerate(C_BINARY_LEVELS):
        if op in lv:
            return i
    raise KeyError(op)


def c_binary_tree(A, operands, ops):
    """The tree ISO C assigns to  e0 op1 e1 op2 e2 ... : each level is left associative, a higher level
    binds tighter (6.5.5-6.5.14 written as iteration).  Recursive descent over the levels."""
    pos = [0]

    def parse_level(lv):
        if lv == len(C_BINARY_LEVELS):
            e = operands[pos[0]]
            return e
        left = parse_level(lv + 1)
        while pos[0] < len(ops) and level_of(ops[pos[0]]) == lv:
            op = ops[pos[0]]
            pos[0] += 1
            right = parse_level(lv + 1)
            left = A.BinaryOp(op, left, right, ANY_INSIDE)
        return left

    return parse_level(0)


def int_constant_type(spelling: str) -> str:
    """6.4.4.1: u/U -> unsigned, l/L -> long, ll/LL -> long long (pycparser spells the type as words)."""
    s = spelling.lower()
    digits = s
    suffix = ""
    while digits and digits[-1] in "ul" and not (digits.startswith("0x") and len(digits) <= 2):
        # hexadecimal digits never include u/l, so stripping from the right is unambiguous
        suffix = digits[-1] + suffix
        digits = digits[:-1]
    return "unsigned " * suffix.count("u") + "long " * suffix.count("l") + "int"


def float_constant_type(spelling: str) -> str:
    """6.4.4.2: suffix f/F -> float, l/L -> long double, none -> double.  (A hexadecimal floating constant
    ends in its exponent digits or the suffix, so the last character decides.)"""
    c = spelling[-1]
    return "float" if c in "fF" else "long double" if c in "lL" else "double"


def make_expression_grammar(g: Grammar, gx):
    A = gx.c_ast
    co = lambda tok: gx.Coord("f.c", tok.lineno, tok.column)  # noqa: E731

    # ---------------------------------------------------------------- A.2.1 expressions
    EXPR_CHAIN = ["assignment-expression", "conditional-expression", "binary-expression", "cast-expression",
                  "unary-expression", "postfix-expression", "primary-expression"]
    g.nt("expression", "_parse_expression", covers=EXPR_CHAIN)
    g.prod("expression", [N("assignment-expression"), Star(T("COMMA"), N("assignment-expression"))],
           build=lambda v, gx: v[0] if not v[1] else A.ExprList([v[0]] + [r[1] for r in v[1]], ANY_INSIDE),
           label="expression: assignment-expression (',' assignment-expression)*")
    g.nt("expression-opt", "_parse_expression_opt")
    g.prod("expression-opt", [], build=lambda v, gx: None, label="expression-opt: empty")
    g.prod("expression-opt", [N("expression")], build=lambda v, gx: v[0], label="expression-opt: expression")

    g.nt("assignment-expression", "_parse_assignment_expression", covers=EXPR_CHAIN[1:])
    g.prod("assignment-expression", [N("conditional-expression")], build=lambda v, gx: v[0],
           label="assignment-expression: conditional-expression")
    g.prod("assignment-expression", [N("unary-expression"), N("assignment-operator"), N("assignment-expression")],
           build=lambda v, gx: A.Assignment(v[1].value, v[0], v[2], ANY_INSIDE),
           label="assignment-expression: unary-expression assignment-operator assignment-expression")
    def tokval(gx, m):  # value of an operator-class marker: the operator token (forces the choice of the operator)
        if m.first is None:
            from pyvc.gx import NeedChoice
            raise NeedChoice(m)
        return gx.Token(m.first, gx.spelling(m.first), 1, 0)

    g.nt("assignment-operator", opaque=tokval)
    for sp, tt in ASSIGN_OPS.items():
        g.prod("assignment-operator", [T(tt, sp)], build=lambda v, gx: v[0], label=f"assignment-operator: {sp}")

    g.nt("constant-expression", "_parse_constant_expression", covers=EXPR_CHAIN[1:])
    g.prod("constant-expression", [N("conditional-expression")], build=lambda v, gx: v[0],
           label="constant-expression: conditional-expression")

    g.nt("conditional-expression", "_parse_conditional_expression", covers=EXPR_CHAIN[2:])
    g.prod("conditional-expression", [N("binary-expression")], build=lambda v, gx: v[0],
           label="conditional-expression: logical-OR-expression")
    g.prod("conditional-expression",
           [N("binary-expression"), T("CONDOP"), N("expression"), T("COLON"), N("conditional-expression")],
           build=lambda v, gx: A.TernaryOp(v[0], v[2], v[4], ANY_INSIDE),
           label="conditional-expression: logical-OR-expression ? expression : conditional-expression")

    # 6.5.5-6.5.14 (ten left-recursive levels) == cast-expression (binop cast-expression)* with the level fold
    g.nt("binary-expression", "_parse_binary_expression", covers=EXPR_CHAIN[3:])
    g.prod("binary-expression", [N("cast-expression"), Star(N("binary-operator"), N("cast-expression"), reps=3)],
           build=lambda v, gx: c_binary_tree(A, [v[0]] + [r[1] for r in v[1]], [r[0].value for r in v[1]]),
           label="multiplicative ... logical-OR expressions (6.5.5-6.5.14)")
    g.nt("binary-operator", opaque=tokval)
    for sp, tt in BINOP_TOKENS.items():
        g.prod("binary-operator", [T(tt, sp)], build=lambda v, gx: v[0], label=f"binary-operator: {sp}")

    g.nt("cast-expression", "_parse_cast_expression", covers=EXPR_CHAIN[4:])
    g.prod("cast-expression", [N("unary-expression")], build=lambda v, gx: v[0], label="cast-expression: unary-expression")
    g.prod("cast-expression", [T("LPAREN"), N("type-name"), T("RPAREN"), N("cast-expression")],
           build=lambda v, gx: A.Cast(v[1], v[3], ANY_INSIDE), label="cast-expression: ( type-name ) cast-expression")

    g.nt("unary-expression", "_parse_unary_expression", covers=EXPR_CHAIN[5:])
    g.prod("unary-expression", [N("postfix-expression")], build=lambda v, gx: v[0], label="unary-expression: postfix-expression")
    g.prod("unary-expression", [T("PLUSPLUS"), N("unary-expression")],
           build=lambda v, gx: A.UnaryOp("++", v[1], ANY_INSIDE), label="unary-expression: ++ unary-expression")
    g.prod("unary-expression", [T("MINUSMINUS"), N("unary-expression")],
           build=lambda v, gx: A.UnaryOp("--", v[1], ANY_INSIDE), label="unary-expression: -- unary-expression")
    for sp, tt in UNARY_OPS.items():
        g.prod("unary-expression", [T(tt, sp), N("cast-expression")],
               build=lambda v, gx, sp=sp: A.UnaryOp(sp, v[1], ANY_INSIDE), label=f"unary-expression: {sp} cast-expression")
    g.prod("unary-expression", [T("SIZEOF"), N("unary-expression")],
           build=lambda v, gx: A.UnaryOp("sizeof", v[1], ANY_INSIDE), label="unary-expression: sizeof unary-expression")
    g.prod("unary-expression", [T("SIZEOF"), T("LPAREN"), N("type-name"), T("RPAREN")],
           build=lambda v, gx: A.UnaryOp("sizeof", v[2], ANY_INSIDE), label="unary-expression: sizeof ( type-name )")
    g.prod("unary-expression", [T("_ALIGNOF"), T("LPAREN"), N("type-name"), T("RPAREN")],
           build=lambda v, gx: A.UnaryOp("_Alignof", v[2], ANY_INSIDE), label="unary-expression: _Alignof ( type-name )")

    def fold_suffixes(base, suffixes):
        e = base
        for s in suffixes:
            e = s(e)
        return e

    g.nt("postfix-expression", "_parse_postfix_expression", covers=EXPR_CHAIN[6:])
    g.prod("postfix-expression", [N("primary-expression"), Star(N("postfix-suffix"))],
           build=lambda v, gx: fold_suffixes(v[0], v[1]), label="postfix-expression: primary-expression suffix*")
    g.prod("postfix-expression",
           [T("LPAREN"), N("type-name"), T("RPAREN"), T("LBRACE"), N("initializer-list"), T("RBRACE"),
            Star(N("postfix-suffix"))],
           build=lambda v, gx: fold_suffixes(A.CompoundLiteral(v[1], v[4], ANY_INSIDE), v[6]),
           label="postfix-expression: ( type-name ) { initializer-list ,? } suffix*")
    # a suffix is a function from the expression built so far to the new node (left nesting)
    sufval = lambda gx, m: (lambda e: gx.Opaque(f"{m.nt}#{m.mid}", gx.Coord("f.c", 900 + m.mid, 1)))  # noqa: E731
    g.nt("postfix-suffix", opaque=sufval)
    g.prod("postfix-suffix", [T("LBRACKET"), N("expression"), T("RBRACKET")],
           build=lambda v, gx: (lambda e: A.ArrayRef(e, v[1], ANY_INSIDE)), label="suffix: [ expression ]")
    g.prod("postfix-suffix", [T("LPAREN"), Opt(N("argument-expression-list")), T("RPAREN")],
           build=lambda v, gx: (lambda e: A.FuncCall(e, v[1], ANY_INSIDE)), label="suffix: ( argument-expression-list? )")
    for tt, sp in (("PERIOD", "."), ("ARROW", "->")):
        for idt in ("ID", "TYPEID"):  # member names live in their own name space: a typedef name is allowed (6.2.3)
            g.prod("postfix-suffix", [T(tt, sp), T(idt)],
                   build=lambda v, gx, sp=sp: (lambda e: A.StructRef(e, sp, A.ID(v[1].value, co(v[1])), ANY_INSIDE)),
                   label=f"suffix: {sp} identifier({idt})")
    g.prod("postfix-suffix", [T("PLUSPLUS")], build=lambda v, gx: (lambda e: A.UnaryOp("p++", e, ANY_INSIDE)), label="suffix: ++")
    g.prod("postfix-suffix", [T("MINUSMINUS")], build=lambda v, gx: (lambda e: A.UnaryOp("p--", e, ANY_INSIDE)), label="suffix: --")

    g.nt("argument-expression-list", "_parse_argument_expression_list")
    g.prod("argument-expression-list", [N("assignment-expression"), Star(T("COMMA"), N("assignment-expression"))],
           build=lambda v, gx: A.ExprList([v[0]] + [r[1] for r in v[1]], ANY_INSIDE),
           label="argument-expression-list: assignment-expression (',' assignment-expression)*")

    g.nt("primary-expression", "_parse_primary_expression")
    g.prod("primary-expression", [N("identifier")], build=lambda v, gx: v[0], label="primary-expression: identifier")
    g.prod("primary-expression", [N("constant")], build=lambda v, gx: v[0], label="primary-expression: constant")
    g.prod("primary-expression", [N("string-literal")], build=lambda v, gx: v[0], label="primary-expression: string-literal")
    g.prod("primary-expression", [N("wide-string-literal")], build=lambda v, gx: v[0], label="primary-expression: wide string-literal")
    # parentheses influence grouping only: the value IS the inner expression
    g.prod("primary-expression", [T("LPAREN"), N("expression"), T("RPAREN")], build=lambda v, gx: v[1],
           label="primary-expression: ( expression )")
    g.prod("primary-expression", [T("OFFSETOF"), T("LPAREN"), N("type-name"), T("COMMA"), N("offsetof-member-designator"), T("RPAREN")],
           build=lambda v, gx: A.FuncCall(A.ID(v[0].value, co(v[0])), A.ExprList([v[2], v[4]], ANY_INSIDE), ANY_INSIDE),
           label="primary-expression: offsetof ( type-name , member-designator )  [documented extension]")
    g.nt("offsetof-member-designator", "_parse_offsetof_member_designator")
    g.prod("offsetof-member-designator", [N("identifier-or-typeid"), Star(N("offsetof-suffix"))],
           build=lambda v, gx: fold_suffixes(v[0], v[1]), label="member-designator: identifier (. identifier | [ expression ])*")
    g.nt("offsetof-suffix", opaque=sufval)
    g.prod("offsetof-suffix", [T("PERIOD"), N("identifier-or-typeid")],
           build=lambda v, gx: (lambda e: A.StructRef(e, ".", v[1], ANY_INSIDE)), label="member-designator suffix: . identifier")
    g.prod("offsetof-suffix", [T("LBRACKET"), N("expression"), T("RBRACKET")],
           build=lambda v, gx: (lambda e: A.ArrayRef(e, v[1], ANY_INSIDE)), label="member-designator suffix: [ expression ]")

    g.nt("identifier", "_parse_identifier")
    g.prod("identifier", [T("ID")], build=lambda v, gx: A.ID(v[0].value, co(v[0])), label="identifier: ID")
    g.nt("identifier-or-typeid", "_parse_identifier_or_typeid")
    for idt in ("ID", "TYPEID"):
        g.prod("identifier-or-typeid", [T(idt)], build=lambda v, gx: A.ID(v[0].value, co(v[0])), label=f"member name: {idt}")

    g.nt("constant", "_parse_constant")
    for tt in ("INT_CONST_DEC", "INT_CONST_OCT", "INT_CONST_HEX", "INT_CONST_BIN"):
        for sp in {"INT_CONST_DEC": ["7", "7u", "7L", "7ul", "7LL", "7ull", "7llU"], "INT_CONST_OCT": ["017", "017u", "017lu"],
                   "INT_CONST_HEX": ["0x1F", "0x1Ful", "0xFLL"], "INT_CONST_BIN": ["0b101", "0b1u"]}[tt]:
            g.prod("constant", [T(tt, sp)], build=lambda v, gx: A.Constant(int_constant_type(v[0].value), v[0].value, co(v[0])),
                   label=f"constant: {tt} {sp}")
    for tt, sps in (("FLOAT_CONST", ["1.5", "1.5f", "1e3L", ".5F"]), ("HEX_FLOAT_CONST", ["0x1.8p3", "0x1p-2f", "0x.8p1L"])):
        for sp in sps:
            g.prod("constant", [T(tt, sp)], build=lambda v, gx: A.Constant(float_constant_type(v[0].value), v[0].value, co(v[0])),
                   label=f"constant: {tt} {sp}")
    for tt, sp in (("CHAR_CONST", "'a'"), ("WCHAR_CONST", "L'a'"), ("U8CHAR_CONST", "u8'a'"), ("U16CHAR_CONST", "u'a'"),
                   ("U32CHAR_CONST", "U'a'")):
        g.prod("constant", [T(tt, sp)], build=lambda v, gx: A.Constant("char", v[0].value, co(v[0])), label=f"constant: {tt}")
    # 6.4.4.4p10: a multi-character constant has type int (whatever letters it contains)
    for sp in ("'ab'", "'ul'", "'uu'", "'lll'"):
        g.prod("constant", [T("INT_CONST_CHAR", sp)], build=lambda v, gx: A.Constant("int", v[0].value, co(v[0])),
               label=f"constant: multi-character constant {sp}")

    # 6.4.5p4/5: adjacent string literals are concatenated; the node keeps the first prefix and one pair of quotes
    g.nt("string-literal", "_parse_unified_string_literal")
    g.prod("string-literal", [T("STRING_LITERAL"), Star(T("STRING_LITERAL"))],
           build=lambda v, gx: A.Constant("string", '"' + "".join(t.value[1:-1] for t in [v[0]] + v[1]) + '"', co(v[0])),
           label="string-literal: STRING_LITERAL+")
    g.nt("wide-string-literal", "_parse_unified_wstring_literal")
    for tt, pre in (("WSTRING_LITERAL", "L"), ("U8STRING_LITERAL", "u8"), ("U16STRING_LITERAL", "u"), ("U32STRING_LITERAL", "U")):
        g.prod("wide-string-literal", [T(tt), Star(T(tt))],
               build=lambda v, gx, pre=pre: A.Constant(
                   "string", pre + '"' + "".join(t.value[len(pre) + 1:-1] for t in [v[0]] + v[1]) + '"', co(v[0])),
               label=f"string-literal: {tt}+")


def make_grammar(gx):
    g = Grammar()
    make_expression_grammar(g, gx)
    make_statement_grammar(g, gx)
    from spec.grammar_decl import make_declaration_grammar
    make_declaration_grammar(g, gx)
    from spec.grammar_decl import add_variants
    add_variants(g, gx)
    add_value_variants(g, gx)
    return g


# ======================================================================================
# A.2.3 statements (C05)
# ======================================================================================
def splice_items(items):
    """block-item-list: declarations arrive as lists and are spliced in, in source order."""
    out = []
    for it in items:
        if isinstance(it, list):
            out.extend(it)
        else:
            out.append(it)
    return out


def regroup_switch(A, sw):
    """C05: inside a switch block every statement ends up under the nearest preceding case/default label,
    consecutive labels are kept as siblings; statements before the first label stay at top level.
    (Specification of ast_transforms.fix_switch_cases, written from the property text.)"""
    body = sw.stmt
    if not isinstance(body, A.Compound):
        return sw
    out = []
    last = None
    for item in body.block_items or []:
        if isinstance(item, (A.Case, A.Default)):
            # un-nest a chain  case a: case b: s  into siblings, the statement staying with the last label
            chain = [item]
            while chain[-1].stmts and isinstance(chain[-1].stmts[0], (A.Case, A.Default)):
                inner = chain[-1].stmts[0]
                chain[-1].stmts = chain[-1].stmts[1:]
                chain.append(inner)
            out.extend(chain)
            last = chain[-1]
        elif last is None:
            out.append(item)
        else:
            last.stmts.append(item)
    sw.stmt = A.Compound(out, body.coord)
    return sw


def make_statement_grammar(g: Grammar, gx):
    A = gx.c_ast
    co = lambda tok: gx.Coord("f.c", tok.lineno, tok.column)  # noqa: E731
    STMT_KINDS = ["labeled-statement", "compound-statement", "expression-statement", "selection-statement",
                  "iteration-statement", "jump-statement", "pragma-directive", "static-assert"]
    g.nt("statement", "_parse_statement", covers=STMT_KINDS)
    for k in STMT_KINDS[:6]:
        g.prod("statement", [N(k)], build=lambda v, gx: v[0], label=f"statement: {k}")

    # pragmas prefixed to a sub-statement are wrapped with it in a Compound; without pragma: the statement itself
    g.nt("pragmacomp-or-statement", "_parse_pragmacomp_or_statement", covers=["statement"] + STMT_KINDS)
    g.prod("pragmacomp-or-statement", [N("statement")], build=lambda v, gx: v[0], label="substatement: statement")
    g.prod("pragmacomp-or-statement", [N("pragma-directive-list"), N("statement")],
           build=lambda v, gx: A.Compound(v[0] + [v[1]], ANY_INSIDE), label="substatement: pragma+ statement")

    g.nt("block-item", "_parse_block_item", covers=["declaration", "statement", "static-assert"] + STMT_KINDS)
    g.prod("block-item", [N("declaration")], build=lambda v, gx: v[0], label="block-item: declaration")
    g.prod("block-item", [N("statement")], build=lambda v, gx: v[0], label="block-item: statement")
    # documented extension: a #pragma line / _Pragma operator is an item of its own in a block
    g.prod("block-item", [N("pragma-directive")], build=lambda v, gx: v[0], label="block-item: pragma [extension]")
    g.prod("block-item", [N("static-assert"), T("SEMI")], build=lambda v, gx: v[0],
           label="block-item: static_assert-declaration (C11 6.7.10)", note="C11")
    lst = lambda gx, m: [gx.Opaque(f"{m.nt}#{m.mid}", gx.Coord("f.c", 900 + m.mid, 1))]  # noqa: E731
    g.nt("block-item-list", "_parse_block_item_list", opaque=lst)
    g.prod("block-item-list", [N("block-item"), Star(N("block-item"))],
           build=lambda v, gx: splice_items([v[0]] + v[1]), label="block-item-list: block-item+")
    g.nt("compound-statement", "_parse_compound_statement")
    g.prod("compound-statement", [T("LBRACE"), T("RBRACE")], build=lambda v, gx: A.Compound(None, co(v[0])),
           label="compound-statement: { }")
    g.prod("compound-statement", [T("LBRACE"), N("block-item-list"), T("RBRACE")],
           build=lambda v, gx: A.Compound(v[1], co(v[0])), label="compound-statement: { block-item-list }")

    g.nt("labeled-statement", "_parse_labeled_statement")
    g.prod("labeled-statement", [T("ID"), T("COLON"), N("pragmacomp-or-statement")],
           build=lambda v, gx: A.Label(v[0].value, v[2], co(v[0])), label="labeled-statement: identifier : statement")
    # labels have their own name space (6.2.3): a typedef name may be used as a label
    # (kept in a nonterminal of its own, not reachable from `statement`, so that the FIRST sets used elsewhere stay those of
    # the constructs the parser is known to support; the rejection is one known finding)
    g.nt("labeled-statement[typedef-name]")
    g.prod("labeled-statement[typedef-name]", [T("TYPEID"), T("COLON"), N("pragmacomp-or-statement")],
           build=lambda v, gx: A.Label(v[0].value, v[2], co(v[0])), label="labeled-statement: identifier(typedef name) : statement",
           note="typedef-reuse")
    g.prod("labeled-statement", [T("CASE"), N("constant-expression"), T("COLON"), N("pragmacomp-or-statement")],
           build=lambda v, gx: A.Case(v[1], [v[3]], co(v[0])), label="labeled-statement: case constant-expression : statement")
    g.prod("labeled-statement", [T("DEFAULT"), T("COLON"), N("pragmacomp-or-statement")],
           build=lambda v, gx: A.Default([v[2]], co(v[0])), label="labeled-statement: default : statement")

    g.nt("expression-statement", "_parse_expression_statement")
    g.prod("expression-statement", [N("expression-opt"), T("SEMI")],
           build=lambda v, gx: v[0] if v[0] is not None else A.EmptyStatement(co(v[1])), label="expression-statement: expression? ;")

    g.nt("selection-statement", "_parse_selection_statement")
    g.prod("selection-statement", [T("IF"), T("LPAREN"), N("expression"), T("RPAREN"), N("pragmacomp-or-statement")],
           build=lambda v, gx: A.If(v[2], v[4], None, co(v[0])), label="selection-statement: if ( expression ) statement",
           no_follow=["ELSE"])  # 6.8.4.1p3: an else belongs to the nearest if, so this form is never followed by else
    g.prod("selection-statement",
           [T("IF"), T("LPAREN"), N("expression"), T("RPAREN"), N("pragmacomp-or-statement"), T("ELSE"), N("pragmacomp-or-statement")],
           build=lambda v, gx: A.If(v[2], v[4], v[6], co(v[0])), label="selection-statement: if ( expression ) statement else statement")
    g.prod("selection-statement", [T("SWITCH"), T("LPAREN"), N("expression"), T("RPAREN"), N("pragmacomp-or-statement")],
           build=lambda v, gx: regroup_switch(A, A.Switch(v[2], v[4], co(v[0]))), label="selection-statement: switch ( expression ) statement")

    g.nt("iteration-statement", "_parse_iteration_statement")
    g.prod("iteration-statement", [T("WHILE"), T("LPAREN"), N("expression"), T("RPAREN"), N("pragmacomp-or-statement")],
           build=lambda v, gx: A.While(v[2], v[4], co(v[0])), label="iteration-statement: while ( expression ) statement")
    g.prod("iteration-statement",
           [T("DO"), N("pragmacomp-or-statement"), T("WHILE"), T("LPAREN"), N("expression"), T("RPAREN"), T("SEMI")],
           build=lambda v, gx: A.DoWhile(v[4], v[1], co(v[0])), label="iteration-statement: do statement while ( expression ) ;")
    g.prod("iteration-statement",
           [T("FOR"), T("LPAREN"), N("expression-opt"), T("SEMI"), N("expression-opt"), T("SEMI"), N("expression-opt"), T("RPAREN"),
            N("pragmacomp-or-statement")],
           build=lambda v, gx: A.For(v[2], v[4], v[6], v[8], co(v[0])), label="iteration-statement: for ( expr? ; expr? ; expr? ) statement")
    g.prod("iteration-statement",
           [T("FOR"), T("LPAREN"), N("declaration"), N("expression-opt"), T("SEMI"), N("expression-opt"), T("RPAREN"),
            N("pragmacomp-or-statement")],
           build=lambda v, gx: A.For(A.DeclList(v[2], ANY_INSIDE), v[3], v[5], v[7], co(v[0])),
           label="iteration-statement: for ( declaration expr? ; expr? ) statement")

    g.nt("jump-statement", "_parse_jump_statement")
    g.prod("jump-statement", [T("GOTO"), T("ID"), T("SEMI")], build=lambda v, gx: A.Goto(v[1].value, ANY_INSIDE), label="jump-statement: goto identifier ;")
    g.nt("jump-statement[typedef-name]")
    g.prod("jump-statement[typedef-name]", [T("GOTO"), T("TYPEID"), T("SEMI")], build=lambda v, gx: A.Goto(v[1].value, ANY_INSIDE),
           label="jump-statement: goto identifier(typedef name) ;", note="typedef-reuse")
    g.prod("jump-statement", [T("CONTINUE"), T("SEMI")], build=lambda v, gx: A.Continue(co(v[0])), label="jump-statement: continue ;")
    g.prod("jump-statement", [T("BREAK"), T("SEMI")], build=lambda v, gx: A.Break(co(v[0])), label="jump-statement: break ;")
    g.prod("jump-statement", [T("RETURN"), N("expression-opt"), T("SEMI")], build=lambda v, gx: A.Return(v[1], co(v[0])),
           label="jump-statement: return expression? ;")

    # #pragma line (lexed as PPPRAGMA [PPPRAGMASTR]) and the C99 _Pragma operator: exactly one Pragma node each, verbatim
    g.nt("pragma-directive", "_parse_pppragma_directive")
    g.prod("pragma-directive", [T("PPPRAGMA")], build=lambda v, gx: A.Pragma("", co(v[0])), label="pragma: #pragma")
    g.prod("pragma-directive", [T("PPPRAGMA"), T("PPPRAGMASTR")], build=lambda v, gx: A.Pragma(v[1].value, ANY_INSIDE),
           label="pragma: #pragma text")
    g.prod("pragma-directive", [T("_PRAGMA"), T("LPAREN"), N("string-literal"), T("RPAREN")],
           build=lambda v, gx: A.Pragma(v[2], ANY_INSIDE), label="pragma: _Pragma ( string-literal )")
    g.nt("pragma-directive-list", "_parse_pppragma_directive_list", opaque=lst)
    g.prod("pragma-directive-list", [N("pragma-directive"), Star(N("pragma-directive"))], build=lambda v, gx: [v[0]] + v[1],
           label="pragma+")

    # C11 6.7.10 (the terminating ';' belongs to the declaration; pycparser's method stops before it)
    g.nt("static-assert", "_parse_static_assert", opaque=lst)
    g.prod("static-assert", [T("_STATIC_ASSERT"), T("LPAREN"), N("constant-expression"), T("COMMA"), N("string-literal"), T("RPAREN")],
           build=lambda v, gx: [A.StaticAssert(v[2], v[4], co(v[0]))], label="static_assert ( constant-expression , string-literal )")
    g.prod("static-assert", [T("_STATIC_ASSERT"), T("LPAREN"), N("constant-expression"), T("RPAREN")],
           build=lambda v, gx: [A.StaticAssert(v[2], None, co(v[0]))], label="static_assert ( constant-expression )  [C23/ext]")


def add_value_variants(g, gx):
    """Result shapes a callee's contract allows besides an opaque node (each slot is varied in turn)."""
    A = gx.c_ast
    OP = lambda m, tag="": gx.Opaque(f"{m.nt}#{m.mid}{tag}", gx.Coord("f.c", 900 + m.mid, 1))  # noqa: E731
    co = lambda m: gx.Coord("f.c", 900 + m.mid, 1)  # noqa: E731
    # a parenthesised comma expression is a primary expression whose value is an ExprList
    exprs = [lambda gx, m: OP(m), lambda gx, m: A.ExprList([OP(m, "a"), OP(m, "b")], co(m))]
    for nt in ("expression", "assignment-expression", "conditional-expression", "binary-expression", "cast-expression",
               "unary-expression", "postfix-expression", "primary-expression", "constant-expression", "initializer"):
        g.nts[nt].value_variants = exprs
    # a statement may be a braced block
    stmts = [lambda gx, m: OP(m), lambda gx, m: A.Compound([OP(m, "s")], co(m)), lambda gx, m: A.Compound(None, co(m))]
    for nt in ("statement", "pragmacomp-or-statement"):
        g.nts[nt].value_variants = stmts
    # specifier lists: plain int / typedef storage / an _Atomic(const int *) type specifier / a struct specifier
    from spec.grammar_decl import new_spec

    def spec_int(m):
        sp = new_spec()
        sp["type"] = [A.IdentifierType(["int"], co(m))]
        return sp

    def spec_typedef(m):
        sp = spec_int(m)
        sp["storage"] = ["typedef"]
        return sp

    def spec_atomic(m):
        sp = new_spec()
        sp["qual"] = ["volatile"]
        inner = A.PtrDecl(["restrict"], A.TypeDecl(None, ["const"], None, A.IdentifierType(["int"], co(m)), co(m)), co(m))
        sp["type"] = [A.Typename(None, ["const", "_Atomic"], None, inner, co(m))]
        return sp

    def spec_atomic_plain(m):
        # `_Atomic(int)`: as the real type-name parser builds it, the abstract TypeDecl inside has no coordinate
        sp = new_spec()
        sp["type"] = [A.Typename(None, ["_Atomic"], None, A.TypeDecl(None, [], None, A.IdentifierType(["int"], co(m)), None), co(m))]
        return sp

    def spec_atomic_array(m):
        # `_Atomic(int[3])` (a constraint violation in C, but the parser must not fail with anything but ParseError)
        sp = new_spec()
        arr = A.ArrayDecl(A.TypeDecl(None, [], None, A.IdentifierType(["int"], co(m)), None), A.Constant("int", "3", co(m)), [], co(m))
        sp["type"] = [A.Typename(None, ["_Atomic"], None, arr, co(m))]
        return sp

    def spec_atomic_func(m):
        # `_Atomic(int (*)(char))`: a function derivation inside the type name (every declarator gets its own copy of it)
        sp = new_spec()
        prm = A.Typename(None, [], None, A.TypeDecl(None, [], None, A.IdentifierType(["char"], co(m)), None), co(m))
        fn = A.FuncDecl(A.ParamList([prm], co(m)), A.TypeDecl(None, [], None, A.IdentifierType(["int"], co(m)), None), co(m))
        sp["type"] = [A.Typename(None, ["_Atomic"], None, A.PtrDecl([], fn, co(m)), co(m))]
        return sp

    def spec_two(m):
        sp = new_spec()
        sp["type"] = [A.IdentifierType(["unsigned"], co(m)), A.IdentifierType(["long"], co(m))]
        sp["storage"] = ["static"]
        sp["function"] = ["inline"]
        sp["alignment"] = [A.Alignas(A.Constant("int", "8", co(m)), co(m))]
        return sp
    def spec_extern(m):
        sp = spec_int(m)
        sp["storage"] = ["extern"]
        return sp
    g.nts["declaration-specifiers"].value_variants = [lambda gx, m: (spec_int(m), True, co(m)), lambda gx, m: (spec_typedef(m), True, co(m)),
                                                      lambda gx, m: (spec_atomic(m), True, co(m)), lambda gx, m: (spec_two(m), True, co(m)),
                                                      lambda gx, m: (spec_extern(m), True, co(m)),
                                                      lambda gx, m: (spec_atomic_plain(m), True, co(m)),
                                                      lambda gx, m: (spec_atomic_array(m), True, co(m)),
                                                      lambda gx, m: (spec_atomic_func(m), True, co(m))]
    # declarators: a plain name / a pointer to it (Decl.coord then differs from the coordinate of the name)
    def ptr_info(m):
        return dict(decl=A.PtrDecl(["const"], A.TypeDecl(f"d{m.mid}", None, None, None, co(m)), gx.Coord("f.c", 950 + m.mid, 1)),
                    init=None, bitsize=None)
    # K&R function definitions: an identifier-list declarator `f(kr_a, kr_b)` and a declaration list that declares the same
    # names in the OTHER order (6.9.1: the declarations stay in source order in FuncDef.param_decls)
    def kr_declarator(m):
        fd = A.FuncDecl(A.ParamList([A.ID("kr_a", co(m)), A.ID("kr_b", co(m))], co(m)), None, co(m))
        fd.type = A.TypeDecl(f"d{m.mid}", None, None, None, co(m))
        return fd

    def kr_declarations(m):
        def one(n, ty):
            return A.Decl(n, [], [], [], [], A.TypeDecl(n, [], None, A.IdentifierType([ty], co(m)), co(m)), None, None, co(m))
        return [one("kr_b", "char"), one("kr_a", "int")]
    for nt in ("declarator[id]", "declarator"):
        if nt in g.nts:
            g.nts[nt].value_variants = [g.nts[nt].opaque, lambda gx, m: kr_declarator(m)]
    g.nts["declaration-list"].value_variants = [g.nts["declaration-list"].opaque, lambda gx, m: kr_declarations(m)]
    from spec.grammar_decl import append_mods
    g.nts["declarator-suffixes"].value_variants = [
        g.nts["declarator-suffixes"].opaque,
        lambda gx, m: (lambda d: append_mods(A, d, A.FuncDecl(A.ParamList([A.ID("kr_a", co(m)), A.ID("kr_b", co(m))], co(m)), None, co(m))))]
    for nt in ("identifier-list", "identifier-list-opt"):
        if nt in g.nts:
            g.nts[nt].value_variants = [g.nts[nt].opaque, lambda gx, m: A.ParamList([A.ID("kr_a", co(m)), A.ID("kr_b", co(m))], co(m))]
    for nt in ("init-declarator", "struct-declarator"):
        g.nts[nt].value_variants = [g.nts[nt].opaque, lambda gx, m: ptr_info(m)]
    for nt in ("init-declarator-list", "struct-declarator-list"):
        g.nts[nt].value_variants = [g.nts[nt].opaque, lambda gx, m: [ptr_info(m)]]

    def params(m):
        def named(n):
            return A.Decl(n, [], [], [], [], A.TypeDecl(n, [], None, A.IdentifierType(["int"], co(m)), co(m)), None, None, co(m))
        unnamed = A.Typename(None, [], None, A.TypeDecl(None, [], None, A.IdentifierType(["int"], co(m)), co(m)), co(m))
        return A.ParamList([unnamed, named(f"p{m.mid}a"), unnamed, named(f"p{m.mid}b"), A.EllipsisParam(co(m))], co(m))
    for nt in ("parameter-type-list", "parameter-type-list-opt"):
        g.nts[nt].value_variants = [g.nts[nt].opaque, lambda gx, m: params(m)]
    def spec_align_only(m):
        sp = new_spec()
        sp["alignment"] = [A.Alignas(A.Constant("int", "8", co(m)), co(m))]
        return sp
    g.nts["specifier-qualifier-list"].value_variants = [lambda gx, m: spec_int(m), lambda gx, m: spec_atomic(m), lambda gx, m: spec_two(m),
                                                        lambda gx, m: spec_align_only(m), lambda gx, m: spec_atomic_plain(m),
                                                        lambda gx, m: spec_atomic_array(m), lambda gx, m: spec_atomic_func(m)]
