"""Reference lexical grammar: ISO/IEC 9899:1999 (C99) section 6.4, written as z3 regular
expression terms with the small combinators of pyvc.rx (lit, cls, cat, alt, star, plus,
opt, inter, comp).  Written from the standard, NOT from pycparser's regexes.

Extensions adopted because pycparser documents them (README / c_lexer.py comments):
  X1  binary integer constants        0b101, 0B11 (+ the ordinary integer suffixes)
  X2  encoding prefixes u8, u, U (in addition to C99's L) on character constants and
      string literals
  X3  '$' as an identifier character
  X4  lenient escapes (comment block "character constants" in c_lexer.py): a backslash
      followed by any one of  a-z A-Z . _ ~ ! = & ^ - \\ ? ' "   is accepted as an escape,
      and a decimal escape is a backslash followed by an arbitrary-length sequence of
      decimal digits 0-9 (subsumes C's 1-3 digit octal escapes).  (The comment also lists
      ';' and ',', which neither the brief nor the code's own "original regexes" include;
      they are NOT adopted here.)
  X5  multi-character constants contain 2 to 4 c-chars.
Everything else is the standard's grammar.  "digit" always means 0-9 (6.4.2.1).

Not encoded: the *constraints* of 6.4.3 on the value of a universal character name (only
its grammar \\uXXXX / \\UXXXXXXXX), translation phases 1-2 (trigraphs, line splicing).
"""
from __future__ import annotations

from pyvc.rx import (ANYSTAR, CS_ALL, EPS, alt, cat, cls, comp, cs_minus, cs_norm, cs_union,
                     inter, lit, opt, plus, star)
import z3


def chars(s: str):
    """character set given as a string with a-b ranges, e.g. chars('a-zA-Z_')"""
    rs, i = [], 0
    while i < len(s):
        if i + 2 < len(s) and s[i + 1] == "-":
            rs.append((ord(s[i]), ord(s[i + 2])))
            i += 3
        else:
            rs.append((ord(s[i]), ord(s[i])))
            i += 1
    return cs_norm(rs)


def times(r, n):
    return cat(*([r] * n)) if n else EPS


def anyof(*words):
    return alt(*[lit(w) for w in words])


# ---- 6.4.2.1 identifiers, 6.4.3 universal character names -----------------------------------
DIGIT_CS = chars("0-9")
NONDIGIT_CS = chars("_a-zA-Z")
HEX_CS = chars("0-9a-fA-F")
OCT_CS = chars("0-7")
digit, hexdigit, octdigit = cls(DIGIT_CS), cls(HEX_CS), cls(OCT_CS)
hex_quad = times(hexdigit, 4)
ucn = alt(cat(lit("\\u"), hex_quad), cat(lit("\\U"), hex_quad, hex_quad))
# identifier-nondigit: nondigit | universal-character-name | other implementation-defined
# characters -- the implementation-defined one is '$' (X3)
ident_nondigit_no_ucn = cls(cs_union(NONDIGIT_CS, chars("$")))
ident_nondigit = alt(ident_nondigit_no_ucn, ucn)
identifier = cat(ident_nondigit, star(alt(ident_nondigit, digit)))
identifier_no_ucn = cat(ident_nondigit_no_ucn, star(alt(ident_nondigit_no_ucn, digit)))

# ---- 6.4.4.1 integer constants -----------------------------------------------------------
unsigned_suffix = cls(chars("uU"))
long_suffix = cls(chars("lL"))
long_long_suffix = anyof("ll", "LL")  # 'lL' and 'Ll' are not suffixes
integer_suffix = alt(
    cat(unsigned_suffix, opt(long_suffix)),
    cat(unsigned_suffix, long_long_suffix),
    cat(long_suffix, opt(unsigned_suffix)),
    cat(long_long_suffix, opt(unsigned_suffix)),
)
decimal_constant = cat(cls(chars("1-9")), star(digit))
octal_constant = cat(lit("0"), star(octdigit))
hex_prefix = anyof("0x", "0X")
hexadecimal_constant = cat(hex_prefix, plus(hexdigit))
binary_constant = cat(anyof("0b", "0B"), plus(cls(chars("01"))))  # X1
INT_DEC = cat(decimal_constant, opt(integer_suffix))
INT_OCT = cat(octal_constant, opt(integer_suffix))
INT_HEX = cat(hexadecimal_constant, opt(integer_suffix))
INT_BIN = cat(binary_constant, opt(integer_suffix))

# ---- 6.4.4.2 floating constants -----------------------------------------------------------
sign = cls(chars("+-"))
digit_sequence = plus(digit)
hex_digit_sequence = plus(hexdigit)
floating_suffix = cls(chars("flFL"))
exponent_part = cat(cls(chars("eE")), opt(sign), digit_sequence)
binary_exponent_part = cat(cls(chars("pP")), opt(sign), digit_sequence)
fractional_constant = alt(cat(opt(digit_sequence), lit("."), digit_sequence),
                          cat(digit_sequence, lit(".")))
hex_fractional_constant = alt(cat(opt(hex_digit_sequence), lit("."), hex_digit_sequence),
                              cat(hex_digit_sequence, lit(".")))
FLOAT_DEC = alt(cat(fractional_constant, opt(exponent_part), opt(floating_suffix)),
                cat(digit_sequence, exponent_part, opt(floating_suffix)))
# the binary exponent is NOT optional in a hexadecimal floating constant
FLOAT_HEX = cat(hex_prefix, alt(hex_fractional_constant, hex_digit_sequence),
                binary_exponent_part, opt(floating_suffix))

# ---- 6.4.4.4 character constants, 6.4.5 string literals ------------------------------------
QUOTE, DQUOTE, BSL, NL = ord("'"), ord('"'), ord("\\"), ord("\n")
PUNCT_ESC_CS = cs_norm([(ord(c), ord(c)) for c in "._~!=&^-\\?'\""])  # X4 (includes C's \' \" \? \\)
LENIENT_ESC_CS = cs_union(chars("a-zA-Z"), PUNCT_ESC_CS)  # includes C's \a \b \f \n \r \t \v
bsl = lit("\\")


def _excluding(cs, s):
    return cs_minus(cs, cs_norm([(ord(c), ord(c)) for c in s]))


# One "c-char"/"s-char" is a plain character or an escape sequence.  6.4.4.4p7: an octal or
# hexadecimal escape is the LONGEST sequence that can constitute it; the same reading is
# applied to the lenient decimal escape, to '\x' without digits and to '\u'/'\U' that do not
# start a universal character name.  Each item is (language, what must NOT follow or None).
ESCAPES = [
    (cat(bsl, cls(_excluding(LENIENT_ESC_CS, "xuU"))), None),  # simple + lenient letters
    (lit("\\x"), hexdigit),                                    # lenient \x, no hex digit next
    (lit("\\u"), hex_quad),                                    # lenient \u, not a UCN
    (lit("\\U"), cat(hex_quad, hex_quad)),                     # lenient \U, not a UCN
    (cat(bsl, plus(digit)), digit),                            # octal / lenient decimal escape
    (cat(lit("\\x"), plus(hexdigit)), hexdigit),               # hexadecimal escape
    (ucn, None),                                               # universal character name
]
escape_sequence = alt(*[e for e, _ in ESCAPES])


def _items(delim: int):
    plain = cls(cs_minus(CS_ALL, cs_norm([(delim, delim), (BSL, BSL), (NL, NL)])))
    return [(plain, None)] + ESCAPES


def seq_then(items, n: int, tail):
    """exactly n items (longest-escape reading), followed by `tail`"""
    if n == 0:
        return tail
    rest = seq_then(items, n - 1, tail)
    return alt(*[cat(e, rest if nf is None else inter(rest, comp(cat(nf, ANYSTAR))))
                 for e, nf in items])


C_ITEMS, S_ITEMS = _items(QUOTE), _items(DQUOTE)
c_char = alt(*[e for e, _ in C_ITEMS])
s_char = alt(*[e for e, _ in S_ITEMS])
q, dq = lit("'"), lit('"')
CHAR1 = cat(q, seq_then(C_ITEMS, 1, q))                              # one c-char
CHARN = cat(q, alt(*[seq_then(C_ITEMS, n, q) for n in (2, 3, 4)]))   # X5: 2..4 c-chars
STRING = cat(dq, star(s_char), dq)
ENC_PREFIX = {"W": "L", "U8": "u8", "U16": "u", "U32": "U"}          # C99: L; X2: u8 u U

# ---- reference language of every literal token type of pycparser ---------------------------
REF = {
    "INT_CONST_DEC": INT_DEC, "INT_CONST_OCT": INT_OCT, "INT_CONST_HEX": INT_HEX,
    "INT_CONST_BIN": INT_BIN, "FLOAT_CONST": FLOAT_DEC, "HEX_FLOAT_CONST": FLOAT_HEX,
    "CHAR_CONST": CHAR1, "INT_CONST_CHAR": CHARN, "STRING_LITERAL": STRING,
    "ID": identifier,
}
for _k, _p in ENC_PREFIX.items():
    REF[_k + "CHAR_CONST"] = cat(lit(_p), CHAR1)
    REF[_k + "STRING_LITERAL"] = cat(lit(_p), STRING)
# every reference token is a single-line token
REF_NOTE = {"ID": "includes universal character names (6.4.2.1); identifier_no_ucn is the "
                  "sub-language without them"}

# ---- malformed literals that must be REPORTED (C10 error coverage) --------------------------
# Each is a language of whole remaining texts (the malformed prefix, then anything).
_esc_ok_cs = cs_union(LENIENT_ESC_CS, DIGIT_CS)
_bad_esc = cat(bsl, cls(cs_minus(CS_ALL, cs_union(_esc_ok_cs, ((NL, NL),)))))
_any_bsl_pair = cat(bsl, cls(cs_minus(CS_ALL, ((NL, NL),))))


def _line_body(delim: int):
    return alt(cls(cs_minus(CS_ALL, cs_norm([(delim, delim), (BSL, BSL), (NL, NL)]))), _any_bsl_pair)


BAD = {
    # a digit 8/9 in what starts as an octal constant and is not the start of a (decimal)
    # floating constant such as 08.5 or 09e1
    "octal-digit-8-9": inter(cat(lit("0"), star(octdigit), cls(chars("89")), ANYSTAR),
                             comp(cat(FLOAT_DEC, ANYSTAR))),
    "empty-char-constant": cat(lit("''"), ANYSTAR),
    # ' c-char* and then the line (or the text) ends
    "unterminated-char-constant": cat(q, star(c_char), alt(EPS, cat(lit("\n"), ANYSTAR))),
    # a closed '...' on one line that contains a backslash followed by a non-escape character
    "invalid-escape-in-char-constant": cat(q, star(_line_body(QUOTE)), _bad_esc,
                                           star(_line_body(QUOTE)), q, ANYSTAR),
    "invalid-escape-in-string": cat(dq, star(_line_body(DQUOTE)), _bad_esc,
                                    star(_line_body(DQUOTE)), dq, ANYSTAR),
    "c-comment": cat(lit("/*"), ANYSTAR),
    "cxx-comment": cat(lit("//"), ANYSTAR),
}

# Malformed literals that must be reported AS A WHOLE (one error for the entire literal, up to its real closing quote,
# not an error for a prefix and ordinary tokens / further errors for the rest): a one-line string literal with at
# least one invalid escape; an escaped quote (backslash-quote) does not close it.
BAD_WHOLE = {
    "invalid-escape-in-string": cat(dq, star(_line_body(DQUOTE)), _bad_esc, star(_line_body(DQUOTE)), dq),
}

# ---- 6.4.6 punctuators, 6.4.1 keywords -------------------------------------------------------
PUNCTUATORS_C99 = (
    "[ ] ( ) { } . -> ++ -- & * + - ~ ! / % << >> < > <= >= == != ^ | && || ? : ; ... "
    "= *= /= %= += -= <<= >>= &= ^= |= , # ## <: :> <% %> %: %:%:"
).split()
DIGRAPHS = ["<:", ":>", "<%", "%>", "%:", "%:%:"]
PP_ONLY = ["#", "##"]  # '#' is produced by the lexer's directive code (PPHASH), not a fixed token
PUNCTUATORS_EXPECTED = [p for p in PUNCTUATORS_C99 if p not in DIGRAPHS and p not in PP_ONLY]

KEYWORDS_C99 = (
    "auto break case char const continue default do double else enum extern float for goto "
    "if inline int long register restrict return short signed sizeof static struct switch "
    "typedef union unsigned void volatile while _Bool _Complex _Imaginary"
).split()
KEYWORDS_C99_UNSUPPORTED = ["_Imaginary"]  # pycparser does not support it (noted, not claimed)
KEYWORDS_C11_DOCUMENTED = ["_Alignas", "_Alignof", "_Atomic", "_Noreturn", "_Static_assert",
                           "_Thread_local"]
KEYWORDS_EXTRA_DOCUMENTED = ["_Pragma", "__int128", "offsetof"]
KEYWORDS_EXPECTED = ([k for k in KEYWORDS_C99 if k not in KEYWORDS_C99_UNSUPPORTED]
                     + KEYWORDS_C11_DOCUMENTED + KEYWORDS_EXTRA_DOCUMENTED)
