"""Reference grammar, part 2: ISO/IEC 9899:1999 A.2.2 declarations, A.2.4 external definitions, plus the
C11 productions named by the properties (_Atomic, _Alignas, _Static_assert, _Noreturn, _Thread_local,
anonymous members) and pycparser's documented extras (#pragma items, stray ';', empty struct braces, __int128).

Semantic side (property C03): a declarator denotes (name, mods) where mods lists the derivations from the
identifier outwards (6.7.5): mods(id)=[], mods((D))=mods(D), mods(D[..])=mods(D)+[array], mods(D(..))=mods(D)+[function],
mods(* q D)=mods(D)+[pointer q].  The AST chain is the mods in that order ending in the TypeDecl that carries the name.
"""
from pyvc.gx import ANY_INSIDE, ANY_INSIDE_OR_NONE, Grammar, N, Opt, Star, T

STORAGE = {"auto": "AUTO", "register": "REGISTER", "static": "STATIC", "extern": "EXTERN", "typedef": "TYPEDEF",
           "_Thread_local": "_THREAD_LOCAL"}
QUALIFIERS = {"const": "CONST", "restrict": "RESTRICT", "volatile": "VOLATILE", "_Atomic": "_ATOMIC"}
FUNCSPEC = {"inline": "INLINE", "_Noreturn": "_NORETURN"}
SIMPLE_TYPES = {"void": "VOID", "char": "CHAR", "short": "SHORT", "int": "INT", "long": "LONG", "float": "FLOAT",
                "double": "DOUBLE", "signed": "SIGNED", "unsigned": "UNSIGNED", "_Bool": "_BOOL", "_Complex": "_COMPLEX",
                "__int128": "__INT128"}


# ---------------------------------------------------------------- declarator semantics (6.7.5)
def decompose(A, chain):
    mods = []
    n = chain
    while not isinstance(n, A.TypeDecl):
        mods.append(n)
        n = n.type
    return n, mods


def compose(td, mods):
    chain = td
    for m in reversed(mods):
        m.type = chain
        chain = m
    return chain


def append_mods(A, decl, modifier):
    """mods(result) = mods(decl) ++ mods(modifier); modifier is a chain whose tail has type None."""
    td, mods = decompose(A, decl)
    extra = []
    n = modifier
    while n is not None:
        extra.append(n)
        n = n.type
    return compose(td, mods + extra)


def pointer_chain(A, gx, stars):
    """`* q1 * q2` declares 'q2 pointer to q1 pointer to': outermost (nearest the name) is the LAST star."""
    ptr = None
    for star_tok, quals in stars:
        ptr = A.PtrDecl(quals, ptr, gx.Coord("f.c", star_tok.lineno, star_tok.column))
    return ptr


def new_spec():
    return dict(qual=[], storage=[], type=[], function=[], alignment=[])


def collect_spec(items):
    spec = new_spec()
    for kind, val in items:
        spec[kind].append(val)
    return spec


def base_type(A, gx, types, decl_coord, is_func):
    """The base type 'exactly as spelled': the single struct/union/enum/atomic specifier, or one IdentifierType with
    all the names in order; no specifier at all means int for functions (C89 style, accepted by pycparser)."""
    non_id = [t for t in types if not isinstance(t, A.IdentifierType)]
    if non_id:
        return non_id[0]
    if not types:
        return A.IdentifierType(["int"], ANY_INSIDE)
    return A.IdentifierType([n for t in types for n in t.names], ANY_INSIDE)


def _copy_chain(A, n):
    import copy as _copy

    c = _copy.copy(n)
    if getattr(c, "quals", None) is not None:
        c.quals = list(c.quals)
    if not isinstance(n, A.TypeDecl) and getattr(n, "type", None) is not None:
        c.type = _copy_chain(A, n.type)
    return c


def atomic_normalise(A, decl):
    """_Atomic(T) means the same as the _Atomic-qualified T: remove the Typename wrapper(s) in the chain and put
    '_Atomic' into the quals of that level (and of the declaration when it is the top level)."""
    changed = True
    fixed_any = False
    while changed:
        changed = False
        parent, node = decl, decl.type
        grand = None
        while node is not None and hasattr(node, "type"):
            if isinstance(node, A.Typename) and "_Atomic" in node.quals:
                # the type name inside _Atomic(...) is part of the SPECIFIERS, which apply to every declarator separately:
                # each declared entity gets its own nodes for the derivations it contributes (C03), the base type is shared
                inner = _copy_chain(A, node.type)
                # array and function derivations carry no qualifiers: the qualifier goes to the element / return type (6.7.3p9)
                q = inner
                while not hasattr(q, "quals") and hasattr(q, "type"):
                    q = q.type
                if hasattr(q, "quals"):
                    if q.quals is None:
                        q.quals = []
                    # qualifiers written next to the specifier (`const _Atomic(int) x`, `_Atomic(int *) const p`) qualify the same
                    # level as _Atomic: the type specified by the specifiers as a whole (6.7.3)
                    for ql in list(getattr(parent, "quals", None) or []) + ["_Atomic"]:
                        if ql not in q.quals:
                            q.quals.append(ql)
                if getattr(inner, "coord", None) is None:
                    # the node that now carries the declared name stands at the token that spells the name (C11): that is
                    # where the dropped wrapper TypeDecl stood
                    # (an abstract declarator has no name token: no coordinate is fine there)
                    inner.coord = parent.coord if isinstance(parent, A.TypeDecl) and parent.coord is not None else ANY_INSIDE_OR_NONE
                grand.type = inner
                changed = True
                fixed_any = True
                break
            grand, parent, node = parent, node, node.type
    td = decl
    while not isinstance(td, A.TypeDecl):
        if not hasattr(td, "type"):
            return decl
        td = td.type
    if fixed_any:
        # the qualifiers recorded on the declaration are those of its base type (as for `const int *p`); a qualifier that
        # went to a pointer level (`const _Atomic(int *) p` = `int * const _Atomic p`) is not among them
        decl.quals = list(td.quals or [])
    elif "_Atomic" in (td.quals or []) and "_Atomic" not in decl.quals:
        decl.quals.append("_Atomic")
    if td.declname is None:
        td.declname = decl.name
    return decl


def mk_declarations(A, gx, spec, infos):
    """One Decl/Typedef per declarator, in order, each carrying the shared specifiers and its own init/bitsize."""
    out = []
    is_typedef = "typedef" in spec["storage"]
    for info in infos:
        d = info["decl"]
        if isinstance(d, (A.Struct, A.Union, A.Enum, A.IdentifierType)):
            node = A.Decl(None, spec["qual"], spec["alignment"], spec["storage"], spec["function"], d, info.get("init"),
                          info.get("bitsize"), ANY_INSIDE)
            out.append(node)
            continue
        td, mods = decompose(A, d)
        td.quals = list(spec["qual"])
        td.type = base_type(A, gx, spec["type"], None, bool(mods) and isinstance(mods[0], A.FuncDecl))
        if is_typedef:
            node = A.Typedef(td.declname, spec["qual"], spec["storage"], d, ANY_INSIDE)
        else:
            node = A.Decl(td.declname, spec["qual"], spec["alignment"], spec["storage"], spec["function"], d,
                          info.get("init"), info.get("bitsize"), ANY_INSIDE)
        out.append(atomic_normalise(A, node))
    return out


def mk_typename(A, gx, spec, decl):
    d = decl if decl is not None else A.TypeDecl(None, None, None, None)
    td, mods = decompose(A, d)
    td.quals = list(spec["qual"])
    td.type = base_type(A, gx, spec["type"], None, False)
    # _Atomic(T) means the _Atomic-qualified T in a type name exactly as in a declaration
    return atomic_normalise(A, A.Typename(None, list(spec["qual"]), None, d, ANY_INSIDE if (decl is not None or spec["type"]) else None))


def make_declaration_grammar(g: Grammar, gx):
    A = gx.c_ast
    co = lambda tok: gx.Coord("f.c", tok.lineno, tok.column)  # noqa: E731
    OP = lambda m: gx.Opaque(f"{m.nt}#{m.mid}", gx.Coord("f.c", 900 + m.mid, 1))  # noqa: E731
    mcoord = lambda m: gx.Coord("f.c", 900 + m.mid, 1)  # noqa: E731

    def int_spec(m):
        s = new_spec()
        s["type"] = [A.IdentifierType(["int"], mcoord(m))]
        return s

    def plain_decl(m, named=True):
        return A.TypeDecl(f"d{m.mid}" if named else None, None, None, None, mcoord(m))

    # ------------------------------------------------------------ specifiers (6.7.1-6.7.5)
    g.nt("decl-spec-nontype")
    for sp, tt in STORAGE.items():
        g.prod("decl-spec-nontype", [T(tt, sp)], build=lambda v, gx: ("storage", v[0].value), label=f"storage-class-specifier: {sp}")
    for sp, tt in QUALIFIERS.items():
        g.prod("decl-spec-nontype", [T(tt, sp)], build=lambda v, gx: ("qual", v[0].value), label=f"type-qualifier: {sp}",
               no_follow=["LPAREN"] if sp == "_Atomic" else ())
    for sp, tt in FUNCSPEC.items():
        g.prod("decl-spec-nontype", [T(tt, sp)], build=lambda v, gx: ("function", v[0].value), label=f"function-specifier: {sp}")
    g.prod("decl-spec-nontype", [N("alignment-specifier")], build=lambda v, gx: ("alignment", v[0]), label="alignment-specifier")
    g.nt("spec-qual-nontype")
    for sp, tt in QUALIFIERS.items():
        g.prod("spec-qual-nontype", [T(tt, sp)], build=lambda v, gx: ("qual", v[0].value), label=f"type-qualifier: {sp}")
    g.prod("spec-qual-nontype", [N("alignment-specifier")], build=lambda v, gx: ("alignment", v[0]), label="alignment-specifier")

    g.nt("type-specifier")  # every type specifier except a typedef name
    for sp, tt in SIMPLE_TYPES.items():
        g.prod("type-specifier", [T(tt, sp)], build=lambda v, gx: ("type", A.IdentifierType([v[0].value], co(v[0]))),
               label=f"type-specifier: {sp}")
    g.prod("type-specifier", [N("struct-or-union-specifier")], build=lambda v, gx: ("type", v[0]), label="type-specifier: struct-or-union-specifier")
    g.prod("type-specifier", [N("enum-specifier")], build=lambda v, gx: ("type", v[0]), label="type-specifier: enum-specifier")
    g.prod("type-specifier", [N("atomic-type-specifier")], build=lambda v, gx: ("type", v[0]), label="type-specifier: atomic-type-specifier (C11)")
    g.nt("decl-spec-any")
    g.prod("decl-spec-any", [N("decl-spec-nontype")], build=lambda v, gx: v[0], label="declaration-specifier: non-type")
    g.prod("decl-spec-any", [N("type-specifier")], build=lambda v, gx: v[0], label="declaration-specifier: type-specifier")
    g.nt("spec-qual-any")
    g.prod("spec-qual-any", [N("spec-qual-nontype")], build=lambda v, gx: v[0], label="specifier-qualifier: non-type")
    g.prod("spec-qual-any", [N("type-specifier")], build=lambda v, gx: v[0], label="specifier-qualifier: type-specifier")

    def first_coord(items_tokens):
        return ANY_INSIDE

    # 6.7 declaration-specifiers; a typedef name is a type specifier only when no other type specifier is present (6.7.2p2)
    g.nt("declaration-specifiers", "_parse_declaration_specifiers",
         opaque=lambda gx, m: (int_spec(m), True, mcoord(m)))
    g.prod("declaration-specifiers", [Star(N("decl-spec-nontype"), max=1), N("type-specifier"), Star(N("decl-spec-any"), max=1)],
           build=lambda v, gx: (collect_spec(v[0] + [v[1]] + v[2]), True, ANY_INSIDE),
           label="declaration-specifiers: with type specifiers")
    g.prod("declaration-specifiers", [Star(N("decl-spec-nontype"), max=1), T("TYPEID"), Star(N("decl-spec-nontype"), max=1)],
           build=lambda v, gx: (collect_spec(v[0] + [("type", A.IdentifierType([v[1].value], co(v[1])))] + v[2]), True, ANY_INSIDE),
           label="declaration-specifiers: with a typedef name")
    g.nt("specifier-qualifier-list", "_parse_specifier_qualifier_list", opaque=lambda gx, m: int_spec(m))
    g.prod("specifier-qualifier-list", [Star(N("spec-qual-nontype"), max=1), N("type-specifier"), Star(N("spec-qual-any"), max=1)],
           build=lambda v, gx: collect_spec(v[0] + [v[1]] + v[2]), label="specifier-qualifier-list: with type specifiers")
    g.prod("specifier-qualifier-list", [Star(N("spec-qual-nontype"), max=1), T("TYPEID"), Star(N("spec-qual-nontype"), max=1)],
           build=lambda v, gx: collect_spec(v[0] + [("type", A.IdentifierType([v[1].value], co(v[1])))] + v[2]),
           label="specifier-qualifier-list: with a typedef name")
    # the parser's method returns the (possibly empty) list of qualifiers: type-qualifier-list?
    g.nt("type-qualifier-list", "_parse_type_qualifier_list", opaque=lambda gx, m: ["const"])
    g.prod("type-qualifier-list", [Star(N("type-qualifier"))], build=lambda v, gx: v[0], label="type-qualifier-list?: type-qualifier*")
    g.nt("type-qualifier")
    for sp, tt in QUALIFIERS.items():
        g.prod("type-qualifier", [T(tt, sp)], build=lambda v, gx: v[0].value, label=f"type-qualifier: {sp}")

    g.nt("alignment-specifier", "_parse_alignment_specifier")
    g.prod("alignment-specifier", [T("_ALIGNAS"), T("LPAREN"), N("type-name"), T("RPAREN")],
           build=lambda v, gx: A.Alignas(v[2], co(v[0])), label="alignment-specifier: _Alignas ( type-name )")
    g.prod("alignment-specifier", [T("_ALIGNAS"), T("LPAREN"), N("constant-expression"), T("RPAREN")],
           build=lambda v, gx: A.Alignas(v[2], co(v[0])), label="alignment-specifier: _Alignas ( constant-expression )")

    def atomic_of(tn):
        tn.quals.append("_Atomic")
        return tn
    g.nt("atomic-type-specifier", "_parse_atomic_specifier")
    g.prod("atomic-type-specifier", [T("_ATOMIC"), T("LPAREN"), N("type-name"), T("RPAREN")],
           build=lambda v, gx: atomic_of(v[2]), label="atomic-type-specifier: _Atomic ( type-name )")

    # ------------------------------------------------------------ struct / union / enum (6.7.2.1, 6.7.2.2)
    for kw, tt, cls in (("struct", "STRUCT", "Struct"), ("union", "UNION", "Union")):
        K = getattr(A, cls)
        if "struct-or-union-specifier" not in g.nts:
            g.nt("struct-or-union-specifier", "_parse_struct_or_union_specifier")
        for idt in ("ID", "TYPEID"):  # tags have their own name space (6.2.3): a typedef name may be a tag
            g.prod("struct-or-union-specifier", [T(tt, kw), T(idt)], build=lambda v, gx, K=K: K(v[1].value, None, ANY_INSIDE),
                   label=f"{kw} identifier({idt})")
            g.prod("struct-or-union-specifier", [T(tt, kw), T(idt), T("LBRACE"), N("struct-declaration-list"), T("RBRACE")],
                   build=lambda v, gx, K=K: K(v[1].value, v[3], ANY_INSIDE), label=f"{kw} identifier({idt}) {{ struct-declaration-list }}")
        g.prod("struct-or-union-specifier", [T(tt, kw), T("LBRACE"), N("struct-declaration-list"), T("RBRACE")],
               build=lambda v, gx, K=K: K(None, v[2], ANY_INSIDE), label=f"{kw} {{ struct-declaration-list }}")
        g.prod("struct-or-union-specifier", [T(tt, kw), Opt(T("ID")), T("LBRACE"), T("RBRACE")],
               build=lambda v, gx, K=K: K(v[1].value if v[1] else None, [], ANY_INSIDE), label=f"{kw} identifier? {{ }}  [extension: empty member list]")
    g.nt("struct-declaration-list", "_parse_struct_declaration_list", opaque=lambda gx, m: [OP(m)])
    g.prod("struct-declaration-list", [N("struct-declaration"), Star(N("struct-declaration"))],
           build=lambda v, gx: [d for item in [v[0]] + v[1] if item is not None for d in item],
           label="struct-declaration-list: struct-declaration+")
    g.nt("struct-declaration", "_parse_struct_declaration", opaque=lambda gx, m: [OP(m)])
    g.prod("struct-declaration", [N("specifier-qualifier-list"), N("struct-declarator-list"), T("SEMI")],
           build=lambda v, gx: mk_declarations(A, gx, v[0], v[1]), label="struct-declaration: specifier-qualifier-list struct-declarator-list ;")
    # C11 6.7.2.1p13: a member declaration without declarator is allowed only for an anonymous struct/union
    def struct_only_spec(m):
        sp = new_spec()
        sp["type"] = [A.Struct(None, [OP(m)], mcoord(m))]
        return sp
    g.nt("anon-member-specifiers", opaque=lambda gx, m: struct_only_spec(m))
    g.accepts["_parse_specifier_qualifier_list"].add("anon-member-specifiers")
    g.prod("anon-member-specifiers", [Star(N("spec-qual-nontype"), max=1), N("struct-or-union-specifier"), Star(N("spec-qual-nontype"), max=1)],
           build=lambda v, gx: collect_spec(v[0] + [("type", v[1])] + v[2]), label="specifier-qualifier-list of an anonymous member")
    g.prod("struct-declaration", [N("anon-member-specifiers"), T("SEMI")],
           build=lambda v, gx: mk_declarations(A, gx, v[0], [dict(decl=v[0]["type"][0], init=None, bitsize=None)]),
           label="struct-declaration: struct-or-union-specifier ;  (C11 anonymous struct/union member)", note="anonymous")
    # not valid C in general (constraint 6.7.2.1p2), but the parser must still not fail with anything but ParseError
    g.prod("struct-declaration", [N("specifier-qualifier-list"), T("SEMI")], build=None,
           label="struct-declaration: specifier-qualifier-list ;  [superset of C: any specifier list without declarator]", note="superset")
    # its terminating ';' is the stray-semicolon item below (same language; no node for the semicolon)
    g.prod("struct-declaration", [N("static-assert")], build=lambda v, gx: v[0],
           label="struct-declaration: static_assert-declaration (C11 6.7.2.1)")
    g.prod("struct-declaration", [N("pragma-directive")], build=lambda v, gx: [v[0]], label="struct-declaration: pragma [extension]")
    g.prod("struct-declaration", [T("SEMI")], build=lambda v, gx: None, label="struct-declaration: ;  [extension: stray semicolon]")
    infos = lambda gx, m: [dict(decl=plain_decl(m), init=None, bitsize=None)]  # noqa: E731
    g.nt("struct-declarator-list", "_parse_struct_declarator_list", opaque=infos)
    g.prod("struct-declarator-list", [N("struct-declarator"), Star(T("COMMA"), N("struct-declarator"))],
           build=lambda v, gx: [v[0]] + [r[1] for r in v[1]], label="struct-declarator-list")
    g.nt("struct-declarator", "_parse_struct_declarator", opaque=lambda gx, m: dict(decl=plain_decl(m), init=None, bitsize=None))
    g.prod("struct-declarator", [N("declarator")], build=lambda v, gx: dict(decl=v[0], init=None, bitsize=None), label="struct-declarator: declarator")
    g.prod("struct-declarator", [N("declarator"), T("COLON"), N("constant-expression")],
           build=lambda v, gx: dict(decl=v[0], init=None, bitsize=v[2]), label="struct-declarator: declarator : constant-expression")
    g.prod("struct-declarator", [T("COLON"), N("constant-expression")],
           build=lambda v, gx: dict(decl=A.TypeDecl(None, None, None, None, ANY_INSIDE), init=None, bitsize=v[1]), label="struct-declarator: : constant-expression")

    g.nt("enum-specifier", "_parse_enum_specifier")
    for idt in ("ID", "TYPEID"):
        g.prod("enum-specifier", [T("ENUM"), T(idt)], build=lambda v, gx: A.Enum(v[1].value, None, ANY_INSIDE), label=f"enum identifier({idt})")
        g.prod("enum-specifier", [T("ENUM"), T(idt), T("LBRACE"), N("enumerator-list"), T("RBRACE")],
               build=lambda v, gx: A.Enum(v[1].value, v[3], ANY_INSIDE), label=f"enum identifier({idt}) {{ enumerator-list ,? }}")
    g.prod("enum-specifier", [T("ENUM"), T("LBRACE"), N("enumerator-list"), T("RBRACE")],
           build=lambda v, gx: A.Enum(None, v[2], ANY_INSIDE), label="enum { enumerator-list ,? }")
    g.nt("enumerator-list", "_parse_enumerator_list", opaque=lambda gx, m: A.EnumeratorList([A.Enumerator(f"e{m.mid}", None, mcoord(m))], mcoord(m)))
    g.prod("enumerator-list", [N("enumerator"), Star(T("COMMA"), N("enumerator")), Opt(T("COMMA"))],
           build=lambda v, gx: A.EnumeratorList([v[0]] + [r[1] for r in v[1]], ANY_INSIDE), label="enumerator-list: enumerator (, enumerator)* ,?")
    g.nt("enumerator", "_parse_enumerator", opaque=lambda gx, m: A.Enumerator(f"e{m.mid}", None, mcoord(m)))
    # 6.2.1/6.2.3: an inner scope may declare an enumerator whose spelling is a typedef name of an outer scope
    g.nt("enumerator[typedef-name]")
    g.prod("enumerator[typedef-name]", [T("TYPEID"), Opt(T("EQUALS"), N("constant-expression"))],
           build=lambda v, gx: A.Enumerator(v[0].value, v[1][1] if v[1] else None, co(v[0])),
           label="enumerator: enumeration-constant spelled like a visible typedef name", note="typedef-reuse")
    g.prod("enumerator", [T("ID"), Opt(T("EQUALS"), N("constant-expression"))],
           build=lambda v, gx: A.Enumerator(v[0].value, v[1][1] if v[1] else None, co(v[0])), label="enumerator: enumeration-constant (= constant-expression)?")

    # ------------------------------------------------------------ declarators (6.7.5)
    def dd(kindlabel, idts, paren):
        name = f"declarator[{kindlabel}]"
        dname = f"direct-declarator[{kindlabel}]"
        return name, dname

    KINDS = {"id": (["ID"], True), "typeid": (["TYPEID"], True), "typeid-noparen": (["TYPEID"], False)}
    for kind, (idts, paren) in KINDS.items():
        dn, ddn = f"declarator[{kind}]", f"direct-declarator[{kind}]"
        inner = "declarator[typeid]" if kind == "typeid-noparen" else dn
        g.nt(dn, opaque=lambda gx, m: plain_decl(m))
        g.prod(dn, [Opt(N("pointer")), N(ddn)],
               build=lambda v, gx: append_mods(A, v[1], v[0]) if v[0] is not None else v[1], label=f"{dn}: pointer? direct-declarator")
        g.nt(ddn, opaque=lambda gx, m: plain_decl(m))
        for idt in idts:
            g.prod(ddn, [T(idt), N("declarator-suffixes")],
                   build=lambda v, gx: v[1](A.TypeDecl(v[0].value, None, None, None, co(v[0]))), label=f"{ddn}: identifier({idt}) suffix*")
        if paren:
            g.prod(ddn, [T("LPAREN"), N(dn), T("RPAREN"), N("declarator-suffixes")],
                   build=lambda v, gx: v[3](v[1]), label=f"{ddn}: ( declarator ) suffix*")
    g.nt("declarator", "_parse_declarator", opaque=lambda gx, m: plain_decl(m))
    g.prod("declarator", [N("declarator[id]")], build=lambda v, gx: v[0], label="declarator (declares an ordinary identifier)")
    g.prod("declarator", [N("declarator[typeid]")], build=lambda v, gx: v[0], label="declarator (re-declares a visible typedef name)")

    def apply_suffixes(sufs):
        def f(decl):
            for s in sufs:
                decl = append_mods(A, decl, s(None))
            return decl
        return f
    # value: function from the declarator built so far to the declarator with the suffixes appended, in source order
    g.nt("declarator-suffixes", "_parse_decl_suffixes", opaque=lambda gx, m: (lambda d: d), args={"apply": True})
    g.prod("declarator-suffixes", [Star(N("declarator-suffix"))], build=lambda v, gx: apply_suffixes(v[0]), label="(array-declarator | function-declarator)*")
    arr = lambda dim, quals: (lambda base_type=None, coord=None: A.ArrayDecl(base_type, dim, quals, ANY_INSIDE))  # noqa: E731
    g.nt("declarator-suffix", opaque=lambda gx, m: arr(None, []))
    g.nt("array-suffix", "_parse_array_decl_common", opaque=lambda gx, m: arr(None, []))
    g.prod("declarator-suffix", [N("array-suffix")], build=lambda v, gx: v[0], label="suffix: array-declarator")
    g.prod("declarator-suffix", [N("function-suffix")], build=lambda v, gx: v[0], label="suffix: function-declarator")
    g.prod("array-suffix", [T("LBRACKET"), N("type-qualifier-list"), Opt(N("assignment-expression")), T("RBRACKET")],
           build=lambda v, gx: arr(v[2], v[1] or []), label="[ type-qualifier-list? assignment-expression? ]")
    g.prod("array-suffix", [T("LBRACKET"), T("STATIC"), N("type-qualifier-list"), N("assignment-expression"), T("RBRACKET")],
           build=lambda v, gx: arr(v[3], ["static"] + (v[2] or [])), label="[ static type-qualifier-list? assignment-expression ]")
    g.nt("type-qualifier-list1", opaque=lambda gx, m: ["const"])
    g.accepts["_parse_type_qualifier_list"].add("type-qualifier-list1")
    g.prod("type-qualifier-list1", [N("type-qualifier"), Star(N("type-qualifier"))], build=lambda v, gx: [v[0]] + v[1], label="type-qualifier-list: type-qualifier+")
    g.prod("array-suffix", [T("LBRACKET"), N("type-qualifier-list1"), T("STATIC"), N("assignment-expression"), T("RBRACKET")],
           build=lambda v, gx: arr(v[3], v[1] + ["static"]), label="[ type-qualifier-list static assignment-expression ]", note="needs-qualifier")
    g.prod("array-suffix", [T("LBRACKET"), N("type-qualifier-list"), T("TIMES"), T("RBRACKET")],
           build=lambda v, gx: arr(A.ID("*", co(v[2])), v[1] or []), label="[ type-qualifier-list? * ]")
    fun = lambda args: (lambda base_decl=None: A.FuncDecl(args, None, ANY_INSIDE))  # noqa: E731
    g.nt("function-suffix", "_parse_function_decl", opaque=lambda gx, m: fun(None), args={"apply": True})
    g.prod("function-suffix", [T("LPAREN"), N("parameter-type-list"), T("RPAREN")], build=lambda v, gx: fun(v[1]), label="( parameter-type-list )")
    g.prod("function-suffix", [T("LPAREN"), N("identifier-list-opt"), T("RPAREN")], build=lambda v, gx: fun(v[1]), label="( identifier-list? )")

    g.nt("pointer", "_parse_pointer", opaque=lambda gx, m: A.PtrDecl([], None, mcoord(m)))
    g.prod("pointer", [T("TIMES"), N("type-qualifier-list"), Star(T("TIMES"), N("type-qualifier-list"))],
           build=lambda v, gx: pointer_chain(A, gx, [(v[0], v[1] or [])] + [(r[0], r[1] or []) for r in v[2]]),
           label="pointer: (* type-qualifier-list?)+")

    g.nt("parameter-type-list", "_parse_parameter_type_list", opaque=lambda gx, m: A.ParamList([OP(m)], mcoord(m)))
    g.prod("parameter-type-list", [N("parameter-list"), Opt(T("COMMA"), T("ELLIPSIS"))],
           build=lambda v, gx: (v[0].params.append(A.EllipsisParam(co(v[1][1]))) or v[0]) if v[1] else v[0],
           label="parameter-type-list: parameter-list (, ...)?")
    g.nt("parameter-type-list-opt", "_parse_parameter_type_list_opt", opaque=lambda gx, m: A.ParamList([OP(m)], mcoord(m)))
    g.prod("parameter-type-list-opt", [], build=lambda v, gx: None, label="parameter-type-list-opt: empty")
    g.prod("parameter-type-list-opt", [N("parameter-type-list")], build=lambda v, gx: v[0], label="parameter-type-list-opt: parameter-type-list")
    g.nt("parameter-list", "_parse_parameter_list", opaque=lambda gx, m: A.ParamList([OP(m)], mcoord(m)))
    g.prod("parameter-list", [N("parameter-declaration"), Star(T("COMMA"), N("parameter-declaration"))],
           build=lambda v, gx: A.ParamList([v[0]] + [r[1] for r in v[1]], ANY_INSIDE), label="parameter-list",
           no_follow=[])
    g.nt("parameter-declaration", "_parse_parameter_declaration")
    g.prod("parameter-declaration", [N("declaration-specifiers"), N("declarator[id]")],
           build=lambda v, gx: mk_declarations(A, gx, v[0][0], [dict(decl=v[1], init=None, bitsize=None)])[0],
           label="parameter-declaration: declaration-specifiers declarator")
    # 6.7.5.3p11: a typedef name in parentheses is taken as a type, so a re-declared typedef name is a parameter name
    # only when it is not parenthesized
    g.prod("parameter-declaration", [N("declaration-specifiers"), N("declarator[typeid-noparen]")],
           build=lambda v, gx: mk_declarations(A, gx, v[0][0], [dict(decl=v[1], init=None, bitsize=None)])[0],
           label="parameter-declaration: declaration-specifiers declarator (re-declaring a typedef name, unparenthesized)")
    g.prod("parameter-declaration", [N("declaration-specifiers"), N("abstract-declarator-opt")],
           build=lambda v, gx: mk_typename(A, gx, v[0][0], v[1]), label="parameter-declaration: declaration-specifiers abstract-declarator?")
    g.nt("identifier-list", "_parse_identifier_list", opaque=lambda gx, m: A.ParamList([OP(m)], mcoord(m)))
    g.prod("identifier-list", [N("identifier"), Star(T("COMMA"), N("identifier"))],
           build=lambda v, gx: A.ParamList([v[0]] + [r[1] for r in v[1]], ANY_INSIDE), label="identifier-list")
    g.nt("identifier-list-opt", "_parse_identifier_list_opt", opaque=lambda gx, m: A.ParamList([OP(m)], mcoord(m)))
    g.prod("identifier-list-opt", [], build=lambda v, gx: None, label="identifier-list-opt: empty")
    g.prod("identifier-list-opt", [N("identifier-list")], build=lambda v, gx: v[0], label="identifier-list-opt: identifier-list")

    # ------------------------------------------------------------ type names and abstract declarators (6.7.6)
    g.nt("type-name", "_parse_type_name",
         opaque=lambda gx, m: A.Typename(None, [], None, A.TypeDecl(None, [], None, A.IdentifierType(["int"], mcoord(m)), mcoord(m)), mcoord(m)))
    g.prod("type-name", [N("specifier-qualifier-list"), N("abstract-declarator-opt")],
           build=lambda v, gx: mk_typename(A, gx, v[0], v[1]), label="type-name: specifier-qualifier-list abstract-declarator?")
    g.nt("abstract-declarator-opt", "_parse_abstract_declarator_opt", opaque=lambda gx, m: plain_decl(m, named=False))
    g.prod("abstract-declarator-opt", [], build=lambda v, gx: None, label="abstract-declarator?: empty")
    g.prod("abstract-declarator-opt", [N("pointer")], build=lambda v, gx: append_mods(A, A.TypeDecl(None, None, None, None), v[0]),
           label="abstract-declarator: pointer")
    g.prod("abstract-declarator-opt", [Opt(N("pointer")), N("direct-abstract-declarator")],
           build=lambda v, gx: append_mods(A, v[1], v[0]) if v[0] is not None else v[1], label="abstract-declarator: pointer? direct-abstract-declarator")
    g.nt("direct-abstract-declarator", "_parse_direct_abstract_declarator", opaque=lambda gx, m: plain_decl(m, named=False))
    g.prod("direct-abstract-declarator", [T("LPAREN"), N("abstract-declarator"), T("RPAREN"), N("declarator-suffixes")],
           build=lambda v, gx: v[3](v[1]), label="direct-abstract-declarator: ( abstract-declarator ) suffix*")
    g.prod("direct-abstract-declarator", [N("array-suffix"), N("declarator-suffixes")],
           build=lambda v, gx: v[1](append_mods(A, A.TypeDecl(None, None, None, None), v[0](None))), label="direct-abstract-declarator: [ ... ] suffix*")
    g.prod("direct-abstract-declarator", [T("LPAREN"), N("parameter-type-list-opt"), T("RPAREN"), N("declarator-suffixes")],
           build=lambda v, gx: v[3](append_mods(A, A.TypeDecl(None, None, None, None), A.FuncDecl(v[1], None, ANY_INSIDE))),
           label="direct-abstract-declarator: ( parameter-type-list? ) suffix*")
    g.nt("abstract-declarator", opaque=lambda gx, m: plain_decl(m, named=False))  # non-empty abstract declarator
    g.prod("abstract-declarator", [N("pointer")], build=lambda v, gx: append_mods(A, A.TypeDecl(None, None, None, None), v[0]), label="abstract-declarator: pointer")
    g.prod("abstract-declarator", [Opt(N("pointer")), N("direct-abstract-declarator")],
           build=lambda v, gx: append_mods(A, v[1], v[0]) if v[0] is not None else v[1], label="abstract-declarator: pointer? direct-abstract-declarator")
    g.accepts.setdefault("_parse_abstract_declarator_opt", set()).add("abstract-declarator")

    # ------------------------------------------------------------ initializers (6.7.8)
    g.nt("initializer", "_parse_initializer", covers=["assignment-expression", "conditional-expression", "binary-expression",
                                                      "cast-expression", "unary-expression", "postfix-expression", "primary-expression"])
    g.prod("initializer", [N("assignment-expression")], build=lambda v, gx: v[0], label="initializer: assignment-expression")
    g.prod("initializer", [T("LBRACE"), N("initializer-list"), T("RBRACE")], build=lambda v, gx: v[1],
           label="initializer: { initializer-list ,? }")
    g.prod("initializer", [T("LBRACE"), T("RBRACE")], build=lambda v, gx: A.InitList([], co(v[0])), label="initializer: { }  [extension / C23]")
    g.nt("initializer-list", "_parse_initializer_list", opaque=lambda gx, m: A.InitList([OP(m)], mcoord(m)))
    # the optional trailing comma of 6.7.8 `{ initializer-list , }` is attached here (same language as in the standard)
    g.prod("initializer-list", [N("initializer-item"), Star(T("COMMA"), N("initializer-item")), Opt(T("COMMA"))],
           build=lambda v, gx: A.InitList([v[0]] + [r[1] for r in v[1]], ANY_INSIDE_OR_NONE), label="initializer-list: (designation? initializer) (, designation? initializer)* ,?")
    g.nt("initializer-item", "_parse_initializer_item")
    g.prod("initializer-item", [N("initializer")], build=lambda v, gx: v[0], label="initializer-item: initializer")
    g.prod("initializer-item", [N("designation"), N("initializer")], build=lambda v, gx: A.NamedInitializer(v[0], v[1], None),
           label="initializer-item: designation initializer")
    g.nt("designation", "_parse_designation", opaque=lambda gx, m: [OP(m)])
    g.prod("designation", [N("designator-list"), T("EQUALS")], build=lambda v, gx: v[0], label="designation: designator-list =")
    g.nt("designator-list", "_parse_designator_list", opaque=lambda gx, m: [OP(m)])
    g.prod("designator-list", [N("designator"), Star(N("designator"))], build=lambda v, gx: [v[0]] + v[1], label="designator-list: designator+")
    g.nt("designator", "_parse_designator")
    g.prod("designator", [T("LBRACKET"), N("constant-expression"), T("RBRACKET")], build=lambda v, gx: v[1], label="designator: [ constant-expression ]")
    g.prod("designator", [T("PERIOD"), N("identifier-or-typeid")], build=lambda v, gx: v[1], label="designator: . identifier")

    # ------------------------------------------------------------ declarations (6.7) and external definitions (6.9)
    info = lambda gx, m: dict(decl=plain_decl(m), init=None, bitsize=None)  # noqa: E731
    g.nt("init-declarator", "_parse_init_declarator", opaque=info)
    g.prod("init-declarator", [N("declarator"), Opt(T("EQUALS"), N("initializer"))],
           build=lambda v, gx: dict(decl=v[0], init=v[1][1] if v[1] else None, bitsize=None), label="init-declarator: declarator (= initializer)?")
    g.nt("init-declarator-list", "_parse_init_declarator_list", opaque=lambda gx, m: [info(gx, m)])
    g.prod("init-declarator-list", [N("init-declarator"), N("init-declarator-rest")],
           build=lambda v, gx: v[1](v[0]), label="init-declarator-list: init-declarator (, init-declarator)*")
    # continuation used when the first declarator has already been parsed (external declarations)
    g.nt("init-declarator-rest", opaque=lambda gx, m: (lambda first=None, id_only=False: [first]), args={"apply": True})
    g.prod("init-declarator-rest", [Star(T("COMMA"), N("init-declarator"))],
           build=lambda v, gx: (lambda first=None, id_only=False: [first] + [r[1] for r in v[0]]), label="(, init-declarator)*")
    g.nt("declaration", "_parse_declaration", opaque=lambda gx, m: [OP(m)])
    g.prod("declaration", [N("decl-body"), T("SEMI")], build=lambda v, gx: v[0], label="declaration: declaration-specifiers init-declarator-list? ;")
    g.nt("decl-body", "_parse_decl_body", opaque=lambda gx, m: [OP(m)])
    g.prod("decl-body", [N("declaration-specifiers"), N("decl-tail")],
           build=lambda v, gx: v[1](v[0][0], v[0][1]), label="declaration-specifiers init-declarator-list?")

    def tag_only(spec, saw_type=True):
        return [A.Decl(None, spec["qual"], spec["alignment"], spec["storage"], spec["function"], spec["type"][0], None, None, ANY_INSIDE)]
    def tail_op(gx, m):
        val = [OP(m)]
        return lambda spec, saw_type=True: val
    g.nt("decl-tail", "_parse_decl_body_with_spec", opaque=tail_op, args={"apply": True})
    g.prod("decl-tail", [N("init-declarator-list")], build=lambda v, gx: (lambda spec, saw_type=True: mk_declarations(A, gx, spec, v[0])),
           label="init-declarator-list")
    g.prod("decl-tail", [], build=lambda v, gx: tag_only, label="no declarator (struct/union/enum declaration only)", note="tag-only")
    g.nt("declaration-list", "_parse_declaration_list", opaque=lambda gx, m: [OP(m)])
    g.prod("declaration-list", [N("declaration"), Star(N("declaration"))], build=lambda v, gx: [d for ds in [v[0]] + v[1] for d in ds],
           label="declaration-list: declaration+")

    def funcdef(spec, decl, kr, body):
        d = mk_declarations(A, gx, spec, [dict(decl=decl, init=None, bitsize=None)])[0]
        return A.FuncDef(d, kr, body, ANY_INSIDE)
    g.nt("external-declaration", "_parse_external_declaration", opaque=lambda gx, m: [OP(m)])
    g.prod("external-declaration", [N("declaration")], build=lambda v, gx: v[0], label="external-declaration: declaration")
    g.prod("external-declaration", [N("declaration-specifiers"), N("declarator[id]"), Opt(N("declaration-list")), N("compound-statement")],
           build=lambda v, gx: [funcdef(v[0][0], v[1], v[2], v[3])], label="function-definition: declaration-specifiers declarator declaration-list? compound-statement"
           ).budget_x = 4   # K&R definitions need two result shapes at once (identifier-list declarator + declaration list)
    # C11 6.7.10 `static_assert-declaration` = static-assert ';' ; at file scope the ';' is the stray-semicolon item below
    # (same language, no node for the semicolon)
    g.prod("external-declaration", [N("static-assert")], build=lambda v, gx: v[0], label="external-declaration: static_assert-declaration (C11)")
    g.prod("external-declaration", [N("pragma-directive")], build=lambda v, gx: [v[0]], label="external-declaration: pragma [extension]")
    g.prod("external-declaration", [T("SEMI")], build=lambda v, gx: [], label="external-declaration: ;  [extension: stray semicolon]")
    g.nt("translation-unit", "_parse_translation_unit", opaque=lambda gx, m: [OP(m)])
    g.prod("translation-unit", [N("external-declaration"), Star(N("external-declaration"))],
           build=lambda v, gx: [d for ds in [v[0]] + v[1] for d in ds], label="translation-unit: external-declaration+", no_follow=[])
    g.nt("translation-unit-or-empty", "_parse_translation_unit_or_empty")
    g.prod("translation-unit-or-empty", [], build=lambda v, gx: A.FileAST([]), label="translation-unit: empty [extension]")
    g.prod("translation-unit-or-empty", [N("translation-unit")], build=lambda v, gx: A.FileAST(v[0]), label="translation-unit")

    # arg-dependent stubs: the declarator-kind methods
    def kind_accepts(a, kw):
        kind = kw.get("kind", a[0] if a else None)
        allow = kw.get("allow_paren", a[1] if len(a) > 1 else True)
        return {"declarator[%s]" % (kind if allow or kind == "id" else "typeid-noparen")}
    g.accepts_fn = {
        "_parse_init_declarator_list": lambda a, kw: {"init-declarator-rest"} if (kw.get("first") is not None or (a and a[0] is not None)) else {"init-declarator-list"},
        "_parse_declarator_kind": kind_accepts,
        "_parse_direct_declarator": lambda a, kw: {x.replace("declarator[", "direct-declarator[") for x in kind_accepts(a, kw)},
    }
    g.accepts["_parse_id_declarator"] = {"declarator[id]"}
    g.accepts["_parse_typeid_declarator"] = {"declarator[typeid]"}
    g.accepts["_parse_typeid_noparen_declarator"] = {"declarator[typeid-noparen]", "declarator[typeid]"}

    def noparen(run, node):
        """a declarator[typeid] construct qualifies as `without parenthesized name` iff no '(' precedes its name"""
        for t in run.toks[node.start:node.end]:
            ty = t.mark.first if hasattr(t, "mark") else t.type
            if ty == "TYPEID":
                return True
            if ty == "LPAREN" or ty is None:
                return False
        return False
    g.accepts_check = {"_parse_typeid_noparen_declarator": noparen}

    def invalid_context(run, follow):
        """6.7.2.4p4: `_Atomic` immediately followed by `(` is always the type specifier, never the qualifier"""
        if follow and follow[0] == "LPAREN" and run.n_form > 0:
            t = run.toks[run.n_form - 1]
            ty = t.mark.first if hasattr(t, "mark") else t.type
            if ty == "_ATOMIC":
                return True
        return False
    g.invalid_context = invalid_context
    g.nts["array-suffix"].args = {"apply": True}


def add_variants(g: Grammar, gx):
    """Methods that take arguments: which nonterminal they parse for which arguments."""
    A = gx.c_ast

    def td(name="d0"):
        return A.TypeDecl(name, None, None, None, gx.Coord("f.c", 700, 1))

    def int_spec():
        s = new_spec()
        s["type"] = [A.IdentifierType(["int"], gx.Coord("f.c", 701, 1))]
        return s

    def with_storage(st):
        s = int_spec()
        s["storage"] = [st]
        return s

    def struct_spec():
        s = new_spec()
        s["type"] = [A.Struct("S", None, gx.Coord("f.c", 702, 1))]
        return s

    g.variants = {
        "_parse_array_decl_common": [("array-suffix", lambda gx, p: ((None, gx.Coord("f.c", 703, 1)), {})),
                                     ("array-suffix", lambda gx, p: ((A.TypeDecl(None, None, None, None), None), {}))],
        "_parse_function_decl": [("function-suffix", lambda gx, p: ((td("f"),), {}))],
        "_parse_decl_suffixes": [("declarator-suffixes", lambda gx, p: ((td("a"),), {}))],
        "_parse_decl_body_with_spec": [("decl-tail", lambda gx, p: ((struct_spec() if p.note == "tag-only" else int_spec(), True), {})),
                                       ("decl-tail", lambda gx, p: ((struct_spec() if p.note == "tag-only" else with_storage("extern"), True), {})),
                                       ("decl-tail", lambda gx, p: ((struct_spec() if p.note == "tag-only" else with_storage("typedef"), True), {})),
                                       ("decl-tail", lambda gx, p: ((struct_spec() if p.note == "tag-only" else with_storage("static"), True), {}))],
        "_parse_declarator_kind": [("declarator[id]", lambda gx, p: (("id", True), {})),
                                   ("declarator[typeid]", lambda gx, p: (("typeid", True), {})),
                                   ("declarator[typeid-noparen]", lambda gx, p: (("typeid", False), {}))],
        "_parse_direct_declarator": [("direct-declarator[id]", lambda gx, p: (("id", True), {})),
                                     ("direct-declarator[typeid]", lambda gx, p: (("typeid", True), {})),
                                     ("direct-declarator[typeid-noparen]", lambda gx, p: (("typeid", False), {}))],
        "_parse_init_declarator_list": [("init-declarator-list", lambda gx, p: ((), {})),
                                        ("init-declarator-rest", lambda gx, p: ((), {"first": dict(decl=td("first"), init=None, bitsize=None)}))],
        "_parse_id_declarator": [("declarator[id]", lambda gx, p: ((), {}))],
        "_parse_typeid_declarator": [("declarator[typeid]", lambda gx, p: ((), {}))],
        "_parse_typeid_noparen_declarator": [("declarator[typeid-noparen]", lambda gx, p: ((), {}))],
    }
    g.variants["_parse_labeled_statement"] = [("labeled-statement", lambda gx, p: ((), {})), ("labeled-statement[typedef-name]", lambda gx, p: ((), {}))]
    g.variants["_parse_jump_statement"] = [("jump-statement", lambda gx, p: ((), {})), ("jump-statement[typedef-name]", lambda gx, p: ((), {}))]
    g.variants["_parse_enumerator"] = [("enumerator", lambda gx, p: ((), {})), ("enumerator[typedef-name]", lambda gx, p: ((), {}))]
    g.eof_ok = {"translation-unit", "translation-unit-or-empty", "external-declaration"}
    # methods that take their first token without looking at its type: what their callers must guarantee
    g.entry_pre = {"_parse_struct_or_union_specifier": {"STRUCT", "UNION"}}
