#!/usr/bin/env python3
"""tools/patchcheck.py PATCH [PROP ...] -- apply PATCH (a git diff) to a scratch copy of /repo, run the repository's test
suite there, then run the quick check of every claimed property (or the given ones) against the copy.  Prints one line per
check whose verdict differs from exit 0, and a final line `PATCHCHECK <patch> tests=<ok> nonzero=<n>`.  Used for
behaviour-preserving patches: every check must still exit 0 (no VIOLATION, no UNDECIDED)."""
import json, os, shutil, subprocess, sys, tempfile
from concurrent.futures import ThreadPoolExecutor

patch = os.path.abspath(sys.argv[1])
props = sys.argv[2:] or [c["property_id"] for c in json.load(open("/verif/MANIFEST.json"))["checks"]]
d = tempfile.mkdtemp(prefix="pycp_patch_")
try:
    dst = os.path.join(d, "repo")
    shutil.copytree("/repo", dst, ignore=shutil.ignore_patterns(".git", "__pycache__", "*.egg-info"))
    r = subprocess.run(["git", "apply", "--whitespace=nowarn", patch], cwd=dst, capture_output=True, text=True)
    if r.returncode != 0:
        r = subprocess.run(["patch", "-p1", "-i", patch], cwd=dst, capture_output=True, text=True)
    if r.returncode != 0:
        print("PATCHCHECK", patch, "does not apply:", (r.stdout + r.stderr)[-200:])
        sys.exit(2)
    t = subprocess.run(["/venv/bin/python", "-m", "pytest", "-q", "-p", "no:cacheprovider", "-x"], cwd=dst, capture_output=True, text=True)
    env = dict(os.environ, VERIF_REPO=dst, PYTHONDONTWRITEBYTECODE="1")

    def one(p):
        c = subprocess.run(["python3-vt", "/verif/check.py", p, "--tier", "quick"], cwd="/verif", env=env, capture_output=True, text=True)
        lines = [l for l in c.stdout.splitlines() if l.startswith(("VIOLATION", "UNDECIDED", "CRASH"))]
        return p, c.returncode, lines

    bad = 0
    with ThreadPoolExecutor(2) as ex:
        for p, rc, lines in ex.map(one, props):
            if rc != 0:
                bad += 1
                print(f"  {p} exit {rc}: " + " | ".join(l[:230] for l in lines[:3]), flush=True)
    print(f"PATCHCHECK {patch} tests={'ok' if t.returncode == 0 else 'FAIL'} nonzero={bad}")
    sys.exit(1 if bad else 0)
finally:
    shutil.rmtree(d, ignore_errors=True)
