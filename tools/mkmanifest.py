#!/usr/bin/env python3
"""Regenerate MANIFEST.json from tools/manifest_data.py (keeps it valid at all times)."""
import json, os, sys
HERE = os.path.dirname(os.path.dirname(os.path.abspath(__file__)))
sys.path.insert(0, os.path.join(HERE, "tools"))
import manifest_data as D

checks = []
for pid, c in D.CHECKS.items():
    checks.append({
        "property_id": pid,
        "quick_cmd": f"python3-vt check.py {pid} --tier quick",
        "thorough_cmd": f"python3-vt check.py {pid} --tier thorough",
        "evidence_file": f"/verif/evidence/{pid}.json",
        "replay_cmd_template": "/venv/bin/python {path}",
        "engine": c["engine"],
        "level_claimed": {"category": "proof", "text": c["text"] + getattr(D, "ADD_TEXT", {}).get(pid, ""), "design_ref": f"DESIGN.md section 5, {pid}"},
        "level_note": c["note"] + "; " + getattr(D, "RTNOTE", ""),
        "technique": c["technique"],
    })
m = {
    "version": 1,
    "setup_cmd": "python3-vt tools/setup_check.py",
    "hooks": {
        "guard": "PYCPARSER_VERIF",
        "enable": "no hook is needed: contracts live in sidecar files under /verif/contracts and /verif/spec; the real functions are re-read (ast) and re-imported from /repo's working tree on every run",
        "baseline_off_cmd": "cd /repo && /venv/bin/python -m pytest -ra -q -p no:cacheprovider --timeout=900 --continue-on-collection-errors",
        "source_commits": [],
        "add_only": True,
    },
    "engines": D.ENGINES,
    "checks": checks,
    "notes": D.NOTES,
    "not_applicable": D.NOT_APPLICABLE,
}
json.dump(m, open(os.path.join(HERE, "MANIFEST.json"), "w"), indent=1)
print("MANIFEST.json written:", len(checks), "checks,", len(D.NOT_APPLICABLE), "not applicable")
