#!/usr/bin/env python3
"""setup_cmd: nothing to build (pure Python run from /verif); verify the tool chain is present."""
import os, shutil, sys
sys.path.insert(0, os.path.dirname(os.path.dirname(os.path.abspath(__file__))))
import z3
from pyvc import core
core.repo_import("pycparser.c_parser")
assert shutil.which("cvc5") or os.path.exists("/usr/bin/cvc5"), "cvc5 missing"
assert os.path.exists(core.REPLAY_PY), "replay interpreter missing"
s = z3.Solver(); x = z3.Int("x"); s.add(x > 1, x < 1)
assert s.check() == z3.unsat
print("setup ok: z3", z3.get_version_string(), "repo", core.REPO)
