#!/usr/bin/env python3
"""tools/seedtest.py SEEDDIR [PROP ...] -- apply SEEDDIR/patch.diff to a scratch copy of /repo, confirm the demo fails there
and passes on /repo, confirm the test suite still passes, then run the given property checks (default: meta.json's property)
against the scratch copy.  Prints one summary line per check.  The scratch copy is removed afterwards."""
import json, os, shutil, subprocess, sys, tempfile

seed = os.path.abspath(sys.argv[1])
meta = json.load(open(os.path.join(seed, "meta.json")))
props = sys.argv[2:] or [meta["property"]]
d = tempfile.mkdtemp(prefix="pycp_seed_")
out = {}
try:
    dst = os.path.join(d, "repo")
    shutil.copytree("/repo", dst, ignore=shutil.ignore_patterns(".git", "__pycache__", "*.egg-info"))
    r = subprocess.run(["git", "apply", "--whitespace=nowarn", os.path.join(seed, "patch.diff")], cwd=dst, capture_output=True, text=True)
    if r.returncode != 0:
        r = subprocess.run(["patch", "-p1", "-i", os.path.join(seed, "patch.diff")], cwd=dst, capture_output=True, text=True)
    out["applies"] = r.returncode == 0
    if not out["applies"]:
        print("SEED", seed, "patch does not apply:", (r.stdout + r.stderr)[-300:])
        sys.exit(2)
    demo = os.path.join(seed, "demo.py")
    env = dict(os.environ, PYTHONDONTWRITEBYTECODE="1")
    a = subprocess.run(["/venv/bin/python", demo], cwd=dst, env=dict(env, PYCPARSER_DIR=dst, PYTHONPATH=dst), capture_output=True, text=True, timeout=600)
    b = subprocess.run(["/venv/bin/python", demo], cwd="/repo", env=dict(env, PYCPARSER_DIR="/repo", PYTHONPATH="/repo"), capture_output=True, text=True, timeout=600)
    out["demo_fails_with_change"] = a.returncode != 0
    out["demo_passes_without"] = b.returncode == 0
    t = subprocess.run(["/venv/bin/python", "-m", "pytest", "-q", "-p", "no:cacheprovider", "-x"], cwd=dst, capture_output=True, text=True, timeout=900)
    out["tests_pass"] = t.returncode == 0
    out["tests_tail"] = t.stdout.strip().splitlines()[-1] if t.stdout.strip() else ""
    for p in props:
        c = subprocess.run(["python3-vt", "/verif/check.py", p, "--tier", "quick"], cwd="/verif", env=dict(env, VERIF_REPO=dst),
                           capture_output=True, text=True, timeout=3600)
        lines = [l for l in c.stdout.splitlines() if l.startswith(("VIOLATION", "UNDECIDED", "CRASH", "SUMMARY"))]
        out[p] = dict(exit=c.returncode, violations=[l for l in lines if l.startswith("VIOLATION")][:4],
                      other=[l for l in lines if not l.startswith("VIOLATION")][:3])
    print(json.dumps(dict(seed=seed, **out), indent=1))
finally:
    shutil.rmtree(d, ignore_errors=True)
