ENGINES = [
 {"name": "SMT", "path": "/verif/pyvc/smt.py", "serves_properties": ["C12", "C14"],
  "kind_free_text": "ast -> z3/cvc5 verification-condition generator over the real function bodies (modular: callees by contract, loops by invariant, frames proved)"},
 {"name": "GX/TB", "path": "/verif/contracts/visitor.py", "serves_properties": ["C14"],
  "kind_free_text": "modular execution of real function objects against recording callee stubs over the full finite domain; finite table obligations"},
]
NOTES = "see DESIGN.md; known findings in known_findings.txt; every check re-reads /repo's working tree (override with VERIF_REPO)"
NOT_APPLICABLE = [
 {"property_id": "C08", "reason": "deciding oracle is the system C compiler's output; no contract on a pycparser function can express it (DESIGN 5/C08)"},
 {"property_id": "C15", "reason": "behaviour implemented by CPython pickle/copy/eval, not by a repository function a contract can be attached to (DESIGN 5/C15)"},
 {"property_id": "C19", "reason": "quantifies over 129 data files and an external preprocessor; sweeping them is enumeration, a different family (DESIGN 5/C19)"},
]
CHECKS = {
 "C12": dict(engine="SMT",
   text="parse() is verified with the instance pre-state havocked (no requires): after its three opening statements every per-parse field of parser, lexer and token stream has the value a fresh instance would have; frames proved. Universally quantified over histories.",
   note="relative to the assumed Python semantics of the SMT encoding, z3/cvc5, and the trusted frame of CLexer.token towards _TokenStream; FX part (def-before-use, no retained nodes, indent balance) added when built",
   technique="deductive verification: VC generation from the real AST, z3"),
 "C14": dict(engine="SMT",
   text="49 classes x (__init__, children, __iter__) verified by SMT against contracts generated from _c_ast.cfg by an independent reader, for all field values (every subset of optional children absent, every sequence length); slots/attr_names/signatures as finite table obligations; NodeVisitor.visit/generic_visit and Node.show by modular execution against callee stubs over their full finite domain",
   note="sequence fields hold None or a list; show(): attr values print without newline; CPython executes the three base-class methods; z3",
   technique="deductive verification (z3 VCs with loop invariants) + exhaustive finite-domain modular execution"),
}
