#!/usr/bin/env python3
"""tools/mkindex.py RESULTS... -- rebuild seeded/INDEX.md from the meta.json files and one or more outputs of tools/seedall.py
(later files override earlier ones)."""
import glob, json, os, re, sys

root = os.path.dirname(os.path.dirname(os.path.abspath(__file__)))
res = {}
for f in sys.argv[1:]:
    for line in open(f):
        m = re.match(r"(C\d\d-\d+)\s+seed-ok=(\w+) exit=(\w+) replayed=(\d+)/(\d+) (.*)$", line.rstrip())
        if m:
            res[m.group(1)] = m.groups()[1:]
rows = []
caught = rep = 0
for d in sorted(glob.glob(os.path.join(root, "seeded", "C*-*")), key=lambda p: (p.split("/")[-1].split("-")[0], int(p.split("-")[-1]))):
    name = os.path.basename(d)
    meta = json.load(open(os.path.join(d, "meta.json")))
    r = res.get(name)
    k_ = int(name.split("-")[1]); rnd = 1 if k_ <= 3 else (2 if k_ <= 5 else (3 if k_ <= 7 else (4 if k_ <= 9 else 5)))
    if r is None:
        out = "(not run)"
    else:
        ok, ex, nrep, nv, first = r
        if ex == "1":
            caught += 1
            rep += 1 if int(nrep) else 0
            out = first.strip()[:150] + (" -- replay reproduces on the real code" if int(nrep) else " -- verifier output only")
        elif ex == "2":
            out = "UNDECIDED (exit 2): " + first.strip()[:120]
        else:
            out = f"MISSED (exit {ex})"
    def cell(s):
        return str(s or "").replace("|", "\\|").replace("\n", " ")[:170]
    rows.append(f"| {name} | {rnd} | {cell(meta.get('title'))} | {cell(meta.get('needs_to_manifest'))} | {cell(out)} |")
with open(os.path.join(root, "seeded", "INDEX.md"), "w") as f:
    f.write("# Seeded property-breaking changes\n\n"
            "Written by sub-agents that were given only the property text and a scratch worktree (five rounds; rounds 2-5 were told the\n"
            "titles of the earlier changes and asked for different kinds). Each was confirmed with tools/seedtest.py (the demo fails with the\n"
            "change and passes without; the 135 tests pass with the change). `caught by` = the first obligation refuted by\n"
            "`check.py <prop> --tier quick` on the changed tree, from the last run of tools/seedall.py (checks as they stand now;\n"
            "DESIGN.md section 7 says which of these were missed when first run and what was strengthened).\n\n"
            "| seed | round | change | needs to manifest | caught by |\n|---|---|---|---|---|\n" + "\n".join(rows) + "\n\n"
            f"{caught} of {len(rows)} caught, {rep} of them with a replay that reproduces the failure natively. "
            "Re-run: `python3 tools/seedall.py -j 2` (or `python3 tools/seedtest.py seeded/<dir>`).\n")
print(f"{caught} of {len(rows)} caught, {rep} with reproducing replay")
