#!/usr/bin/env python3
"""tools/dynmon.py KIND [REPO] -- dynamic monitors on the REAL code (run under /venv/bin/python), used to CONFIRM refutations of
the FX engine.  FX is a may-analysis (aliasing and effects are over-approximated): when it cannot discharge an obligation the
cause may be a real defect or its own imprecision, so such a result becomes a VIOLATION only if one of these monitors shows a
concrete discrepancy on the real code; otherwise it is reported as a bounded stand-in.

KIND:
  shared   (C13) module-level / class-level state, function defaults and interpreter settings before and after two interleaved
           parser + generator instances have worked through the corpus; ASTs of different instances share no node
  history  (C12) every corpus input on a FRESH parser / generator vs on instances that have been through the whole corpus
           (errors included) before: identical result (AST with coordinates or error message; generated text)
  layout   (C17) every accepted corpus program re-laid out (blanks, tabs, newlines, one token per line, linemarkers between
           tokens): identical AST apart from coordinates, identical generated text
Prints one line per discrepancy and a last line `DISCREPANCIES n`.
"""
import os, sys

kind = sys.argv[1]
repo = sys.argv[2] if len(sys.argv) > 2 else os.environ.get("VERIF_REPO", "/repo")
sys.path.insert(0, repo)
sys.dont_write_bytecode = True
sys.setrecursionlimit(20000)
import copy, types  # noqa: E402

import pycparser  # noqa: E402
from pycparser import c_ast, c_generator, c_lexer, c_parser, ast_transforms  # noqa: E402

CORPUS = [
    "int x;", "", "typedef int T; T t; T *f(T a, int T);",
    "# 1 \"a.h\"\nint x;\n# 1 \"b.h\"\nint y;\n# 1 \"a.h\" 2\nint z;\n", "#line 7 \"k.c\"\nvoid f(void) { if (x) y;\n# 1 \"other.h\"\n z; }\n",
    "# 3\nint a;\n#line 3\nint b;\n", "#pragma once\nint x;\n#pragma omp parallel for\nvoid g(void) { _Pragma(\"foo\") ; }\n#pragma",
    "void f(int a, char *b) { int c = a + 1 * 2 - (3, 4); c <<= 2; return c ? a : *b; }",
    "struct S { int a : 3; unsigned : 0; struct { int b; }; union { int c; float d; } u; } s = { .a = 1, .u = { .c = 2 } };",
    "struct E0 { }; struct E1 { struct { } in; int k; } e1;", "enum E { A, B = 2, C } e; int arr[3] = { [1] = 2, 3 };",
    "void f(void) { switch (x) { case 1: a(); case 2: case 3: b(); break; default: c(); } for (int i = 0, *p = 0; i < 3; i++) continue; do x--; while (x); goto L; L: ; }",
    "int (*fp)(int, char **); int (*arr[3])(void); void (*signal(int, void (*)(int)))(int);",
    "void f(void) { x = (int)y; z = sizeof(int); w = sizeof x; v = (struct S){1, 2}.a; p = &q[2]->m.n; r = i++ + --j; }",
    "_Static_assert(1, \"m\"); _Alignas(8) int al; _Atomic(int) at, *bt; int * _Atomic ap; _Noreturn void nr(void); _Thread_local int tl;",
    "char *s = \"a\" \"b\"; char c = 'x'; int m = 'ab'; double d = 1.5e3f; long l = 0x1FUL; int o = 017, b = 0b11;",
    "int f(a, b) int a; char b; { return a; } foo() { return 1; } bar(x) { return x; }",
    "typedef struct T1 { int x; } T1, *P1; T1 v1; void g(void) { T1 T1; int P1; { typedef char P1; P1 c; } }",
    "void deep(void) { " + "{ " * 12 + "int z; if (z) { z = 1; }" + " }" * 12 + " }",
    "void f(void) { if (a) if (b) c; else d; else if (e) { f; } }", "int a[static 3]; void g(int a[static 3], int b[const *], int c[restrict 2], int d[]);",
    # adjacent pairs: a failing input that leaves state behind, then an input that would notice
    "typedef int LEAK; void f(void) { int y = (1 +", "LEAK * z;", "int HID; void f(void) { (", "typedef int HID; HID v;",
    "typedef int MEMO; MEMO +", "MEMO x;", "void f(void) { typedef int BLK; { BLK * a; ((", "BLK * b;",
    "int x = " + "(" * 120 + "1;", "int ok = (1) + ((2));", "int kr(a, b) int a; char b; { return a; }", "struct AFTER { int m; } after; enum EA { EA1 } ea;",
    "int x = {\n#pragma left over\n", "int after_pragma;",
    # failures (histories that end in an error, some inside open scopes / parentheses / pragmas)
    "int x = 1 +;", "int f( { }", "@", "int a = 08;", "char c = '';", "void f(void) { } }", "#include <x.h>\nint x;", "struct { int",
    "void f(void) { typedef int Q; { int Q; ((((1 +", "typedef int T; T +", "void f(void) { x = (1 + (2 * (3", "int x = {\n#pragma inside\n};", "#pragma p\n@",
    "void g(void) { typedef int T; T * q; }", "typedef int T; void k(void) { T * q; }", "T x;", "int T; void h(void) { T * 2; }",
    "#pragma omp parallel \\\nint after_pragma;\n", "void f(void) {\n#pragma unroll \\\n x = 1; }\n",
    "typedef int SHR }", "void u1(int a) { SHR * a; }", "int SHO }", "typedef int SHO; SHO v;", "typedef int SHB; }", "SHB * w;", "}", "void u2(void) { } } typedef int SHC }",
    "void u3(int a) { SHC * a; }", "_Atomic(int) at1; _Atomic(int *) at2, *at3; void u4(_Atomic(int) *); int at5 = sizeof(_Atomic(int));",
]


def dump(node):
    import io
    b = io.StringIO()
    node.show(buf=b, attrnames=True, nodenames=True, showcoord=True)
    return b.getvalue()


def outcome(parser, text, name):
    try:
        return "AST\n" + dump(parser.parse(text, name))
    except c_parser.ParseError as e:
        return "ParseError " + str(e)
    except Exception as e:  # noqa
        return f"EXC {type(e).__name__}: {e}"


def gen_outcome(gen, tree):
    try:
        return gen.visit(tree)
    except Exception as e:  # noqa
        return f"EXC {type(e).__name__}: {e}"


bad = []

if kind == "shared":
    MODS = [c_parser, c_lexer, c_ast, c_generator, ast_transforms, pycparser]

    def fingerprint():
        out = {}

        def fp(v, depth=0):
            if depth > 4:
                return "..."
            if isinstance(v, (str, int, float, bool, type(None), bytes)):
                return repr(v)
            if isinstance(v, (list, tuple)):
                return type(v).__name__ + "[" + ",".join(fp(x, depth + 1) for x in v) + "]"
            if isinstance(v, (set, frozenset)):
                return type(v).__name__ + "{" + ",".join(sorted(fp(x, depth + 1) for x in v)) + "}"
            if isinstance(v, dict):
                return "dict{" + ",".join(sorted(fp(k, depth + 1) + ":" + fp(x, depth + 1) for k, x in v.items())) + "}"
            if isinstance(v, c_ast.Node):
                return "Node:" + type(v).__name__ + "@" + str(id(v)) + "(" + ",".join(fp(getattr(v, s_, None), depth + 1) for s_ in v.__slots__ if s_ != "__weakref__") + ")"
            if hasattr(v, "pattern") and hasattr(v, "flags"):
                return "re:" + v.pattern
            if hasattr(v, "__dataclass_fields__") and not isinstance(v, type):
                return type(v).__name__ + "(" + ",".join(f + "=" + fp(getattr(v, f, None), depth + 1) for f in v.__dataclass_fields__) + ")"
            return "obj:" + type(v).__name__
        for m in MODS:
            for k, v in list(vars(m).items()):
                if isinstance(v, types.ModuleType) or k.startswith("__"):
                    continue
                if isinstance(v, types.FunctionType):
                    out[f"{m.__name__}.{k}.__defaults__"] = fp(v.__defaults__) + fp(v.__kwdefaults__)
                    continue
                if isinstance(v, type):
                    if getattr(v, "__module__", None) != m.__name__:
                        continue
                    for an, av in list(vars(v).items()):
                        if an.startswith("__") and an not in ("__defaults__",):
                            continue
                        if isinstance(av, (types.FunctionType, staticmethod, classmethod)):
                            f_ = av.__func__ if isinstance(av, (staticmethod, classmethod)) else av
                            out[f"{m.__name__}.{k}.{an}.__defaults__"] = fp(f_.__defaults__) + fp(f_.__kwdefaults__)
                        elif not isinstance(av, (property, types.MemberDescriptorType, types.GetSetDescriptorType)):
                            out[f"{m.__name__}.{k}.{an}"] = fp(av)
                    continue
                out[f"{m.__name__}.{k}"] = fp(v)
        out["sys.getrecursionlimit"] = str(sys.getrecursionlimit())
        return out

    # module-level and class-level mutable containers are replaced by logging copies: a write that is undone again (a queue
    # filled and drained, a memo reset at the start of every parse) is still a write to state that all instances share
    writes = []

    def _logging(base, where):
        muts = {list: ("append", "extend", "insert", "pop", "remove", "clear", "sort", "reverse", "__setitem__", "__delitem__", "__iadd__"),
                dict: ("__setitem__", "__delitem__", "pop", "popitem", "clear", "update", "setdefault"),
                set: ("add", "discard", "remove", "pop", "clear", "update", "difference_update", "intersection_update", "__ior__", "__isub__")}[base]
        ns = {}
        for mname in muts:
            def mk(mname=mname):
                orig = getattr(base, mname)

                def f(self, *a, **k):
                    if len(writes) < 50:
                        writes.append(f"{where}.{mname}")
                    return orig(self, *a, **k)
                return f
            ns[mname] = mk()
        return type("Logging" + base.__name__.capitalize(), (base,), ns)
    for m in MODS:
        for k, v in list(vars(m).items()):
            if k.startswith("__") or isinstance(v, types.ModuleType):
                continue
            if type(v) in (list, dict, set):
                try:
                    setattr(m, k, _logging(type(v), f"{m.__name__}.{k}")(v))
                except Exception:
                    pass
            elif isinstance(v, type) and getattr(v, "__module__", None) == m.__name__:
                for an, av in list(vars(v).items()):
                    if not an.startswith("__") and type(av) in (list, dict, set):
                        try:
                            setattr(v, an, _logging(type(av), f"{m.__name__}.{k}.{an}")(av))
                        except Exception:
                            pass
    # scalar module-level / class-level values are sampled at every token the lexer hands out: a flag that is set while a
    # construct is being parsed and cleared again afterwards is still a write to state that all instances share
    def scalars():
        out = {}
        for m in MODS:
            for k, v in list(vars(m).items()):
                if k.startswith("__"):
                    continue
                if isinstance(v, (str, int, float, bool, type(None))):
                    out[f"{m.__name__}.{k}"] = v
                elif isinstance(v, type) and getattr(v, "__module__", None) == m.__name__:
                    for an, av in list(vars(v).items()):
                        if not an.startswith("__") and isinstance(av, (str, int, float, bool, type(None))):
                            out[f"{m.__name__}.{k}.{an}"] = av
        return out
    transient = {}
    base_scalars = scalars()
    _orig_token = c_lexer.CLexer.token

    def _token(self):
        cur = scalars()
        if cur != base_scalars:
            for k in set(cur) | set(base_scalars):
                if cur.get(k, "<absent>") != base_scalars.get(k, "<absent>") and k not in transient:
                    transient[k] = (base_scalars.get(k, "<absent>"), cur.get(k, "<absent>"))
        return _orig_token(self)
    c_lexer.CLexer.token = _token
    calls = []
    real_set = sys.setrecursionlimit
    sys.setrecursionlimit = lambda n: (calls.append(n), real_set(n))[1]
    before = fingerprint()
    pa, pb = c_parser.CParser(), c_parser.CParser()
    ga, gb = c_generator.CGenerator(), c_generator.CGenerator(reduce_parentheses=True)
    nodes_a, nodes_b = set(), set()

    def collect(tree, acc):
        stack = [tree]
        while stack:
            n = stack.pop()
            acc.add(id(n))
            stack += [c for _, c in n.children()]
    keep = []
    for i, text in enumerate(CORPUS):
        for p_, g_, acc in ((pa, ga, nodes_a), (pb, gb, nodes_b)):
            try:
                t = p_.parse(text, "s%d.c" % i)
            except Exception:
                continue
            keep.append(t)
            collect(t, acc)
            try:
                g_.visit(t)
                list(iter(t))
            except Exception:
                pass
    c_lexer.CLexer.token = _orig_token
    after = fingerprint()
    sys.setrecursionlimit = real_set
    for k, (v0, v1) in sorted(transient.items()):
        bad.append(f"module-level / class-level value changed while parsing (seen at a token boundary): {k}: {v0!r} -> {v1!r}")
    for k in sorted(set(before) | set(after)):
        if before.get(k) != after.get(k):
            bad.append(f"shared state changed by parsing/generating: {k}: {str(before.get(k))[:80]} -> {str(after.get(k))[:80]}")
    for w in sorted(set(writes)):
        bad.append(f"write to a module-level / class-level container while parsing/generating: {w}")
    if calls:
        bad.append(f"sys.setrecursionlimit called with {calls[:3]} while parsing/generating (interpreter-wide setting)")
    both = nodes_a & nodes_b
    if both:
        bad.append(f"{len(both)} AST node object(s) belong to results of two different parser instances")

elif kind == "history":
    reused_p = c_parser.CParser()
    reused_g = [c_generator.CGenerator(), c_generator.CGenerator(reduce_parentheses=True)]
    for rnd in (0, 1):
        for i, text in enumerate(CORPUS):
            name = "h%d.c" % i
            a = outcome(c_parser.CParser(), text, name)
            b = outcome(reused_p, text, name)
            if a != b:
                bad.append(f"parser reused (round {rnd}, after {i + rnd * len(CORPUS)} earlier calls) differs from a fresh one on {text[:60]!r}: "
                           f"fresh {a[:70]!r} vs reused {b[:70]!r}")
            if a.startswith("AST"):
                tree = c_parser.CParser().parse(text, name)
                for k, flag in enumerate((False, True)):
                    x = gen_outcome(c_generator.CGenerator(reduce_parentheses=flag), tree)
                    y = gen_outcome(reused_g[k], tree)
                    if x != y:
                        bad.append(f"generator reused (reduce_parentheses={flag}) differs from a fresh one on {text[:60]!r}: {x[:60]!r} vs {y[:60]!r}")
                # a result must not change when the same parser is used again
                try:
                    t1 = reused_p.parse(text, name)
                    d1 = dump(t1)
                    for later, nm in (("int unrelated_;", "u.c"), ("int broken = ;", "v.c")):
                        try:
                            reused_p.parse(later, nm)
                        except Exception:
                            pass
                    if dump(t1) != d1:
                        bad.append(f"an AST returned earlier changed when the parser was used again: {text[:60]!r}")
                except Exception:
                    pass   # the reused parser fails where a fresh one succeeds: recorded above

elif kind == "layout":
    import random
    rnd = random.Random(7)

    def strip(n):
        def val(v):
            if isinstance(v, c_ast.Node):
                return strip(v)
            if isinstance(v, list):
                return tuple(val(x) for x in v)
            return v
        return (type(n).__name__, tuple((s_, val(getattr(n, s_))) for s_ in n.attr_names), tuple(strip(c) for _, c in n.children()))

    def lex(text):
        errs = []
        lx = c_lexer.CLexer(lambda *a: errs.append(a), lambda: None, lambda: None, lambda n: False)
        lx.input(text, "l.c")
        toks = []
        while True:
            t = lx.token()
            if t is None:
                break
            toks.append(t)
        return toks, errs

    def render(toks, sep):
        out = []
        i = 0
        while i < len(toks):
            t = toks[i]
            if t.type == "PPPRAGMA":
                s_ = "#pragma"
                if i + 1 < len(toks) and toks[i + 1].type == "PPPRAGMASTR":
                    s_ += " " + toks[i + 1].value
                    i += 1
                out.append("\n" + s_ + "\n")
            else:
                out.append(t.value)
            i += 1
        text = ""
        for k, piece in enumerate(out):
            text += piece
            if not piece.endswith("\n"):
                text += sep(k)
        return text
    seps = [lambda k: " ", lambda k: "\n", lambda k: "\t \n  ", lambda k: rnd.choice([" ", "  ", "\n", "\t", "\n\n   "]),
            lambda k: ("\n# %d \"f%d.h\" 1\n" % (rnd.randint(1, 900), k)) if k % 3 == 0 else " ",
            lambda k: ("\n#line %d\n" % (k + 5)) if k % 4 == 1 else "\n   "]
    for i, text in enumerate(CORPUS):
        if "#" in text:
            continue   # programs with their own directives: token-level re-layout would have to move them with their lines
        try:
            t0 = c_parser.CParser().parse(text, "l.c")
        except Exception:
            continue
        toks, errs = lex(text)
        if errs:
            continue
        want = strip(t0)
        gtext = c_generator.CGenerator().visit(t0)
        for k, sep in enumerate(seps):
            v = render(toks, sep)
            try:
                t1 = c_parser.CParser().parse(v, "l.c")
            except Exception as e:  # noqa
                bad.append(f"layout {k} of {text[:50]!r} is rejected: {type(e).__name__}: {e}")
                continue
            if strip(t1) != want:
                bad.append(f"layout {k} of {text[:50]!r} gives a different tree (coordinates aside)")
            elif c_generator.CGenerator().visit(t1) != gtext:
                bad.append(f"layout {k} of {text[:50]!r} gives different generated text")
    # directive lines: what follows a `#pragma` line (the next line directly, blank lines, a linemarker, a #line directive) is
    # layout; the pragma's text ends at its own newline, whatever its last character is
    PRAGMA_PROGRAMS = ["#pragma omp parallel \\\nint x;\n", "#pragma once\nint y;\n", "void f(void) {\n#pragma unroll \\\n x = 1; }\n",
                       "#pragma a\n#pragma b \\\n#pragma c\nint z;\n", "int w;\n#pragma tail\\\n", "struct S {\n#pragma pack(1) \\\n int m; };\n"]
    FILLERS = ["", "\n", " \t\n", "# 7 \"l.c\"\n", "#line 3\n", "\n\n# 9 \"m.h\" 2\n"]
    for text in PRAGMA_PROGRAMS:
        try:
            t0 = c_parser.CParser().parse(text, "l.c")
        except Exception as e:  # noqa
            bad.append(f"pragma program {text!r} is rejected: {type(e).__name__}: {e}")
            continue
        want = strip(t0)
        gtext = c_generator.CGenerator().visit(t0)
        for fill in FILLERS[1:]:
            v = "".join(line + (fill if line.lstrip().startswith("#pragma") else "") for line in text.splitlines(keepends=True))
            try:
                t1 = c_parser.CParser().parse(v, "l.c")
            except Exception as e:  # noqa
                bad.append(f"{fill!r} after the pragma lines of {text!r}: rejected: {type(e).__name__}: {e}")
                continue
            if strip(t1) != want:
                bad.append(f"{fill!r} inserted after the pragma lines of {text!r} gives a different tree (coordinates aside)")
            elif c_generator.CGenerator().visit(t1) != gtext:
                bad.append(f"{fill!r} inserted after the pragma lines of {text!r} gives different generated text")
else:
    print("unknown kind", kind)
    sys.exit(3)

for b_ in bad[:40]:
    print("DISCREPANCY", b_)
print("DISCREPANCIES", len(bad))
