#!/usr/bin/env python3
"""tools/mut.py FILE OLD NEW -- CMD... : run CMD with VERIF_REPO pointing at a scratch copy of /repo
in which OLD (exact text, must occur exactly once unless --all) in pycparser/FILE is replaced by NEW."""
import os, shutil, subprocess, sys, tempfile
args = sys.argv[1:]
allow_all = False
if args[0] == "--all":
    allow_all = True; args = args[1:]
f, old, new = args[:3]
assert args[3] == "--"
cmd = args[4:]
d = tempfile.mkdtemp(prefix="pycp_mut_")
try:
    dst = os.path.join(d, "repo")
    shutil.copytree("/repo", dst, ignore=shutil.ignore_patterns(".git", "__pycache__", "*.egg-info"))
    p = os.path.join(dst, "pycparser", f)
    s = open(p).read()
    old = old.encode().decode("unicode_escape"); new = new.encode().decode("unicode_escape")
    n = s.count(old)
    if n == 0 or (n > 1 and not allow_all):
        print(f"mut: OLD occurs {n} times"); sys.exit(9)
    open(p, "w").write(s.replace(old, new))
    r = subprocess.call(cmd, env=dict(os.environ, VERIF_REPO=dst))
    sys.exit(r)
finally:
    shutil.rmtree(d, ignore_errors=True)
