#!/usr/bin/env python3
"""tools/seedall.py [-j N] [SEEDDIR ...] -- run tools/seedtest.py on every directory under seeded/ (or the given ones),
N at a time, and print one line per seed: exit code of the property's quick check on the changed tree, the first
VIOLATION line's obligation, and whether its replay reproduced the failure on the real code."""
import glob, json, os, re, subprocess, sys
from concurrent.futures import ThreadPoolExecutor

root = os.path.dirname(os.path.dirname(os.path.abspath(__file__)))
args = sys.argv[1:]
jobs = 3
if args[:1] == ["-j"]:
    jobs = int(args[1])
    args = args[2:]
seeds = args or sorted(d for d in glob.glob(os.path.join(root, "seeded", "C*")) if os.path.isdir(d))


def one(d):
    r = subprocess.run([sys.executable, os.path.join(root, "tools", "seedtest.py"), d], capture_output=True, text=True)
    try:
        j = json.loads(r.stdout[r.stdout.index("{"):])
    except Exception:
        return d, None, (r.stdout + r.stderr)[-300:]
    return d, j, ""


caught = replayed = 0
rows = []
with ThreadPoolExecutor(jobs) as ex:
    for d, j, err in ex.map(one, seeds):
        name = os.path.basename(d)
        if j is None:
            print(f"{name:8s} ERROR {err}")
            continue
        p = json.load(open(os.path.join(d, "meta.json")))["property"]
        c = j.get(p, {})
        v = c.get("violations", [])
        ok = j.get("demo_fails_with_change") and j.get("demo_passes_without") and j.get("tests_pass")
        first = ""
        nrep = sum(1 for l in v if not l.rstrip().endswith("no-failing-input-found"))
        if v:
            m = re.search(r"obligation=(.*?)( no-failing-input-found)?$", v[0])
            first = m.group(1) if m else v[0]
        if c.get("exit") == 1:
            caught += 1
            replayed += 1 if nrep else 0
        print(f"{name:8s} seed-ok={bool(ok)} exit={c.get('exit')} replayed={nrep}/{len(v)} {first[:110]} {(c.get('other') or [''])[0][:100] if c.get('exit') != 1 else ''}", flush=True)
print(f"SEEDS {len(seeds)} caught {caught} with-reproducing-replay {replayed}")
