#!/bin/sh
# Run every quick check on the unchanged tree (rewrites evidence/*.json); prints one SUMMARY line per property.
cd "$(dirname "$0")/.." || exit 1
TIER="${1:-quick}"
rc=0
for p in $(python3 -c "import json; print(' '.join(c['property_id'] for c in json.load(open('MANIFEST.json'))['checks']))"); do
  python3-vt check.py "$p" --tier "$TIER" 2>&1 | grep -E "^(SUMMARY|VIOLATION|UNDECIDED|CRASH|KNOWN-FINDING)" | cut -c1-200
done
