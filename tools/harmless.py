#!/usr/bin/env python3
"""tools/harmless.py -- apply a bundle of behaviour-preserving edits to a scratch copy of /repo, check the test suite still
passes, run every quick check against it and report any verdict that is not the one of the unchanged tree.
(renamed locals, reordered independent statements, an extracted helper, a new read-only table, reformatting)"""
import json, os, re, shutil, subprocess, sys, tempfile

EDITS = [
 ("c_parser.py", "        tok = self._tokens.next()\n        if tok is None:\n            self._parse_error(\"At end of input\", self.clex.filename)\n        else:\n            return tok",
                 "        nxt = self._tokens.next()\n        if nxt is None:\n            self._parse_error(\"At end of input\", self.clex.filename)\n        else:\n            return nxt"),
 ("c_parser.py", "        for scope in reversed(self._scope_stack):\n            # If name is an identifier in this scope it shadows typedefs in\n            # higher scopes.\n            if name in scope:\n                return scope[name]",
                 "        for sc in reversed(self._scope_stack):\n            if name in sc:\n                return sc[name]"),
 ("c_parser.py", "        self._lexer = lexer\n        self._buffer: List[Optional[Token]] = []\n        self._index = 0",
                 "        self._index = 0\n        self._lexer = lexer\n        self._buffer: List[Optional[Token]] = []"),
 ("c_parser.py", "                self._expect(\"LPAREN\")\n                cond = self._parse_expression()\n                self._expect(\"RPAREN\")\n                then_stmt = self._parse_pragmacomp_or_statement()\n                if self._accept(\"ELSE\"):\n                    else_stmt = self._parse_pragmacomp_or_statement()\n                    return c_ast.If(cond, then_stmt, else_stmt, self._tok_coord(tok))\n                return c_ast.If(cond, then_stmt, None, self._tok_coord(tok))",
                 "                self._expect(\"LPAREN\")\n                condition = self._parse_expression()\n                self._expect(\"RPAREN\")\n                body = self._parse_pragmacomp_or_statement()\n                where = self._tok_coord(tok)\n                if self._accept(\"ELSE\"):\n                    other = self._parse_pragmacomp_or_statement()\n                    return c_ast.If(condition, body, other, where)\n                return c_ast.If(condition, body, None, where)"),
 ("c_parser.py", "_FUNCTION_SPEC = {\"INLINE\", \"_NORETURN\"}", "_FUNCTION_SPEC = {\n    \"_NORETURN\",\n    \"INLINE\",\n}\n\n_UNUSED_READ_ONLY_TABLE = {\"A\": 1, \"B\": 2}"),
 ("c_parser.py", "    def _mark(self) -> int:\n        return self._tokens.mark()", "    def _mark(self) -> int:\n        position = self._tokens.mark()\n        return position"),
 ("c_lexer.py", "        column = pos - self._line_start + 1\n        tok = Token(tok_type, value, self._lineno, column)\n        return tok",
                "        col = pos - self._line_start + 1\n        return Token(tok_type, value, self._lineno, col)"),
 ("c_generator.py", "        s = \"while (\"\n        if n.cond:\n            s += self.visit(n.cond)\n        s += \")\\n\"\n        s += self._generate_stmt(n.stmt, add_indent=True)\n        return s",
                    "        out = \"while (\"\n        if n.cond:\n            out += self.visit(n.cond)\n        out += \")\\n\"\n        body = self._generate_stmt(n.stmt, add_indent=True)\n        return out + body"),
 ("ast_transforms.py", "    # The new Compound child for the Switch, which will collect children in the\n    # correct order\n    new_compound = c_ast.Compound([], switch_node.stmt.coord)",
                       "    new_compound = c_ast.Compound([], switch_node.stmt.coord)  # collects children in order"),
]

d = tempfile.mkdtemp(prefix="pycp_harmless_")
try:
    dst = os.path.join(d, "repo")
    shutil.copytree("/repo", dst, ignore=shutil.ignore_patterns(".git", "__pycache__", "*.egg-info"))
    for f, old, new in EDITS:
        p = os.path.join(dst, "pycparser", f)
        s = open(p).read()
        if s.count(old) != 1:
            print("harmless: edit does not apply to", f, repr(old[:60])); sys.exit(2)
        open(p, "w").write(s.replace(old, new))
    t = subprocess.run(["/venv/bin/python", "-m", "pytest", "-q", "-p", "no:cacheprovider"], cwd=dst, capture_output=True, text=True)
    print("tests:", t.stdout.strip().splitlines()[-1])
    props = sys.argv[1:] or [c["property_id"] for c in json.load(open("/verif/MANIFEST.json"))["checks"]]
    bad = 0
    for p in props:
        c = subprocess.run(["python3-vt", "/verif/check.py", p, "--tier", "quick"], cwd="/verif", env=dict(os.environ, VERIF_REPO=dst),
                           capture_output=True, text=True)
        lines = [l for l in c.stdout.splitlines() if l.startswith(("VIOLATION", "UNDECIDED", "CRASH"))]
        print(p, "exit", c.returncode, [l[:200] for l in lines[:3]])
        bad += c.returncode != 0
    print("HARMLESS-EDITS:", "all verdicts unchanged" if not bad else f"{bad} checks changed verdict")
    sys.exit(1 if bad else 0)
finally:
    shutil.rmtree(d, ignore_errors=True)
