"""Sidecar contract: CParser._parse_binary_expression (c_parser.py) -- precedence climbing, for ANY number of operators.

Carries C02 (binary operators group by the precedence table and associate to the left; the operator spelling and the
operand order are those of the input) without a bound on the length of the operator chain; the GX obligations cover
chains of up to three operators.

Ghost state (uninterpreted functions of a node reference, defined when the node is created -- `on_new` -- or by the
assumed contract of the callee that returns it):
    lo(n), hi(n)   the half-open span [lo, hi) of token-buffer positions the node's construct covers
    top(n)         precedence of the operator at the root of n if n was built by this function, ATOM for an operand
                   returned by _parse_cast_expression (binds tighter than any binary operator)
    wf(n)          n is an operand, or a BinaryOp whose operator token stands between its operands' spans, whose op is
                   that token's spelling, whose left operand's root binds at least as tightly (left associativity) and
                   whose right operand's root binds strictly tighter, both operands being wf
A wf tree over a given operand/operator sequence is unique (lemma L1, spec/LEMMAS.md): it is the tree C's grammar
6.5.5-6.5.14 assigns.  The postcondition adds maximality: the token after the result is not a binary operator of
precedence >= min_prec, so the whole chain was consumed.
"""
from pyvc import core
from pyvc.smt import SPEC_CONSTS, contract, field_types, predicate
import contracts.parser_core as PC  # noqa: F401

P = "pycparser/c_parser.py"
_cp = core.repo_import("pycparser.c_parser")
SPEC_CONSTS.update(BINPREC=dict(_cp._BINARY_PRECEDENCE))
ATOM = 1000

field_types("Node", coord="any")
field_types("BinaryOp", op="any", left="any", right="any", coord="any")

# ghost functions are owned by a parameterless pseudo contract, so that they are functions of their explicit argument only
contract("ghost.bintree", file=None, params={}, returns="none",
         ghost=[("lo", ["val"], "int", []), ("hi", ["val"], "int", []), ("top", ["val"], "int", []), ("wf", ["val"], "bool", [])],
         trusted="declaration of ghost functions only")

_BUF = "self._tokens._buffer"
_IDX = "self._tokens._index"
# the next token (if it has been lexed already) is not a binary operator binding tighter than the root of x
predicate("next_binds_no_tighter", ["self", "x"],
          f"top(x) == {ATOM} or ({_IDX} < len({_BUF}) and ({_BUF}[{_IDX}] is None or {_BUF}[{_IDX}].type not in BINPREC or "
          f"BINPREC[{_BUF}[{_IDX}].type] <= top(x)))")

_MOD = PC._TSMOD + ["self._tokens._index", "elems(self._scope_stack)", "dicts:*"]

contract("CParser._parse_cast_expression", file=None, params={"self": "CParser"}, returns="Node",
         requires=["parser_ok(self)"],
         ensures=["parser_ok(self)", "ts_prefix_kept(self._tokens)", f"{_IDX} > old({_IDX})", "fresh_obj(result)",
                  f"lo(result) == old({_IDX})", f"hi(result) == {_IDX}", f"top(result) == {ATOM}", "wf(result)"],
         modifies=_MOD, raises=["ParseError"],
         trusted="operand parser seen from the precedence-climbing loop: consumes at least one token and returns a new node "
                 "covering exactly what it consumed (ghost span); its own result is the subject of the GX term obligations")

_PRE = ["parser_ok(self)", "min_prec >= 0", f"min_prec <= {ATOM}",
        f"implies(lhs is not None, wf(lhs) and hi(lhs) == {_IDX} and top(lhs) >= min_prec and next_binds_no_tighter(self, lhs))"]
_POST = ["parser_ok(self)", "ts_prefix_kept(self._tokens)", "wf(result)", f"hi(result) == {_IDX}",
         f"lo(result) == ite(old(lhs) is None, old({_IDX}), lo(old(lhs)))", "top(result) >= min_prec",
         # maximality: what follows is not an operator this invocation should have taken
         f"{_IDX} < len({_BUF}) and ({_BUF}[{_IDX}] is None or {_BUF}[{_IDX}].type not in BINPREC or BINPREC[{_BUF}[{_IDX}].type] < min_prec)",
         # also usable by the caller: the follower binds no tighter than the result's root
         "next_binds_no_tighter(self, result)"]

contract("CParser._parse_binary_expression", file=P, params={"self": "CParser", "min_prec": "int", "lhs": "opt[Node]"}, returns="Node",
         requires=_PRE, ensures=_POST, modifies=_MOD, raises=["ParseError"],
         on_new={"BinaryOp": [
             "lo(new) == lo(left)", "hi(new) == hi(right)", "top(new) == prec",
             "wf(new) == (wf(left) and wf(right) and top(left) >= prec and top(right) > prec and hi(left) + 1 == lo(right) and "
             f"hi(left) >= 0 and hi(left) < len({_BUF}) and {_BUF}[hi(left)] is not None and same({_BUF}[hi(left)].value, op) and "
             f"{_BUF}[hi(left)].type in BINPREC and BINPREC[{_BUF}[hi(left)].type] == prec)"]},
         loops={
             1: dict(inv=["parser_ok(self)", "ts_prefix_kept(self._tokens)", "lhs is not None", "wf(lhs)", f"hi(lhs) == {_IDX}",
                          "top(lhs) >= min_prec", "next_binds_no_tighter(self, lhs)",
                          f"lo(lhs) == ite(old(lhs) is None, old({_IDX}), lo(old(lhs)))"],
                     modifies=_MOD),
             2: dict(inv=["parser_ok(self)", "ts_prefix_kept(self._tokens)", "lhs is not None", "wf(lhs)", "wf(rhs)",
                          f"hi(rhs) == {_IDX}", "hi(lhs) + 1 == lo(rhs)", "top(rhs) > prec", "top(lhs) >= prec", "prec >= min_prec",
                          "next_binds_no_tighter(self, rhs)",
                          f"hi(lhs) >= 0 and hi(lhs) < len({_BUF}) and tok is {_BUF}[hi(lhs)] and tok is not None",
                          "tok.type in BINPREC and BINPREC[tok.type] == prec", "same(op, tok.value)",
                          f"lo(lhs) == ite(old(lhs) is None, old({_IDX}), lo(old(lhs)))"],
                     modifies=_MOD),
         },
         locals_order=["tok", "prec", "op", "rhs", "next_tok", "next_prec"])

FUNCTIONS = ["CParser._parse_binary_expression"]
