"""Declared frame contracts for the FX engine (pure data; nothing of the repository is restated:
classes, functions and fields are looked up in the current tree by the names given here, and
instance fields are always enumerated from the attribute-store sites found on the run).

Location syntax (see pyvc/fx.py):
    self:<Class>.<f>        the binding of instance field f of an object of the owner's footprint
    self:<Class>.<f>.*      objects reachable through that field
    param:<p>.<a> / param:<p>.* / param:<p>.<g>.*     parameter objects
    global:<module>.<name>   class:<Class>.<attr>   default:<Class.func>.<param>   unknown:<why>
"""

# ---- modifies-clauses --------------------------------------------------------------------------
# (glob over 'module.qualname', [globs over locations]); first match wins.  Every clause is
# additionally subject to FORBIDDEN_LOCS.  A function's computed modifies-set must be included in
# its clause; at a call site only the part of the callee's set that its own clause allows is charged
# to the caller (a violation of the callee's clause is reported at the callee).
FRAMES = [
    # import-time table construction
    ("*.<module>", ["global:*", "self:*", "param:*"]),
    # the lexer: its own cursor state, and (through the four callbacks) the scope stack of its parser
    ("c_lexer.CLexer.*", ["self:CLexer.*", "self:CParser._scope_stack.*", "self:<owner>.*"]),
    ("c_lexer.*", ["self:*"]),
    # the token stream: its buffer/index and whatever the lexer may modify
    ("c_parser._TokenStream.*", ["self:_TokenStream.*", "self:CLexer.*", "self:CParser._scope_stack.*", "self:<owner>.*"]),
    # the parser: its footprint (itself, lexer, token stream, scope stack) and the nodes it is handed
    ("c_parser.CParser.*", ["self:CParser.*", "self:CLexer.*", "self:_TokenStream.*", "self:<owner>.*", "param:*"]),
    ("c_parser.*", ["self:*", "param:*"]),
    # the generator: its two fields; (node parameters: see fx_obligations, nothing is proved about them)
    ("c_generator.CGenerator.*", ["self:CGenerator.*", "param:*"]),
    ("c_generator.*", ["self:*", "param:*"]),
    # node classes and visitors: the object itself
    ("c_ast.*", ["self:*", "param:*"]),
    # the transforms restructure the nodes they are given
    ("ast_transforms.*", ["param:*"]),
    # convenience functions: only what the user-supplied parser object does to itself
    ("__init__.*", ["param:parser.*", "param:parser"]),
]

# never allowed after import, whatever the clause says
FORBIDDEN_LOCS = ["global:*", "class:*", "default:*", "unknown:*"]
SHARED_LOCS = ["global:*", "class:*", "default:*"]
UNKNOWN_LOCS = ["unknown:*"]

# ---- classes with persistent state (C12 / C13) ------------------------------------------------------
PERSISTENT_CLASSES = ["c_parser.CParser", "c_lexer.CLexer", "c_parser._TokenStream", "c_generator.CGenerator"]
FOOTPRINT_CLASSES = PERSISTENT_CLASSES + ["c_ast.NodeVisitor"]
# functions that (re-)establish instance state: fields may be *bound* here
INIT_FUNCTIONS = {
    "c_parser.CParser": ["__init__", "parse"],
    "c_lexer.CLexer": ["__init__", "input", "_init_state"],
    "c_parser._TokenStream": ["__init__"],
    "c_generator.CGenerator": ["__init__"],
    "c_ast.NodeVisitor": ["visit"],
}
PARSE_ENTRY = "c_parser.CParser.parse"
PARSE_STATE_CLASSES = ["c_parser.CParser", "c_lexer.CLexer", "c_parser._TokenStream"]
LEXER_ENTRY = "c_lexer.CLexer.input"
LEXER_CLASS = "c_lexer.CLexer"
LAZY_CLASS_ATTRS = [("c_ast.NodeVisitor", "_method_cache")]

GENERATOR_CLASS = "c_generator.CGenerator"
INDENT_FIELD = "indent_level"
GENERATOR_FIELDS = ["indent_level", "reduce_parentheses"]
DEFAULT_ARGS_NOT_MUTATED = [("c_generator.CGenerator._generate_type", "modifiers")]

# display names for type tags
TAG_ALIASES = {
    "c_lexer.Token": "token",
    "c_lexer.CLexer": "lexer",
    "c_parser._TokenStream": "tokenstream",
    "c_parser.Coord": "coord",
}
NODE_TAGS = ["node"]

# ---- C17 ------------------------------------------------------------------------------------------
COORD_MODULES = ["c_parser", "ast_transforms"]
COORD_SOURCE_ATTRS = ["lineno", "column", "filename", "_filename", "coord"]
COORD_STORE_ATTRS = ["coord"]
COORD_CLASS = "c_parser.Coord"
COORD_CTOR_PARAM = "coord"          # parameter of the c_ast constructors that may receive coordinates
GENERATOR_FORBIDDEN_ATTRS = ["coord", "lineno", "column", "file"]

LEXER_TOKEN_FN = "c_lexer.CLexer.token"
LEXER_PPLINE_FN = "c_lexer.CLexer._handle_ppline"
LEXER_MAKE_TOKEN_FN = "c_lexer.CLexer._make_token"
LEXER_LAYOUT_FIELDS = ["_pos", "_line_start", "_lineno", "_filename"]
LEXER_POSITION_SOURCES = ["_lineno", "_line_start"]
LEXER_ERROR_CALLBACK = "error_func"
TOKEN_CLASS = "c_lexer.Token"
TOKEN_POSITION_FIELDS = ["lineno", "column"]

# ---- what FX relies on -----------------------------------------------------------------------------
TRUSTED_BASE = [
    "FX may-alias/effect/def-use/taint analysis (pyvc/fx.py) over the subset of Python without exec/eval/"
    "setattr/globals()/global statements/__setattr__/__getattr__/metaclasses/memoising decorators/threading: "
    "absence checked by the obligation */fx/forbidden-constructs",
    "CPython attribute lookup as modelled: instance attribute first, then class attribute along the MRO; "
    "`self.x.m()` with x bound only in the class mutates the class-level object",
    "methods of builtin/stdlib objects: only append/extend/insert/pop/remove/clear/sort/reverse/update/"
    "setdefault/add/discard(+popitem/appendleft/popleft) mutate their receiver; get/values/items/keys/copy/"
    "subscript/iteration may alias its contents; every other method returns a value or a fresh object",
    "library functions (re.*, subprocess.check_output, io.open, int, str, ...) neither keep nor mutate their arguments",
    "`x += e` on a bare name is an in-place mutation only when a list/set/dict type is inferred for x or e",
]
ASSUMPTIONS_CALLBACKS = (
    "lexer callbacks (error_func/on_lbrace_func/on_rbrace_func/type_lookup_func) are those installed by "
    "CParser.__init__ (bound methods of the same parser); a user-supplied lexer= class or user-supplied "
    "callbacks must honour the same frame"
)
