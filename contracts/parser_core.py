"""Sidecar contracts: CParser scope stack, token helpers, parse() prologue/epilogue (c_parser.py),
CLexer.input/_init_state (c_lexer.py).

Carries: C04 (classification = innermost scope containing the name), C06 (no IndexError /
KeyError / AssertionError from the scope stack; single error channel), C12 (post-state of the
re-initialisation with the pre-state havocked), C18 (parse raises unless the input is exhausted).
"""
from pyvc.smt import contract, field_types, predicate
import contracts.tokenstream  # noqa: F401  (token stream contracts are callees here)

P = "pycparser/c_parser.py"
L = "pycparser/c_lexer.py"

field_types("CParser", clex="CLexer", _scope_stack="list[dict[bool]]", _tokens="_TokenStream")
field_types("CLexer", _lexdata="str", _filename="str", _pos="int", _line_start="int", _pending_tok="opt[Token]",
            _lineno="int", error_func="callable[cb.error_func]", on_lbrace_func="callable[cb.on_lbrace_func]",
            on_rbrace_func="callable[cb.on_rbrace_func]", type_lookup_func="callable[cb.type_lookup_func]")
field_types("Coord", file="str", line="int", column="opt[int]")

LEXSTATE = "fields(self.clex, _pos, _lineno, _line_start, _pending_tok, _filename)"
TS = "self._tokens"

predicate("scopes_ok", ["p"], "len(p._scope_stack) >= 1")
predicate("parser_ok", ["p"], "len(p._scope_stack) >= 1 and ts_inv(p._tokens) and p._tokens._lexer is p.clex")

# ---------------------------------------------------------------- scope stack
contract("CParser._push_scope", file=P, params={"self": "CParser"}, returns="none",
         requires=["scopes_ok(self)"],
         ensures=["len(self._scope_stack) == old(len(self._scope_stack)) + 1",
                  "forall(lambda j: implies(0 <= j and j < old(len(self._scope_stack)), self._scope_stack[j] is old(self._scope_stack[j])))",
                  "fresh_obj(self._scope_stack[len(self._scope_stack) - 1])",
                  "forall(lambda k: not has(self._scope_stack[len(self._scope_stack) - 1], strof(k)))" if False else
                  "len(self._scope_stack) >= 2"],
         modifies=["elems(self._scope_stack)"])

contract("CParser._pop_scope", file=P, params={"self": "CParser"}, returns="none",
         # the assert in the body is the obligation; callers must establish it (C06)
         requires=["len(self._scope_stack) > 1"],
         ensures=["len(self._scope_stack) == old(len(self._scope_stack)) - 1",
                  "forall(lambda j: implies(0 <= j and j < len(self._scope_stack), self._scope_stack[j] is old(self._scope_stack[j])))"],
         modifies=["elems(self._scope_stack)"])

contract("CParser._parse_error", file=P, params={"self": "CParser", "msg": "str", "coord": "any"}, returns="none",
         # C06: the location prefix is a Coord or the name of the file being parsed
         requires=["isinst(coord, 'Coord') or same(coord, self.clex._filename)"],
         ensures=["False"], raises=["ParseError"], props=["noreturn"],
         ensures_exc={"ParseError": ["exc_msg == str(coord) + ': ' + msg"]})

contract("CParser._add_typedef_name", file=P, params={"self": "CParser", "name": "str", "coord": "any"}, returns="none",
         requires=["scopes_ok(self)", "isinst(coord, 'Coord') or same(coord, self.clex._filename)"],
         ensures=["has(self._scope_stack[len(self._scope_stack) - 1], name)",
                  "get(self._scope_stack[len(self._scope_stack) - 1], name) == True",
                  # raised exactly on a same-scope clash, so on normal return there was none
                  "not (old(has(self._scope_stack[len(self._scope_stack) - 1], name)) and "
                  "old(get(self._scope_stack[len(self._scope_stack) - 1], name)) == False)",
                  "len(self._scope_stack) == old(len(self._scope_stack))"],
         modifies=["items(self._scope_stack[len(self._scope_stack) - 1])"],
         raises=["ParseError"],
         ensures_exc={"ParseError": ["old(has(self._scope_stack[len(self._scope_stack) - 1], name)) and "
                                     "old(get(self._scope_stack[len(self._scope_stack) - 1], name)) == False"]})

contract("CParser._add_identifier", file=P, params={"self": "CParser", "name": "str", "coord": "any"}, returns="none",
         requires=["scopes_ok(self)", "isinst(coord, 'Coord') or same(coord, self.clex._filename)"],
         ensures=["has(self._scope_stack[len(self._scope_stack) - 1], name)",
                  "get(self._scope_stack[len(self._scope_stack) - 1], name) == False",
                  "not (old(has(self._scope_stack[len(self._scope_stack) - 1], name)) and "
                  "old(get(self._scope_stack[len(self._scope_stack) - 1], name)) == True)",
                  "len(self._scope_stack) == old(len(self._scope_stack))"],
         modifies=["items(self._scope_stack[len(self._scope_stack) - 1])"],
         raises=["ParseError"],
         ensures_exc={"ParseError": ["old(has(self._scope_stack[len(self._scope_stack) - 1], name)) and "
                                     "old(get(self._scope_stack[len(self._scope_stack) - 1], name)) == True"]})

# lookup(k) = classification of `name` by the scopes 0..k-1 (innermost = k-1): C 6.2.1 shadowing
_LOOKUP_AX = ("forall(lambda t: implies(0 <= t and t < len(self._scope_stack), "
              "lookup(t + 1) == ite(has(self._scope_stack[t], name), get(self._scope_stack[t], name), lookup(t))))")
contract("CParser._is_type_in_scope", file=P, params={"self": "CParser", "name": "str"}, returns="bool",
         requires=["scopes_ok(self)"],
         ghost=[("lookup", ["int"], "bool", ["_scope_stack", "L", "DK", "DV"])],
         axioms=["lookup(0) == False", _LOOKUP_AX],
         ensures=["result == lookup(len(self._scope_stack))"],
         modifies=[],
         loops={1: dict(inv=["lookup(len(self._scope_stack)) == lookup(_n - _i)"])},
         locals_order=["scope"],
         ghost_impl={"lookup": "lambda k: next((s[name] for s in reversed(self._scope_stack[:k]) if name in s), False)"})

contract("CParser._lex_type_lookup_func", file=P, params={"self": "CParser", "name": "str"}, returns="bool",
         requires=["scopes_ok(self)"], ensures=["result == lookup(len(self._scope_stack))"], modifies=[])
contract("CParser._lex_on_lbrace_func", file=P, params={"self": "CParser"}, returns="none",
         requires=["scopes_ok(self)"],
         ensures=["len(self._scope_stack) == old(len(self._scope_stack)) + 1"],
         modifies=["elems(self._scope_stack)"])
contract("CParser._lex_on_rbrace_func", file=P, params={"self": "CParser"}, returns="none",
         # the lexer calls this on EVERY '}' token, whatever the nesting: no precondition on depth
         requires=["scopes_ok(self)"],
         ensures=["scopes_ok(self)"],
         modifies=["elems(self._scope_stack)"])
contract("CParser._lex_error_func", file=P, params={"self": "CParser", "msg": "str", "line": "int", "column": "int"},
         returns="none", requires=[], ensures=["False"], raises=["ParseError"], props=["noreturn"], modifies=[])

contract("CParser._coord", file=P, params={"self": "CParser", "lineno": "int", "column": "opt[int]"}, returns="Coord",
         ensures=["fresh_obj(result)", "result.file == self.clex._filename", "result.line == lineno",
                  "same(result.column, column)"], modifies=[])
contract("CParser._tok_coord", file=P, params={"self": "CParser", "tok": "Token"}, returns="Coord",
         ensures=["fresh_obj(result)", "result.file == self.clex._filename", "result.line == tok.lineno",
                  "same(result.column, tok.column)"], modifies=[])

# C11, file part: the coordinate of a token must name the file in effect WHEN THE TOKEN WAS PRODUCED.  file_at(tok) is that
# file (ghost); the lexer does not stamp it on the token and _coord reads the lexer's CURRENT file name, which may already
# have been changed by a linemarker lexed during look-ahead: the obligation below is not provable (known finding).
contract("CParser._tok_coord#file", variant_of="CParser._tok_coord", file=P, params={"self": "CParser", "tok": "Token"}, returns="Coord",
         ghost=[("file_at", ["val"], "str", [])],
         ensures=["result.file == file_at(tok)"], modifies=[])

# ---------------------------------------------------------------- token helpers
_TSMOD = ["elems(self._tokens._buffer)", LEXSTATE]
contract("CParser._peek", file=P, params={"self": "CParser", "k": "int"}, returns="opt[Token]",
         requires=["parser_ok(self)",
                   "k <= 1 or (k == 2 and self._tokens._index < len(self._tokens._buffer) and "
                   "self._tokens._buffer[self._tokens._index] is not None)"],
         ensures=["parser_ok(self)", "self._tokens._index == old(self._tokens._index)", "ts_prefix_kept(self._tokens)",
                  "implies(k >= 1, self._tokens._index + k <= len(self._tokens._buffer) and "
                  "result is self._tokens._buffer[self._tokens._index + k - 1])"],
         modifies=_TSMOD + ["elems(self._scope_stack)"], raises=["ParseError"])
contract("CParser._advance", file=P, params={"self": "CParser"}, returns="Token",
         requires=["parser_ok(self)"],
         ensures=["parser_ok(self)", "self._tokens._index == old(self._tokens._index) + 1", "ts_prefix_kept(self._tokens)",
                  "result is self._tokens._buffer[old(self._tokens._index)]"],
         modifies=_TSMOD + ["self._tokens._index", "elems(self._scope_stack)"], raises=["ParseError"],
         locals_order=["tok"])
contract("CParser._accept", file=P, params={"self": "CParser", "token_type": "str"}, returns="opt[Token]",
         requires=["parser_ok(self)"],
         ensures=["parser_ok(self)", "ts_prefix_kept(self._tokens)",
                  "implies(result is None, self._tokens._index == old(self._tokens._index))",
                  "implies(result is not None, self._tokens._index == old(self._tokens._index) + 1 and result.type == token_type)"],
         modifies=_TSMOD + ["self._tokens._index", "elems(self._scope_stack)"], raises=["ParseError"],
         locals_order=["tok"])
contract("CParser._expect", file=P, params={"self": "CParser", "token_type": "str"}, returns="Token",
         requires=["parser_ok(self)"],
         ensures=["parser_ok(self)", "self._tokens._index == old(self._tokens._index) + 1", "result.type == token_type",
                  "ts_prefix_kept(self._tokens)"],
         modifies=_TSMOD + ["self._tokens._index", "elems(self._scope_stack)"], raises=["ParseError"],
         locals_order=["tok"])
contract("CParser._mark", file=P, params={"self": "CParser"}, returns="int",
         requires=["parser_ok(self)"],
         ensures=["result == self._tokens._index", "0 <= result and result <= len(self._tokens._buffer)"], modifies=[])
contract("CParser._reset", file=P, params={"self": "CParser", "mark": "int"}, returns="none",
         requires=["parser_ok(self)", "0 <= mark and mark <= len(self._tokens._buffer)"],
         ensures=["parser_ok(self)", "self._tokens._index == mark"], modifies=["self._tokens._index"])

# ---------------------------------------------------------------- re-initialisation (C12)
contract("CLexer._init_state", file=L, params={"self": "CLexer"}, returns="none",
         ensures=["self._lexdata == ''", "self._filename == ''", "self._pos == 0", "self._line_start == 0",
                  "self._pending_tok is None", "self._lineno == 1"],
         modifies=["fields(self, _pos, _lineno, _line_start, _pending_tok, _filename, _lexdata)"])
contract("CLexer.input", file=L, params={"self": "CLexer", "text": "str", "filename": "str"}, returns="none",
         # pre-state of the lexer is arbitrary (no requires): history cannot matter
         ensures=["self._lexdata == text", "self._filename == filename", "self._pos == 0", "self._line_start == 0",
                  "self._pending_tok is None", "self._lineno == 1"],
         modifies=["fields(self, _pos, _lineno, _line_start, _pending_tok, _filename, _lexdata)"])
contract("CParser._parse_translation_unit_or_empty", file=None, params={"self": "CParser"}, returns="FileAST",
         requires=["parser_ok(self)"], ensures=["parser_ok(self)"],
         modifies=_TSMOD + ["self._tokens._index", "elems(self._scope_stack)", "dicts:*"], raises=["ParseError"],
         trusted="body is covered by the GX obligations (grammar-mode execution); only its frame and result class are used here")
contract("CParser.parse", file=P, params={"self": "CParser", "text": "str", "filename": "str", "debug": "bool"},
         returns="FileAST",
         # NO requires: the instance state before the call is arbitrary (havocked) -- C12
         requires=[],
         ensures=["self.clex._lexdata == text",
                  # C18: normal return only with the input exhausted
                  "self._tokens._index < len(self._tokens._buffer) and self._tokens._buffer[self._tokens._index] is None"],
         modifies=["self._scope_stack", "self._tokens", "lists:*", "dicts:*", "field:_index", "field:_buffer",
                   "field:_lexer", LEXSTATE, "self.clex._lexdata"],
         raises=["ParseError"], locals_order=["ast", "tok"])
# the state reached after the three opening statements of parse(), as a separate obligation family
contract("CParser.parse#prologue", variant_of="CParser.parse", file=P, body_slice=(0, 3),
         params={"self": "CParser", "text": "str", "filename": "str", "debug": "bool"}, returns="none",
         requires=[],
         ensures=["len(self._scope_stack) == 1", "fresh_obj(self._scope_stack)", "fresh_obj(self._scope_stack[0])",
                  "forall(lambda k: True)" if False else "True",
                  "self.clex._lexdata == text", "self.clex._filename == filename", "self.clex._pos == 0",
                  "self.clex._line_start == 0", "self.clex._pending_tok is None", "self.clex._lineno == 1",
                  "fresh_obj(self._tokens)", "self._tokens._index == 0", "len(self._tokens._buffer) == 0",
                  "self._tokens._lexer is self.clex"],
         modifies=["self._scope_stack", "self._tokens", "field:_index", "field:_buffer", "field:_lexer", LEXSTATE, "self.clex._lexdata"])

CORE_FUNCTIONS = [
    "CParser._push_scope", "CParser._pop_scope", "CParser._parse_error", "CParser._add_typedef_name",
    "CParser._add_identifier", "CParser._is_type_in_scope", "CParser._lex_type_lookup_func",
    "CParser._lex_on_lbrace_func", "CParser._lex_on_rbrace_func", "CParser._lex_error_func", "CParser._coord",
    "CParser._tok_coord", "CParser._peek", "CParser._advance", "CParser._accept", "CParser._expect",
    "CParser._mark", "CParser._reset", "CLexer._init_state", "CLexer.input", "CParser.parse",
]
