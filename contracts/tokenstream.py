"""Sidecar contracts: _TokenStream (c_parser.py) -- buffered token access, mark/reset.

Carries: C06 (no IndexError from the buffer), C16 (each token lexed once: the buffer only
grows by appending lexer results, a prefix is never re-lexed), C18 (mark/reset move only the
index), C12 (state after construction).
"""
from pyvc.smt import contract, field_types, predicate

F = "pycparser/c_parser.py"

field_types("_TokenStream", _lexer="CLexer", _buffer="list[opt[Token]]", _index="int")
field_types("Token", type="str", value="str", lineno="int", column="int")

# representation invariant of the stream
predicate("ts_inv", ["s"], "0 <= s._index and s._index <= len(s._buffer)")
# a prefix of the buffer is never changed (each token is lexed once, however often we backtrack)
predicate("ts_prefix_kept", ["s"],
          "len(s._buffer) >= old(len(s._buffer)) and "
          "forall(lambda j: implies(0 <= j and j < old(len(s._buffer)), s._buffer[j] is old(s._buffer[j])))")

# The lexer as seen from the stream.  ASSUMED here (trusted): token() returns a Token or None and
# writes only lexer state and -- through the callbacks installed by CParser.__init__ -- the
# parser's scope stack; it never touches a _TokenStream (FX obligations C13/fx/footprint).
contract("CLexer.token", file=None, params={"self": "CLexer"}, returns="opt[Token]",
         modifies=["fields(self, _pos, _lineno, _line_start, _pending_tok, _filename)"],
         raises=["ParseError"],
         trusted="lexer seen from the token stream: result type and frame assumed; "
                 "CLexer.token itself is verified against contracts/lexer.py")

contract("_TokenStream.__init__", file=F, params={"self": "_TokenStream", "lexer": "CLexer"}, returns="none",
         ensures=["self._lexer is lexer", "self._index == 0", "len(self._buffer) == 0", "fresh_obj(self._buffer)"],
         modifies=["self._lexer", "self._buffer", "self._index"], allocates=True)

contract("_TokenStream._fill", file=F, params={"self": "_TokenStream", "n": "int"}, returns="none",
         requires=["ts_inv(self)", "n >= 1"],
         ensures=["ts_inv(self)", "ts_prefix_kept(self)",
                  "len(self._buffer) >= self._index + n or "
                  "(len(self._buffer) > old(len(self._buffer)) and self._buffer[len(self._buffer) - 1] is None)",
                  # lex-once: nothing is requested from the lexer when the buffer is long enough
                  "implies(old(len(self._buffer)) >= self._index + n, len(self._buffer) == old(len(self._buffer)))"],
         modifies=["elems(self._buffer)", "fields(self._lexer, _pos, _lineno, _line_start, _pending_tok, _filename)"],
         raises=["ParseError"],
         loops={1: dict(inv=["ts_inv(self)", "ts_prefix_kept(self)",
                             "implies(old(len(self._buffer)) >= self._index + n, len(self._buffer) == old(len(self._buffer)))"],
                        modifies=["elems(self._buffer)",
                                  "fields(self._lexer, _pos, _lineno, _line_start, _pending_tok, _filename)"])},
         locals_order=["tok"])

contract("_TokenStream.peek", file=F, params={"self": "_TokenStream", "k": "int"}, returns="opt[Token]",
         requires=["ts_inv(self)",
                   # two-token lookahead only after the first token is known to exist
                   "k <= 1 or (k == 2 and self._index < len(self._buffer) and self._buffer[self._index] is not None)"],
         ensures=["ts_inv(self)", "ts_prefix_kept(self)", "self._index == old(self._index)",
                  "implies(k >= 1, self._index + k <= len(self._buffer) and result is self._buffer[self._index + k - 1])",
                  "implies(k <= 0, result is None)"],
         modifies=["elems(self._buffer)", "fields(self._lexer, _pos, _lineno, _line_start, _pending_tok, _filename)"],
         raises=["ParseError"])

contract("_TokenStream.next", file=F, params={"self": "_TokenStream"}, returns="opt[Token]",
         requires=["ts_inv(self)"],
         ensures=["ts_inv(self)", "ts_prefix_kept(self)", "self._index == old(self._index) + 1",
                  "result is self._buffer[old(self._index)]"],
         modifies=["self._index", "elems(self._buffer)",
                   "fields(self._lexer, _pos, _lineno, _line_start, _pending_tok, _filename)"],
         raises=["ParseError"], locals_order=["tok"])

contract("_TokenStream.mark", file=F, params={"self": "_TokenStream"}, returns="int",
         requires=["ts_inv(self)"], ensures=["result == self._index", "0 <= result and result <= len(self._buffer)"],
         modifies=[])

contract("_TokenStream.reset", file=F, params={"self": "_TokenStream", "mark": "int"}, returns="none",
         requires=["ts_inv(self)", "0 <= mark and mark <= len(self._buffer)"],
         ensures=["ts_inv(self)", "self._index == mark"],
         modifies=["self._index"])

FUNCTIONS = ["_TokenStream.__init__", "_TokenStream._fill", "_TokenStream.peek", "_TokenStream.next",
             "_TokenStream.mark", "_TokenStream.reset"]
