"""C14, traversal part: NodeVisitor.visit / generic_visit and Node.show.

These three base-class methods are checked *modularly by execution of the real function objects*
(backend "GX"): the callee on the other side of every call (`children()`, `visit_X`, `generic_visit`,
`child.show`, `buf.write`) is replaced by a recording stub that implements only the callee's
contract, and the caller's contract is checked over the whole finite domain it can distinguish
(49 class names x 49 node classes x cache hit/miss; all 32 flag combinations of show; child counts
0..3 closed by the loop cut: the loop bodies contain no branch that depends on the iteration number).
"""
import io
import itertools

from pyvc import core

FUNCTIONS = []  # nothing for the SMT engine here


def _ob(name, ok, detail, fn, replay=None):
    return core.Ob(name, core.DISCHARGED if ok else core.REFUTED, "GX", 0.0, detail, replay=replay,
                   functions=[fn], sample=detail[:140])


def _mk_node(c_ast, cfg, cls, tag=0):
    fields = cfg[cls]
    kw = {}
    for f, kind in fields:
        kw[f] = f"<{f}{tag}>" if kind == "attr" else ([] if kind == "seq" else None)
    return getattr(c_ast, cls)(**kw)


def structural_obligations() -> core.Result:
    import contracts.c_ast_gen as G

    res = core.Result()
    c_ast = core.repo_import("pycparser.c_ast")
    src = core.Source.get("pycparser/c_ast.py")
    cfg = G.CFG
    classes = [c for c in cfg if hasattr(c_ast, c)]
    NV = c_ast.NodeVisitor
    for q in ("NodeVisitor.visit", "NodeVisitor.generic_visit", "Node.show"):
        if src.has(q):
            res.functions.append(src.func(q))
        else:
            res.obs.append(core.Ob(f"C14/gx/{q}/bind", core.UNDECIDED, "GX", 0.0, f"{q} not found", functions=[q]))
            return res

    # ---- generic_visit: visit() exactly once per element of children(), in order
    class FakeNode:
        def __init__(self, kids):
            self.kids = kids
            self.children_calls = 0

        def children(self):
            self.children_calls += 1
            return tuple(self.kids)

    bad = []
    # the callee contract of visit() says nothing about its result: whatever a visit_X returns (None, a truthy value, a falsy
    # value), every child is still visited
    for retval in (None, True, 0, "x", []):
        for k in range(0, 4):
            kids = [(f"c[{i}]", object()) for i in range(k)]
            v = NV()
            log = []
            v.visit = lambda n, log=log, retval=retval: (log.append(n), retval)[1]
            fn = FakeNode(kids)
            try:
                NV.__dict__["generic_visit"](v, fn)
            except Exception as e:  # noqa
                bad.append(f"k={k}: raised {e!r}")
                continue
            if log != [c for _, c in kids]:
                bad.append(f"k={k}, visit() returning {retval!r}: visit called on {len(log)} objects, expected the {k} children in order")
    # the same with a visitor that has been used before (whatever dispatch state visit() keeps is warm): an overridden / wrapped
    # visit() must still be the one entry point for every child
    for k in range(0, 4):
        kids = [(f"c[{i}]", c_ast.ID(f"k{i}")) for i in range(k)]
        v = NV()
        try:
            NV.__dict__["visit"](v, c_ast.ID("warm"))
            NV.__dict__["visit"](v, c_ast.ExprList([c_ast.ID("warm2")]))
        except Exception as e:  # noqa
            bad.append(f"warm-up raised {e!r}")
            continue
        log = []
        v.visit = lambda n, log=log: log.append(n)
        try:
            NV.__dict__["generic_visit"](v, FakeNode(kids))
        except Exception as e:  # noqa
            bad.append(f"k={k} (used visitor): raised {e!r}")
            continue
        if log != [c for _, c in kids]:
            bad.append(f"k={k}, visitor used before: visit called on {len(log)} objects, expected the {k} children in order "
                       "(children are dispatched without going through visit())")
    rep = ("from pycparser import c_ast\nlog=[]\nclass V(c_ast.NodeVisitor):\n    def visit_ID(self, n):\n        log.append(n.name)\n        return True\n"
           "n = c_ast.ExprList([c_ast.ID('a'), c_ast.ID('b'), c_ast.ID('c')])\nV().visit(n)\nprint(log)\n"
           "print('REPRODUCED' if log != ['a','b','c'] else 'NOT-REPRODUCED')\n")
    res.obs.append(_ob("C14/gx/NodeVisitor.generic_visit/each-child-once-in-order", not bad,
                       "; ".join(bad) or "children counts 0..3: visit called exactly once per child, in order",
                       "NodeVisitor.generic_visit", rep))

    # ---- visit: dispatch on the class name; visit_X intercepts exactly class X
    bad = []
    runs = 0
    for target in classes:
        calls = []
        ns = {"visit_" + target: (lambda self, n, calls=calls: (calls.append(("X", n)), "rx")[1])}
        V = type("V", (NV,), ns)
        v = V()
        v.generic_visit = lambda n, calls=calls: (calls.append(("G", n)), "rg")[1]
        for rnd in (0, 1):  # second round: cache-hit path
            for cls in classes:
                node = _mk_node(c_ast, cfg, cls)
                del calls[:]
                runs += 1
                try:
                    r = NV.__dict__["visit"](v, node)
                except Exception as e:  # noqa
                    bad.append(f"visit_{target} on {cls}: raised {e!r}")
                    continue
                want = [("X" if cls == target else "G", node)]
                if calls != want or r != ("rx" if cls == target else "rg"):
                    bad.append(f"visitor defining visit_{target}, node {cls}, round {rnd}: calls {[(k, type(n).__name__) for k, n in calls]}")
        # a second instance starts with its own (empty) cache
        v2 = V()
        if getattr(v2, "_method_cache", None):
            bad.append(f"fresh visitor instance starts with a non-empty method cache ({target})")
    rep = ("from pycparser import c_ast\nlog=[]\nclass V(c_ast.NodeVisitor):\n    def visit_Constant(self, n): log.append(('C', n.value))\n"
           "    def generic_visit(self, n):\n        log.append(('G', type(n).__name__)); c_ast.NodeVisitor.generic_visit(self, n)\n"
           "n = c_ast.BinaryOp('+', c_ast.ID('a'), c_ast.Constant('int','1'))\nv=V(); v.visit(n); v.visit(n)\nprint(log)\n"
           "want=[('G','BinaryOp'),('G','ID'),('C','1')]*2\nprint('REPRODUCED' if log != want else 'NOT-REPRODUCED')\n")
    res.obs.append(_ob("C14/gx/NodeVisitor.visit/dispatch-by-class", not bad,
                       "; ".join(bad[:5]) or f"{runs} (visitor class, node class, cache state) combinations: visit_X called iff class is X",
                       "NodeVisitor.visit", rep))

    # ---- show: exactly one line for the node itself, then child.show once per child, flags passed through
    class Kid:
        def __init__(self):
            self.calls = []

        def show(self, buf, **kw):
            self.calls.append(dict(kw, _buf=buf))
            buf.write("K\n")

    class Buf:
        def __init__(self):
            self.parts = []

        def write(self, s):
            self.parts.append(s)

    class FalsyBuf(Buf):
        # the contract of `buf` is `write(str)` and nothing else: a sink whose truth value is False (an empty list-like
        # collector) is as good as any other
        def __bool__(self):
            return False

        def __len__(self):
            return 0

    bad = []
    runs = 0
    for cls in classes:
        fields = cfg[cls]
        for flags in itertools.product((False, True), repeat=4):
            attrnames, showempty, nodenames, showcoord = flags
            for nkids in (0, 1, 3, -3):
                kw = {}
                kids = []
                for f, kind in fields:
                    if kind == "attr":
                        kw[f] = f"<{f}>"
                    elif kind == "child":
                        k = Kid()
                        kids.append(k)
                        kw[f] = k
                    else:
                        ks = [Kid() for _ in range(abs(nkids))]
                        kids += ks
                        kw[f] = ks
                node = getattr(c_ast, cls)(**kw)
                expected = [c for _, c in node.children()]
                buf = FalsyBuf() if nkids < 0 else Buf()
                runs += 1
                try:
                    c_ast.Node.__dict__["show"](node, buf, offset=4, attrnames=attrnames, showemptyattrs=showempty,
                                                nodenames=nodenames, showcoord=showcoord, _my_node_name="me")
                except Exception as e:  # noqa
                    bad.append(f"{cls}{flags}: raised {e!r}")
                    continue
                text = "".join(buf.parts)
                own = text.replace("K\n", "")
                if own.count("\n") != 1 or not own.endswith("\n") or not own.startswith("    " + cls):
                    bad.append(f"{cls}{flags}: the node's own output is {own!r} (must be exactly one line)")
                if text != own + "K\n" * len(expected):
                    bad.append(f"{cls}{flags}: children are not printed after the node's line")
                for k in expected:
                    if len(k.calls) != 1:
                        bad.append(f"{cls}{flags}: child.show called {len(k.calls)} times")
                    elif k.calls[0].get("_buf") is not buf:
                        bad.append(f"{cls}{flags}: the child is not shown into the buffer that was given")
                    elif not (k.calls[0].get("offset") == 6 and k.calls[0].get("attrnames") == attrnames
                              and k.calls[0].get("showemptyattrs") == showempty and k.calls[0].get("nodenames") == nodenames
                              and k.calls[0].get("showcoord") == showcoord):
                        bad.append(f"{cls}{flags}: flags/offset not passed through to the child: {k.calls[0]}")
    # the same contract when one node object occupies several child slots (the parser builds such ASTs: one struct body
    # under several declarators): every occurrence is a child and gets its line; show keeps no memory between siblings
    import io as _io
    for cls in classes:
        fields = cfg[cls]
        shared = c_ast.ID("shared")
        kw = {}
        for f, kind in fields:
            kw[f] = f"<{f}>" if kind == "attr" else (shared if kind == "child" else [shared, shared])
        node = getattr(c_ast, cls)(**kw)
        occ = len(node.children())
        if occ < 2:
            continue
        runs += 1
        sb = _io.StringIO()
        try:
            node.show(buf=sb)
        except Exception as e:  # noqa
            bad.append(f"{cls} with one node in {occ} child slots: raised {e!r}")
            continue
        if len(sb.getvalue().splitlines()) != 1 + occ:
            bad.append(f"{cls} with one node object in {occ} child slots: show() prints {len(sb.getvalue().splitlines())} lines, "
                       f"expected {1 + occ} (one per child occurrence)")
    rep = ("import io\nfrom pycparser import c_parser\nast = c_parser.CParser().parse('struct P{int x;} a, b; int f(int a){ return a + 1; }')\n"
           "n=[0]\ndef cnt(x):\n    n[0]+=1\n    for _, c in x.children(): cnt(c)\ncnt(ast)\nb=io.StringIO(); ast.show(buf=b)\n"
           "print(n[0], len(b.getvalue().splitlines()))\nprint('REPRODUCED' if n[0] != len(b.getvalue().splitlines()) else 'NOT-REPRODUCED')\n")
    res.obs.append(_ob("C14/gx/Node.show/one-line-per-node", not bad,
                       "; ".join(bad[:5]) or f"{runs} (class, flags, child count) combinations: one line for the node, child.show once per child with offset+2",
                       "Node.show", rep))
    res.extra["gx_runs_visitor"] = runs
    res.trusted_base.append("CPython executes the real NodeVisitor.visit/generic_visit/Node.show function objects; recording stubs "
                            "implement the callee contracts (children() = tuple of (name, child) pairs, proved by C14/smt)")
    res.assumptions.append("Node.show: values of attr_names fields print without a newline (checked separately on the producer side)")
    return res
