"""Contracts for the 49 node classes of c_ast.py, GENERATED from pycparser/_c_ast.cfg by an
independent reader (not by _ast_gen.py).  Carries C14."""
import os
import re

from pyvc import core
from pyvc.smt import contract, field_types, predicate

A = "pycparser/c_ast.py"


def read_cfg():
    """{class: [(field, kind)]} with kind in 'attr' | 'child' | 'seq', in specification order."""
    out = {}
    for line in open(os.path.join(core.REPO, "pycparser", "_c_ast.cfg"), encoding="utf-8"):
        line = line.split("#", 1)[0].strip()
        if not line:
            continue
        m = re.fullmatch(r"(\w+)\s*:\s*\[(.*)\]", line)
        if not m:
            raise ValueError(f"_c_ast.cfg: cannot read {line!r}")
        fields = []
        for ent in [e.strip() for e in m.group(2).split(",") if e.strip()]:
            if ent.endswith("**"):
                fields.append((ent[:-2], "seq"))
            elif ent.endswith("*"):
                fields.append((ent[:-1], "child"))
            else:
                fields.append((ent, "attr"))
        out[m.group(1)] = fields
    return out


predicate("pair_at", ["r", "k", "nm", "v"],
          "allocated(elems(r)[k]) and len(elems(r)[k]) == 2 and same(elems(elems(r)[k])[0], nm) and same(elems(elems(r)[k])[1], v)")

CFG = read_cfg()
FUNCTIONS = []


def _ind(f):
    return f"(1 if self.{f} is not None else 0)"


def _slen(f):
    return f"ite(self.{f} is None, 0, len(self.{f}))"


def _sum(parts):
    return " + ".join(parts) if parts else "0"


for cls, fields in CFG.items():
    singles = [f for f, k in fields if k == "child"]
    seqs = [f for f, k in fields if k == "seq"]
    ft = {f: ("opt[list[any]]" if k == "seq" else "any") for f, k in fields}
    ft["coord"] = "any"
    field_types(cls, **ft)
    params = {"self": cls}
    for f, k in fields:
        params[f] = "opt[list[any]]" if k == "seq" else "any"
    params["coord"] = "any"
    # __init__: every field (in specification order, then coord) is stored
    contract(f"{cls}.__init__", file=A, params=params, returns="none",
             ensures=[f"same(self.{f}, {f})" for f, _ in fields] + ["same(self.coord, coord)"],
             modifies=[f"self.{f}" for f, _ in fields] + ["self.coord"])
    # children(): single children first (spec order, absent ones skipped), then sequences with indexed names
    ens = [f"len(result) == {_sum([_ind(f) for f in singles] + [_slen(f) for f in seqs])}"]
    facts_before_loop = {}
    acc = []
    for j, f in enumerate(singles):
        pos = _sum([_ind(g) for g in singles[:j]])
        acc.append(("implies(self.%s is not None, pair_at({R}, %s, '%s', self.%s))" % (f, pos, f, f)))
    base_parts = [_ind(f) for f in singles]
    loops, loops_it = {}, {}
    for r, q in enumerate(seqs, 1):
        base = _sum(base_parts)
        body = ("pair_at({R}, %s + i, '%s[' + str(i) + ']', self.%s[i])" % (base, q, q))
        full = "implies(self.%s is not None, forall(lambda i: implies(0 <= i and i < len(self.%s), %s)))" % (q, q, body)
        part = "forall(lambda i: implies(0 <= i and i < _i, %s))" % body
        loops[r] = dict(inv=[c.format(R="nodelist") for c in acc] + [part.format(R="nodelist"),
                                                                   f"len(nodelist) == {base} + _i",
                                                                   f"_n == {_slen(q)}"])
        acc.append(full)
        base_parts.append(_slen(q))
    contract(f"{cls}.children", file=A, params={"self": cls}, returns="any",
             ensures=ens + [c.format(R="result") for c in acc], modifies=[], loops=loops,
             locals_order=["nodelist"] + (["i", "child"] if seqs else []))
    # __iter__: the second components of children(), in the same order
    acc2 = []
    for j, f in enumerate(singles):
        pos = _sum([_ind(g) for g in singles[:j]])
        acc2.append("implies(self.%s is not None, same({R}[%s], self.%s))" % (f, pos, f))
    base_parts = [_ind(f) for f in singles]
    loops2 = {}
    for r, q in enumerate(seqs, 1):
        base = _sum(base_parts)
        body = "same({R}[%s + i], self.%s[i])" % (base, q)
        full = "implies(self.%s is not None, forall(lambda i: implies(0 <= i and i < len(self.%s), %s)))" % (q, q, body)
        part = "forall(lambda i: implies(0 <= i and i < _i, %s))" % body
        loops2[r] = dict(inv=[c.format(R="__yield") for c in acc2] + [part.format(R="__yield"),
                                                                     f"len(__yield) == {base} + _i",
                                                                     f"_n == {_slen(q)}"])
        acc2.append(full)
        base_parts.append(_slen(q))
    contract(f"{cls}.__iter__", file=A, params={"self": cls}, returns="any",
             ensures=[f"len(result) == {_sum([_ind(f) for f in singles] + [_slen(f) for f in seqs])}"]
             + [c.format(R="result") for c in acc2], modifies=[], loops=loops2,
             locals_order=(["child"] if seqs else []))
    FUNCTIONS += [f"{cls}.__init__", f"{cls}.children", f"{cls}.__iter__"]
