"""Sidecar contracts: CLexer (c_lexer.py) -- scanning loop, longest match, line/column accounting.

Carries C09 (lossless, longest-match, position-exact, progress), C11 (line/column of tokens and errors),
C04 (ID vs TYPEID vs keyword; brace callbacks), C06 (error rules always advance; no stray exception),
C17 (layout characters produce no token and change only position state).

`re` is outside the verified text: its contract is ASSUMED (R1-R4, DESIGN 2.4) and validated by the RX
obligations (C09/rx/nonempty, C09/rx/no-newline, C10/bounded/re-contract).
"""
from pyvc import core
from pyvc.smt import CLASSES, CLASS_METHODS, SPEC_CONSTS, contract, field_types, predicate
import contracts.parser_core  # noqa: F401  (field types of CLexer / Token)

L = "pycparser/c_lexer.py"

# ---------------------------------------------------------------- assumed contract of `re`
CLASSES.add("Match", [])
field_types("Match", _start="int", _len="int", lastgroup="opt[str]", _text="str")
CLASS_METHODS["Match"] = {"group": "Match.group"}
_lex = core.repo_import("pycparser.c_lexer")
_TOKEN_RULES = [r.tok_type for r in _lex._regex_rules if r.action != _lex._RegexAction.ERROR]
_ALL_RULES = [r.tok_type for r in _lex._regex_rules]
SPEC_CONSTS.update(MASTER=_lex._regex_master, RULES=tuple(_ALL_RULES), TOKEN_RULES=tuple(_TOKEN_RULES),
                   KEYWORDS=frozenset(_lex._keyword_map))

contract("re.Pattern.match", file=None, params={"pat": "any", "text": "str", "pos": "int"}, returns="opt[Match]",
         requires=["0 <= pos"],
         ensures=[
             # R3: the match is a substring of the text starting at pos (and lies inside the text)
             "implies(result is not None, result._start == pos and result._len >= 0 and pos + result._len <= len(text) and result._text == text)",
             # RX C09/rx/nonempty: no rule of the master regex matches the empty string
             "implies(result is not None and pat is MASTER, result._len >= 1 and result.lastgroup is not None and result.lastgroup in RULES)",
             # RX C09/rx/no-newline: no token rule matches text containing a newline
             "implies(result is not None and pat is MASTER and result.lastgroup in TOKEN_RULES, "
             "forall(lambda i: implies(pos <= i and i < pos + result._len, char_at(text, i) != '\\n')))",
         ],
         calls=[], modifies=[], trusted="contract of re.Pattern.match ASSUMED (R1-R4); validated by RX obligations and bounded enumeration")
contract("Match.group", file=None, params={"self": "Match", "name": "any"}, returns="str",
         ensures=["result == substr(self._text, self._start, self._start + self._len)", "len(result) == self._len"],
         calls=[], modifies=[], trusted="contract of re.Match.group ASSUMED (the named group of the last alternative spans the whole match)")

# ---------------------------------------------------------------- callbacks (as seen from the lexer)
for cb, params, ret in (("cb.error_func", {"msg": "str", "line": "int", "column": "int"}, "any"),
                        ("cb.on_lbrace_func", {}, "any"), ("cb.on_rbrace_func", {}, "any"),
                        ("cb.type_lookup_func", {"name": "str"}, "any")):
    contract(cb, file=None, params=params, returns=ret, modifies=[], raises=["CallbackError"],
             trusted="callbacks do not touch lexer state (FX C13/fx/footprint); whatever they raise propagates")

contract("cb.error_func#raises", file=None, params={"msg": "str", "line": "int", "column": "int"}, returns="any", modifies=[],
         raises=["CallbackError"], ensures=["False"], props=["noreturn"],
         trusted="view in which the error callback never returns (what CParser installs: _lex_error_func always raises, C06/smt)")

predicate("lex_inv", ["x"],
          "0 <= x._line_start and x._line_start <= x._pos and x._lineno >= 0 and "
          # no newline between the recorded line start and the current position: columns are exact
          "forall(lambda i: implies(x._line_start <= i and i < x._pos and i < len(x._lexdata), char_at(x._lexdata, i) != '\\n'))")

contract("CLexer._make_token", file=L, params={"self": "CLexer", "tok_type": "str", "value": "str", "pos": "int"}, returns="Token",
         ensures=["fresh_obj(result)", "result.type == tok_type", "result.value == value", "result.lineno == self._lineno",
                  "result.column == pos - self._line_start + 1"], modifies=[], locals_order=["column", "tok"], calls=[])
contract("CLexer._error", file=L, params={"self": "CLexer", "msg": "str", "pos": "int"}, returns="none",
         ensures=[], modifies=[], raises=["CallbackError"],
         # the error callback is told the line and the column of exactly that position
         calls=[("cb.error_func", ["msg", "self._lineno", "pos - self._line_start + 1"])], locals_order=["column"])

_FIXED = [(ft.tok_type, ft.literal) for ft in _lex._fixed_tokens]
# longest match against EVERY fixed token that is a prefix at this position (C09); one clause (a conjunction)
_longest = "implies(result is not None, " + " and ".join(
    "implies(old(self._lexdata).startswith(%r, old(self._pos)), len(result.value) >= %d)" % (lit, len(lit)) for _, lit in _FIXED) + ")"
_MT_REQ = ["lex_inv(self)", "self._pos < len(self._lexdata)"]
_MT_ENS = ["implies(result is not None, lex_inv(self))",
           # progress (C06/C09: error rules and illegal characters always advance)
           "self._pos > old(self._pos)", "self._pos <= len(self._lexdata)",
           "self._line_start == old(self._line_start)", "self._lineno == old(self._lineno)",
           # never silently skipping: no token <=> exactly one error report, at the offending position
           "implies(result is None, ncalls('cb.error_func') == old(ncalls('cb.error_func')) + 1 and callarg('cb.error_func', 0, 1) == self._lineno and "
           "callarg('cb.error_func', 0, 2) == old(self._pos) - self._line_start + 1)",
           "implies(result is not None, ncalls('cb.error_func') == old(ncalls('cb.error_func')))",
           # lossless and position exact
           "implies(result is not None, self._pos == old(self._pos) + len(result.value) and "
           "result.value == substr(self._lexdata, old(self._pos), self._pos) and "
           "result.lineno == self._lineno and result.column == old(self._pos) - self._line_start + 1)",
           # classification of identifiers: keyword, else TYPEID iff the lookup callback says so (C04)
           "implies(result is not None and result.type == 'TYPEID', ncalls('cb.type_lookup_func') == old(ncalls('cb.type_lookup_func')) + 1 and "
           "same(callarg('cb.type_lookup_func', 0, 0), result.value) and result.value not in KEYWORDS)",
           "implies(result is not None and result.type == 'ID', result.value not in KEYWORDS and "
           "ncalls('cb.type_lookup_func') == old(ncalls('cb.type_lookup_func')) + 1 and "
           "same(callarg('cb.type_lookup_func', 0, 0), result.value) and not truthy(callres('cb.type_lookup_func', 0)))",
           "implies(result is not None and result.type == 'TYPEID', truthy(callres('cb.type_lookup_func', 0)))",
           # scope callbacks: exactly once per brace token produced (C04)
           "iff(result is not None and result.type == 'LBRACE', ncalls('cb.on_lbrace_func') == old(ncalls('cb.on_lbrace_func')) + 1)",
           "iff(result is not None and result.type == 'RBRACE', ncalls('cb.on_rbrace_func') == old(ncalls('cb.on_rbrace_func')) + 1)",
           _longest]
_MT_LABELS = {_longest: "longest-match-vs-fixed-tokens", _MT_ENS[1]: "progress", _MT_ENS[5]: "error-reported-at-position",
              _MT_ENS[7]: "lossless-position-exact", _MT_ENS[8]: "typeid-classification", _MT_ENS[9]: "id-classification",
              _MT_ENS[10]: "typeid-iff-lookup", _MT_ENS[11]: "lbrace-callback", _MT_ENS[12]: "rbrace-callback"}
# the function is verified once per first character class (the bucket keys of the real _fixed_tokens_by_first, plus
# "any other character"): the case split is exhaustive by construction
_KEYS = sorted(_lex._fixed_tokens_by_first)
MATCH_VARIANTS = []
for _i, _k in enumerate(_KEYS + [None]):
    _name = "CLexer._match_token#%s" % ("other" if _k is None else "U+%04X" % ord(_k))
    _extra = ("char_at(self._lexdata, self._pos) == %r" % _k) if _k is not None else \
        " and ".join("char_at(self._lexdata, self._pos) != %r" % k for k in _KEYS)
    contract(_name, variant_of="CLexer._match_token", file=L, params={"self": "CLexer"}, returns="opt[Token]",
             requires=_MT_REQ + [_extra], ensures=_MT_ENS, modifies=["self._pos"], raises=["CallbackError"], labels=_MT_LABELS)
    MATCH_VARIANTS.append(_name)
# progress view (error callback may return): no position invariant needed
_PR_ENS = ["self._pos > old(self._pos)", "self._pos <= len(self._lexdata)",
           "implies(result is None, ncalls('cb.error_func') == old(ncalls('cb.error_func')) + 1)"]
PROGRESS_VARIANTS = []
for _k in _KEYS + [None]:
    _name = "CLexer._match_token#progress/%s" % ("other" if _k is None else "U+%04X" % ord(_k))
    _extra = ("char_at(self._lexdata, self._pos) == %r" % _k) if _k is not None else \
        " and ".join("char_at(self._lexdata, self._pos) != %r" % k for k in _KEYS)
    contract(_name, variant_of="CLexer._match_token", file=L, params={"self": "CLexer"}, returns="opt[Token]",
             requires=["0 <= self._pos", "self._pos < len(self._lexdata)", _extra], ensures=_PR_ENS, modifies=["self._pos"],
             raises=["CallbackError"])
    PROGRESS_VARIANTS.append(_name)
contract("CLexer._match_token#progress", file=L, params={"self": "CLexer"}, returns="opt[Token]",
         requires=["0 <= self._pos", "self._pos < len(self._lexdata)"], ensures=_PR_ENS, modifies=["self._pos"], raises=["CallbackError"])
# the contract callers use
contract("CLexer._match_token", file=L, params={"self": "CLexer"}, returns="opt[Token]",
         requires=_MT_REQ, ensures=_MT_ENS, modifies=["self._pos"], raises=["CallbackError"], labels=_MT_LABELS,
         calls=None)

FUNCS_BASE = ["CLexer._make_token", "CLexer._error", "CLexer._error#raises"] + MATCH_VARIANTS
C11_FUNCTIONS = FUNCS_BASE
C17_FUNCTIONS = []
C06_FUNCTIONS = FUNCS_BASE
C09_FUNCTIONS = FUNCS_BASE
C04_FUNCTIONS = MATCH_VARIANTS

# ---------------------------------------------------------------- the scanning loop
LEXMOD = ["self._pos", "self._lineno", "self._line_start", "self._pending_tok", "self._filename"]
# nl(k) = number of newline characters in text[0:k]  (line numbers count newlines)
_NL_GHOST = [("nl", ["int"], "int", ["_lexdata"])]
_NL_IMPL = {"nl": "lambda k: self._lexdata.count('\\n', 0, max(0, k))"}   # executable definition for the run-time contract monitor
_NL_AX = ["nl(0) == 0",
          "forall(lambda k: implies(0 <= k and k < len(self._lexdata), "
          "nl(k + 1) == nl(k) + (1 if char_at(self._lexdata, k) == '\\n' else 0)))"]

_EXACT = {"cb.error_func": "cb.error_func#raises", "CLexer._error": "CLexer._error#raises"}
contract("CLexer._error#raises", variant_of="CLexer._error", file=L, params={"self": "CLexer", "msg": "str", "pos": "int"}, returns="none",
         use={"cb.error_func": "cb.error_func#raises"}, ensures=["False"], modifies=[], raises=["CallbackError"], props=["noreturn"],
         locals_order=["column"])
contract("CLexer._handle_ppline", file=L, params={"self": "CLexer"}, returns="none",
         requires=["lex_inv(self)", "self._pos <= len(self._lexdata)"],
         ensures=["lex_inv(self)", "self._pos > old(self._pos) or self._pos >= len(self._lexdata)",
                  "self._pos >= old(self._pos)", "self._pos <= len(self._lexdata) + 1", "same(self._pending_tok, old(self._pending_tok))"],
         modifies=["self._pos", "self._lineno", "self._line_start", "self._filename"], raises=["CallbackError"],
         props=["logged"], trusted="body not verified in this revision (nested closures over regex slices); frame, progress and "
                                   "re-establishment of the line-start invariant (it sets _line_start = _pos) assumed")
contract("CLexer._handle_pppragma", file=L, params={"self": "CLexer"}, returns="list[Token]",
         requires=["lex_inv(self)", "self._pos <= len(self._lexdata)"],
         ensures=["lex_inv(self)", "self._pos >= old(self._pos)", "self._pos <= len(self._lexdata)",
                  "self._pos > old(self._pos) or self._pos >= len(self._lexdata)",
                  "len(result) <= 2", "same(self._pending_tok, old(self._pending_tok))",
                  "implies(len(result) >= 1, result[0].type == 'PPPRAGMA')",
                  "implies(len(result) == 2, result[1].type == 'PPPRAGMASTR')"],
         modifies=["self._pos", "self._lineno", "self._line_start"], raises=["CallbackError"], props=["logged"],
         trusted="body verified separately (CLexer._handle_pppragma#body) when listed in the evidence; otherwise assumed")
_NOERR = "ncalls('CLexer._handle_ppline') == old(ncalls('CLexer._handle_ppline')) and ncalls('CLexer._handle_pppragma') == old(ncalls('CLexer._handle_pppragma'))"

# exact view: the error callback raises (as installed by CParser), so positions stay exact on every path that continues
contract("CLexer.token#exact", variant_of="CLexer.token", file=L, params={"self": "CLexer"}, returns="opt[Token]", use=_EXACT,
         requires=["lex_inv(self)", "self._pos <= len(self._lexdata) + 1"], ghost=_NL_GHOST, ghost_impl=_NL_IMPL, axioms=_NL_AX,
         ensures=[
             "lex_inv(self)",
             "self._pos >= old(self._pos)",
             # None only at the end of the input: nothing after the last token is skipped
             "implies(result is None, self._pos >= len(self._lexdata) and old(self._pending_tok) is None)",
             # the stashed PPPRAGMASTR is delivered first, once
             "implies(old(self._pending_tok) is not None, result is old(self._pending_tok) and self._pending_tok is None and self._pos == old(self._pos))",
             # an ordinary token (also '#'): spelled exactly by the text it ends at, stamped with the line and column where it starts
             "implies(result is not None and old(self._pending_tok) is None and ncalls('CLexer._handle_pppragma') == old(ncalls('CLexer._handle_pppragma')), "
             "result.value == substr(self._lexdata, self._pos - len(result.value), self._pos) and "
             "result.lineno == self._lineno and result.column == self._pos - len(result.value) - self._line_start + 1)",
             # never silently skipping: without directives, everything between the old position and the token is layout
             "implies(result is not None and old(self._pending_tok) is None and " + _NOERR + ", "
             "forall(lambda i: implies(old(self._pos) <= i and i < self._pos - len(result.value), "
             "char_at(self._lexdata, i) == ' ' or char_at(self._lexdata, i) == '\\t' or char_at(self._lexdata, i) == '\\n')))",
             # line accounting: without directives the line number advances by exactly the newlines consumed
             "implies(" + _NOERR + " and old(self._pending_tok) is None and self._pos <= len(self._lexdata), "
             "self._lineno - nl(self._pos - (0 if result is None else len(result.value))) == old(self._lineno) - nl(old(self._pos)))",
         ],
         modifies=LEXMOD, raises=["CallbackError"],
         loops={1: dict(inv=["lex_inv(self)", "self._pos >= old(self._pos)", "self._pos <= len(self._lexdata) + 1",
                             "self._pending_tok is None", "n == len(self._lexdata)", "text == self._lexdata",
                             "implies(" + _NOERR + ", forall(lambda i: implies(old(self._pos) <= i and i < self._pos and i < n, "
                             "char_at(self._lexdata, i) == ' ' or char_at(self._lexdata, i) == '\\t' or char_at(self._lexdata, i) == '\\n')))",
                             "implies(" + _NOERR + " and self._pos <= len(self._lexdata), "
                             "self._lineno - nl(self._pos) == old(self._lineno) - nl(old(self._pos)))"],
                        modifies=LEXMOD)},
         locals_order=["text", "n", "tok", "toks"])
# progress view: the error callback may return; the scan still terminates and stops only at the end of the input
contract("CLexer._handle_ppline#progress", file=None, params={"self": "CLexer"}, returns="none",
         requires=["0 <= self._pos"], ensures=["self._pos > old(self._pos) or self._pos >= len(self._lexdata)", "self._pos >= old(self._pos)",
                                              "same(self._pending_tok, old(self._pending_tok))"],
         modifies=["self._pos", "self._lineno", "self._line_start", "self._filename"], raises=["CallbackError"],
         trusted="progress of _handle_ppline assumed (it always sets _pos = line_end + 1 or reports)")
contract("CLexer._handle_pppragma#progress", file=None, params={"self": "CLexer"}, returns="list[Token]",
         requires=["0 <= self._pos"], ensures=["self._pos > old(self._pos) or self._pos >= len(self._lexdata)", "self._pos >= old(self._pos)",
                                              "len(result) <= 2", "same(self._pending_tok, old(self._pending_tok))"],
         modifies=["self._pos", "self._lineno", "self._line_start"], raises=["CallbackError"],
         trusted="progress of _handle_pppragma verified as CLexer._handle_pppragma#body when listed")
contract("CLexer.token#progress", variant_of="CLexer.token", file=L, params={"self": "CLexer"}, returns="opt[Token]",
         use={"CLexer._match_token": "CLexer._match_token#progress", "CLexer._handle_ppline": "CLexer._handle_ppline#progress",
              "CLexer._handle_pppragma": "CLexer._handle_pppragma#progress"},
         requires=["0 <= self._pos"],
         ensures=["self._pos >= old(self._pos)",
                  "implies(result is None, self._pos >= len(self._lexdata))",
                  "implies(old(self._pending_tok) is None and result is not None, self._pos > old(self._pos))"],
         modifies=LEXMOD, raises=["CallbackError"],
         loops={1: dict(inv=["self._pos >= old(self._pos)", "0 <= self._pos", "n == len(self._lexdata)", "text == self._lexdata",
                             "self._pending_tok is None"],
                        dec="n + 1 - self._pos", modifies=LEXMOD)},
         locals_order=["text", "n", "tok", "toks"])

TOKEN_FUNCTIONS = ["CLexer.token#exact", "CLexer.token#progress"] + PROGRESS_VARIANTS
C11_FUNCTIONS = FUNCS_BASE + ["CLexer.token#exact"]
C09_FUNCTIONS = FUNCS_BASE + TOKEN_FUNCTIONS
C06_FUNCTIONS = ["CLexer._error"] + PROGRESS_VARIANTS + ["CLexer.token#progress"]
C17_FUNCTIONS = ["CLexer.token#exact"]

# ---------------------------------------------------------------- #pragma sub-scanner (body)
_BL = "(char_at(text, %s) == ' ' or char_at(text, %s) == '\\t')"
contract("CLexer._handle_pppragma#body", variant_of="CLexer._handle_pppragma", file=L, params={"self": "CLexer"}, returns="list[Token]",
         use=_EXACT,
         requires=["lex_inv(self)", "self._pos <= len(self._lexdata)"],
         ensures=["lex_inv(self)", "self._pos >= old(self._pos)", "self._pos <= len(self._lexdata)",
                  "self._pos > old(self._pos) or self._pos >= len(self._lexdata)",
                  "len(result) <= 2", "same(self._pending_tok, old(self._pending_tok))",
                  # PPPRAGMA sits on the word `pragma`, stamped with the line of the directive and its exact column
                  "implies(len(result) >= 1, result[0].type == 'PPPRAGMA' and result[0].value == 'pragma' and "
                  "result[0].lineno == old(self._lineno) and result[0].column >= old(self._pos) - old(self._line_start) + 1)",
                  # ... exactly: the token starts at the word `pragma`, and only blanks lie between the old position and it
                  "implies(len(result) >= 1, substr(self._lexdata, result[0].column - 1 + old(self._line_start), "
                  "result[0].column - 1 + old(self._line_start) + 6) == 'pragma' and "
                  "forall(lambda i: implies(old(self._pos) <= i and i < result[0].column - 1 + old(self._line_start), "
                  "char_at(self._lexdata, i) == ' ' or char_at(self._lexdata, i) == '\\t')))",
                  # PPPRAGMASTR is the rest of the line, verbatim, without leading blanks and without the newline
                  "implies(len(result) == 2, result[1].type == 'PPPRAGMASTR' and len(result[1].value) >= 1 and "
                  "result[1].lineno == old(self._lineno) and "
                  "result[1].value == substr(self._lexdata, result[1].column - 1 + old(self._line_start), result[1].column - 1 + old(self._line_start) + len(result[1].value)))",
                  # layout between the word `pragma` and its text belongs to neither token (C17: spaces and tabs alike)
                  "implies(len(result) == 2, char_at(result[1].value, 0) != ' ' and char_at(result[1].value, 0) != '\\t')",
                  # lossless: when only PPPRAGMA is produced, everything consumed after the word `pragma` is layout
                  "implies(len(result) == 1, forall(lambda i: implies(result[0].column - 1 + old(self._line_start) + 6 <= i and i < self._pos, "
                  "char_at(self._lexdata, i) == ' ' or char_at(self._lexdata, i) == '\\t' or char_at(self._lexdata, i) == '\\n')))",
                  # line accounting: the newline that ends the directive is consumed and counted exactly once
                  "self._lineno == old(self._lineno) or (self._lineno == old(self._lineno) + 1 and self._line_start == self._pos "
                  "and char_at(self._lexdata, self._pos - 1) == '\\n')",
                  "implies(self._lineno == old(self._lineno), self._line_start == old(self._line_start))",
                  ],
         modifies=["self._pos", "self._lineno", "self._line_start"], raises=["CallbackError"],
         loops={1: dict(inv=["old(self._pos) <= pos", "pos <= n", "n == len(text)", "text == self._lexdata",
                             "forall(lambda i: implies(old(self._pos) <= i and i < pos, " + (_BL % ("i", "i")) + "))"]),
                2: dict(inv=["pragma_pos + 6 <= pos", "pos <= n", "n == len(text)", "text == self._lexdata",
                             "forall(lambda i: implies(pragma_pos + 6 <= i and i < pos, " + (_BL % ("i", "i")) + "))"]),
                3: dict(inv=["start <= pos", "pos <= n", "n == len(text)", "text == self._lexdata",
                             "forall(lambda i: implies(start <= i and i < pos, char_at(text, i) != '\\n'))"])},
         locals_order=["text", "n", "pos", "pragma_pos", "toks", "start"])
PRAGMA_FUNCTIONS = ["CLexer._handle_pppragma#body"]
C11_FUNCTIONS = C11_FUNCTIONS + PRAGMA_FUNCTIONS
C09_FUNCTIONS = C09_FUNCTIONS + PRAGMA_FUNCTIONS
C17_FUNCTIONS = C17_FUNCTIONS + PRAGMA_FUNCTIONS   # blanks around the pragma text are layout
C06_FUNCTIONS = C06_FUNCTIONS + PRAGMA_FUNCTIONS   # no stray exception (IndexError / ValueError) from the directive scanner
