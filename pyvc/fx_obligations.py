"""Obligation families of the FX engine (frame / effect / dependency contracts).

    c13_fx(tier)   separate instances never influence each other          (property C13)
    c12_fx(tier)   result depends only on (text, filename), not on history   (property C12)
    c17_fx(tier)   AST minus coordinates depends only on the token sequence   (property C17)

Every family re-reads the current repository tree (core.REPO), runs pyvc/fx.py over it and
returns a core.Result with one Ob per (function, clause) / field / write site.
"""
from __future__ import annotations

import ast
import fnmatch
import time
from typing import Any, Dict, List, Optional, Set, Tuple

from . import core, fx
from .core import DISCHARGED, REFUTED, UNDECIDED, Ob, Result

try:
    from contracts import frames as FR
except ImportError:  # pragma: no cover  (when imported as a top-level package elsewhere)
    import importlib
    import os
    import sys

    sys.path.insert(0, os.path.dirname(os.path.dirname(os.path.abspath(__file__))))
    FR = importlib.import_module("contracts.frames")

BACKEND = "fx"


# --------------------------------------------------------------------------------------------
# common
# --------------------------------------------------------------------------------------------
def _ctx():
    return fx.context(FR)


def _matches(loc: str, globs) -> bool:
    return any(fnmatch.fnmatchcase(loc, g) for g in globs)


def _base_result(prog: fx.Program, A: fx.Analysis, modules: List[str]) -> Result:
    res = Result()
    for f in prog.real_functions():
        if f.module.name in modules:
            fi = prog.funcinfo(f)
            if fi is not None:
                res.functions.append(fi)
    res.trusted_base = list(FR.TRUSTED_BASE)
    res.assumptions = [FR.ASSUMPTIONS_CALLBACKS]
    res.extra = {"fx": {"effect_fixpoint_rounds": A.iterations, "functions_analysed": len(prog.real_functions())}}
    return res


def _forbidden_ob(prop: str, prog: fx.Program) -> Ob:
    found = fx.forbidden_constructs(prog)
    missing = prog.missing
    if missing:
        return Ob(f"{prop}/fx/forbidden-constructs", UNDECIDED, BACKEND,
                  detail="module(s) not found: " + ", ".join(missing))
    if found:
        return Ob(f"{prop}/fx/forbidden-constructs", REFUTED, BACKEND,
                  detail="constructs outside the subset for which the effect analysis is complete:\n"
                  + "\n".join(f"{w}: {d}" for w, d in found))
    return Ob(f"{prop}/fx/forbidden-constructs", DISCHARGED, BACKEND,
              detail="no exec/eval/setattr/globals()/global/threading/functools.cache/__setattr__/__getattr__/metaclass in the six modules")


def _site_lines(sites, limit=12) -> str:
    out, seen = [], set()
    for s in sorted(sites, key=lambda s: (s.how != "direct", s.where, s.loc)):
        line = f"{s.where}: `{s.expr}` writes {s.loc} ({s.how})"
        if line not in seen:
            seen.add(line)
            out.append(line)
    more = len(out) - limit
    return "\n".join(out[:limit]) + (f"\n... {more} more" if more > 0 else "")


# --------------------------------------------------------------------------------------------
# replay bodies (generic, best effort; each prints REPRODUCED or NOT-REPRODUCED)
# --------------------------------------------------------------------------------------------
_REPLAY_COMMON = r'''
import subprocess, json
PROGS = [
    "typedef int T; T a; int f(T x) { T y = x; return y; }",
    "typedef char T; void g(void) { int T; T = 3; { typedef long U; U q; } }",
    "int T; int b = T * 2;",
    "typedef int T; void h(void) { { { T x; ",            # fails with three scopes open
    "void k(void) { int a = 1; { int b; } if (a) { a = 2; } else a = 3; }\n#pragma once\nint z;",
    "typedef int U; struct S { U m; int *p[3]; }; int (*fp)(U, char **);",
    "int a[3] = {1, 2, 3}; enum E { A, B = 2 }; int q = (int)1.5 + sizeof(int);",
    "int x = ;",                                            # fails early
    "#pragma pack(1)\nint w;\n#line 7 \"f.h\"\nint v;",
    "int x =\n#pragma omp parallel for\n;",               # fails at the PPPRAGMA token, its PPPRAGMASTR still pending in the lexer
]
def dump(node):
    from pycparser import c_ast
    if isinstance(node, c_ast.Node):
        return {"node": type(node).__name__, "coord": str(getattr(node, "coord", None)),
                "fields": [[n, dump(getattr(node, n))] for n in node.__slots__ if n not in ("coord", "__weakref__")]}
    if isinstance(node, (list, tuple)):
        return [dump(x) for x in node]
    return repr(node)
def outcome(parser, text, filename="f.c"):
    try:
        return ["ok", dump(parser.parse(text, filename))]
    except Exception as e:
        return ["error", type(e).__name__, str(e)]
def fresh_outcome(text):
    from pycparser.c_parser import CParser
    return outcome(CParser(), text)
def deep_state(obj, depth=5, seen=None):
    """structural snapshot of an object graph (modules' data, class attributes, instances)"""
    import types
    seen = seen if seen is not None else set()
    if isinstance(obj, (str, int, float, bool, type(None), bytes)):
        return repr(obj)
    if id(obj) in seen or depth == 0:
        return "<...>"
    seen = seen | {id(obj)}
    if isinstance(obj, dict):
        return {repr(k): deep_state(v, depth - 1, seen) for k, v in list(obj.items())[:500]}
    if isinstance(obj, (list, tuple, set, frozenset)):
        xs = list(obj)[:500]
        return [deep_state(v, depth - 1, seen) for v in (sorted(xs, key=repr) if isinstance(obj, (set, frozenset)) else xs)]
    if isinstance(obj, (types.FunctionType, types.BuiltinFunctionType, types.MethodType, type, types.ModuleType)):
        return "<code>"
    d = {}
    if hasattr(obj, "__dict__"):
        d.update({k: deep_state(v, depth - 1, seen) for k, v in vars(obj).items()})
    for k in getattr(type(obj), "__slots__", ()):
        if k != "__weakref__" and hasattr(obj, k):
            d[k] = deep_state(getattr(obj, k), depth - 1, seen)
    return [type(obj).__name__, d] if d else "<" + type(obj).__name__ + ">"
def shared_state():
    import pycparser
    from pycparser import c_parser, c_lexer, c_generator, c_ast, ast_transforms
    import types
    st = {}
    for m in (pycparser, c_parser, c_lexer, c_generator, c_ast, ast_transforms):
        for k, v in list(vars(m).items()):
            if k.startswith("__") or isinstance(v, (types.ModuleType, types.FunctionType, type)) or callable(v) and not isinstance(v, (list, dict, set)):
                if isinstance(v, type) and getattr(v, "__module__", "").startswith("pycparser"):
                    for a, av in list(vars(v).items()):
                        if not a.startswith("__") and not callable(av) and not isinstance(av, (property, staticmethod, classmethod)):
                            st[f"{m.__name__}.{k}.{a}"] = deep_state(av)
                    for a, av in list(vars(v).items()):
                        if isinstance(av, types.FunctionType) and av.__defaults__:
                            st[f"{m.__name__}.{k}.{a}.__defaults__"] = deep_state(list(av.__defaults__))
                elif isinstance(v, types.FunctionType) and v.__defaults__ and getattr(v, "__module__", "").startswith("pycparser"):
                    st[f"{m.__name__}.{k}.__defaults__"] = deep_state(list(v.__defaults__))
                continue
            st[f"{m.__name__}.{k}"] = deep_state(v)
    return st
def workload():
    from pycparser.c_parser import CParser
    from pycparser.c_generator import CGenerator
    from pycparser import c_ast
    p, g, v = CParser(), CGenerator(), c_ast.NodeVisitor()
    for t in PROGS:
        try:
            a = p.parse(t, "w.c")
            g.visit(a)
            v.visit(a)
        except Exception:
            pass
'''

REPLAY_SHARED = _REPLAY_COMMON + r'''
# (1) does running one parser/generator/visitor change module-level, class-level or default-argument state?
before = shared_state()
workload()
after = shared_state()
changed = sorted(k for k in set(before) | set(after) if before.get(k) != after.get(k))
# (2) is a second instance influenced by what a first instance did?  compare with a fresh process
from pycparser.c_parser import CParser
diffs = []
code = "import sys, json; sys.path.insert(0, %r); sys.dont_write_bytecode = True\n" % sys.path[0] + \
       "exec(open(%r).read().split('# (1) does running')[0])\n" % __file__ + \
       "print(json.dumps([fresh_outcome(t) for t in PROGS]))"
alone = json.loads(subprocess.run([sys.executable, "-c", code], capture_output=True, text=True).stdout.strip().splitlines()[-1])
for i, a in enumerate(PROGS):
    p1, p2 = CParser(), CParser()
    outcome(p1, a)
    for j, b in enumerate(PROGS):
        if json.loads(json.dumps(outcome(p2, b))) != alone[j]:
            diffs.append((i, j))
            p2 = CParser()
# (3) two parsers advanced alternately, one token at a time (scheduling lexer injected through lexer=)
import threading
def interleaved(a, b):
    from pycparser.c_lexer import CLexer
    cv = threading.Condition()
    turn, done, res = [0], [False, False], [None, None]
    def mk(i):
        class Sched(CLexer):
            def token(self_):
                with cv:
                    if not done[1 - i]:
                        turn[0] = 1 - i
                        cv.notify_all()
                        while turn[0] != i and not done[1 - i]:
                            cv.wait(timeout=2)
                return CLexer.token(self_)
        return Sched
    def run(i, text):
        with cv:
            while turn[0] != i and not done[1 - i]:
                cv.wait(timeout=2)
        try:
            res[i] = outcome(CParser(lexer=mk(i)), text)
        finally:
            with cv:
                done[i] = True
                turn[0] = 1 - i
                cv.notify_all()
    ts = [threading.Thread(target=run, args=(0, a)), threading.Thread(target=run, args=(1, b))]
    for t in ts:
        t.start()
    for t in ts:
        t.join(timeout=20)
    return res
inter = []
for i in (0, 1, 2, 4, 5):
    for j in (0, 1, 2, 3, 5):
        r = interleaved(PROGS[i], PROGS[j])
        if json.loads(json.dumps(r[0])) != alone[i] or json.loads(json.dumps(r[1])) != alone[j]:
            inter.append((i, j))
print("token-wise interleaved pairs whose results differ from running alone:", inter[:10])
diffs = diffs + inter
print("shared state changed by the workload:", changed[:10])
print("second-instance results differing from a fresh process (first program index, second program index):", diffs[:10])
print("REPRODUCED" if (changed or diffs) else "NOT-REPRODUCED")
'''

REPLAY_HISTORY = _REPLAY_COMMON + r'''
from pycparser.c_parser import CParser
from pycparser import c_ast
bad = []
for i, a in enumerate(PROGS):
    for j, b in enumerate(PROGS):
        p = CParser()
        outcome(p, a)
        got, want = outcome(p, b), fresh_outcome(b)
        if got != want:
            bad.append(("history", i, j))
def nodes(n, acc):
    if isinstance(n, c_ast.Node):
        acc.append(n)
        for k in n.__slots__:
            if k not in ("coord", "__weakref__"):
                nodes(getattr(n, k), acc)
    elif isinstance(n, (list, tuple)):
        for x in n:
            nodes(x, acc)
    return acc
for i, a in enumerate(PROGS):
    p = CParser()
    try:
        r1, r2 = p.parse(a, "f.c"), p.parse(a, "f.c")
    except Exception:
        continue
    if {id(x) for x in nodes(r1, [])} & {id(x) for x in nodes(r2, [])}:
        bad.append(("shared nodes between two parses of program", i))
    if dump(r1) != dump(r2):
        bad.append(("same text parsed twice differs", i))
print("differences:", bad[:10])
print("REPRODUCED" if bad else "NOT-REPRODUCED")
'''

REPLAY_LEXER_REUSE = r'''
from pycparser.c_lexer import CLexer
TEXTS = ["int a;\n#pragma omp parallel\nint b;", "x = 1;\n\n  y\t= 2;", "#line 40 \"g.h\"\nint q;", "a\n#pragma once"]
def make():
    errs = []
    return CLexer(error_func=lambda m, l, c: errs.append((m, l, c)), on_lbrace_func=lambda: None,
                  on_rbrace_func=lambda: None, type_lookup_func=lambda n: False)
def toks(lx, text, limit=None):
    lx.input(text, "t.c")
    out = []
    while True:
        t = lx.token()
        if t is None or (limit is not None and len(out) >= limit):
            break
        out.append((t.type, t.value, t.lineno, t.column, lx.filename))
    return out
bad = []
for a in TEXTS:
    for k in (1, 2, 3, 4, None):
        for b in TEXTS:
            lx = make()
            toks(lx, a, k)
            if toks(lx, b) != toks(make(), b):
                bad.append((a, k, b))
print("reused-lexer token streams differing from a fresh lexer:", bad[:5])
print("REPRODUCED" if bad else "NOT-REPRODUCED")
'''

REPLAY_RETAINED = _REPLAY_COMMON + r'''
from pycparser.c_parser import CParser
from pycparser import c_ast
import pycparser
def find_nodes(obj, depth=6, seen=None, path="parser"):
    seen = seen if seen is not None else set()
    if id(obj) in seen or depth == 0 or isinstance(obj, (str, int, float, bool, type(None), type)):
        return []
    seen.add(id(obj))
    if isinstance(obj, c_ast.Node):
        return [path]
    out = []
    if isinstance(obj, dict):
        for k, v in obj.items():
            out += find_nodes(v, depth - 1, seen, f"{path}[{k!r}]")
    elif isinstance(obj, (list, tuple, set)):
        for i, v in enumerate(obj):
            out += find_nodes(v, depth - 1, seen, f"{path}[{i}]")
    else:
        for k, v in list(getattr(obj, "__dict__", {}).items()):
            if not callable(v) or isinstance(v, (list, dict)):
                out += find_nodes(v, depth - 1, seen, f"{path}.{k}")
        for k in getattr(type(obj), "__slots__", ()):
            if k != "__weakref__" and hasattr(obj, k):
                out += find_nodes(getattr(obj, k), depth - 1, seen, f"{path}.{k}")
    return out
found = []
for t in PROGS:
    p = CParser()
    try:
        p.parse(t, "f.c")
    except Exception:
        pass
    found += find_nodes(p)
print("AST nodes reachable from the parser after parse():", found[:8])
print("REPRODUCED" if found else "NOT-REPRODUCED")
'''

REPLAY_GENERATOR = r'''
from pycparser.c_parser import CParser
from pycparser.c_generator import CGenerator
SRC = ["int *a[3]; int (*f)(int, char **); typedef int T; T (*g[2])(void);",
       "void m(void) { int i; for (i = 0; i < 3; i++) { if (i) { i += 1; } else i = 2; } { int k; } switch (i) { case 1: break; default: i = 0; } }",
       "struct S { int a; struct { int b; } in; }; enum E { A, B }; void n(void) { while (1) { do { ; } while (0); } }"]
bad = []
d0 = repr(CGenerator._generate_type.__defaults__)
for s in SRC:
    ast_ = CParser().parse(s)
    try:
        for blk in ast_.ext:
            g = CGenerator()
            first = g.visit(blk)
            if g.indent_level != 0:
                bad.append(("indent_level after visit", g.indent_level))
            second = g.visit(blk)
            if first != second or second != CGenerator().visit(blk):
                bad.append(("second generation differs", s[:30]))
        g = CGenerator()
        if g.visit(ast_) != g.visit(ast_):
            bad.append(("whole file differs on re-generation", s[:30]))
    except Exception as e:          # the generator of the pinned tree does not raise on these inputs
        bad.append(("generation raised", type(e).__name__))
if repr(CGenerator._generate_type.__defaults__) != d0:
    bad.append(("default arguments of _generate_type changed", repr(CGenerator._generate_type.__defaults__)))
print("observed:", bad[:6])
print("REPRODUCED" if bad else "NOT-REPRODUCED")
'''

REPLAY_LAYOUT = _REPLAY_COMMON + r'''
from pycparser.c_parser import CParser
from pycparser.c_generator import CGenerator
from pycparser.c_lexer import CLexer
MORE = [
    "int main(void) { int a = 1; a = a + 2; return a; }",
    "int f(int x) { x = 1; x = 2; { x = 3; } return x; }\nstatic int s; extern int e;",
    "typedef int T;\nT v = 7; char c = 'a'; double d = 1.5; char *s = \"hi\" \"there\";",
    "void g(void) { int i; for (i = 0; i < 3; i++) i += 2; while (i) i--; }",
]
def strip(d):
    if isinstance(d, dict):
        return {k: strip(v) for k, v in d.items() if k != "coord"}
    if isinstance(d, list):
        return [strip(x) for x in d]
    return d
def tokens(text):
    lx = CLexer(error_func=lambda *a: None, on_lbrace_func=lambda: None, on_rbrace_func=lambda: None,
                type_lookup_func=lambda n: False)
    lx.input(text, "")
    out = []
    while True:
        t = lx.token()
        if t is None:
            return out
        out.append(t)
def relayout(text, mode):
    toks = tokens(text)
    if any(t.type in ("PPHASH", "PPPRAGMA", "PPPRAGMASTR") for t in toks):
        return None
    vals = [t.value for t in toks]
    if mode == "lines":
        return "\n".join(vals) + "\n"
    if mode == "oneline":
        return " ".join(vals)
    if mode == "indent":
        return "".join(("\n" + " " * (3 * (i % 4)) if i % 3 == 0 else "  ") + v for i, v in enumerate(vals))
    if mode == "linemarkers":
        return "".join(v + ("\n# %d \"inc%d.h\"\n" % (i * 11 + 3, i) if i % 4 == 1 else " ") for i, v in enumerate(vals))
bad = []
for t in PROGS + MORE:
    base = fresh_outcome(t)
    if base[0] != "ok":
        continue
    gen0 = CGenerator().visit(CParser().parse(t, "f.c"))
    for mode in ("lines", "oneline", "indent", "linemarkers"):
        v = relayout(t, mode)
        if v is None:
            continue
        o = fresh_outcome(v)
        if strip(o) != strip(base):
            bad.append((mode, t[:40]))
        elif o[0] == "ok" and CGenerator().visit(CParser().parse(v, "f.c")) != gen0:
            bad.append((mode + "/generated text", t[:40]))
print("layout variants whose coordinate-free AST / regenerated text differs:", bad[:6])
print("REPRODUCED" if bad else "NOT-REPRODUCED")
'''


# --------------------------------------------------------------------------------------------
# C13
# --------------------------------------------------------------------------------------------
def _func_sites(A: fx.Analysis, f: fx.Func):
    e = A.results.get(f.key)
    return list(e.sites.values()) if e is not None else []


def _shared_write_ob(A: fx.Analysis, name: str, funcs: List[fx.Func]) -> Ob:
    shared, unknown, outside = [], [], []
    for f in funcs:
        declared = A.frames.declared(f.key)
        for s in _func_sites(A, f):
            if _matches(s.loc, FR.UNKNOWN_LOCS):
                unknown.append(s)
            elif s.unc and (_matches(s.loc, FR.SHARED_LOCS) or not _matches(s.loc, declared)):
                unknown.append(s)           # a guess about a partly unresolved access: not a finding
            elif _matches(s.loc, FR.SHARED_LOCS):
                shared.append(s)
            elif not _matches(s.loc, declared):
                outside.append(s)
    quals = [f.qual for f in funcs]
    if shared:
        return Ob(name, REFUTED, BACKEND, functions=quals, replay=REPLAY_SHARED,
                  detail="writes state shared between instances (module global / class attribute / default-argument object):\n"
                  + _site_lines(shared))
    if outside:
        return Ob(name, REFUTED, BACKEND, functions=quals, replay=REPLAY_SHARED,
                  detail="writes outside the declared frame " + repr(A.frames.declared(funcs[0].key)) + ":\n" + _site_lines(outside))
    if unknown:
        return Ob(name, UNDECIDED, BACKEND, functions=quals,
                  detail="write target could not be resolved:\n" + _site_lines(unknown))
    return Ob(name, DISCHARGED, BACKEND, functions=quals)


def _is_generated_node_class(prog: fx.Program, c: fx.Class) -> bool:
    return prog.is_node_class(c) and c.key != "c_ast.Node"


def _pure_field_code(A: fx.Analysis, c: fx.Class) -> List[str]:
    """Shape check of a generated node class: __init__ binds its own slots only, the other
    methods write nothing, class attributes are immutable tuples."""
    problems = []
    slots = None
    for k, v in c.attrs.items():
        if not (isinstance(v, ast.Tuple) and all(isinstance(x, ast.Constant) for x in v.elts)) and not isinstance(v, ast.Constant):
            problems.append(f"class attribute {c.name}.{k} is not an immutable constant")
        if k == "__slots__" and isinstance(v, ast.Tuple):
            slots = {x.value for x in v.elts if isinstance(x, ast.Constant)}
    for mname, m in c.methods.items():
        for s in _func_sites(A, m):
            kind, head, rest = fx.parse_loc(s.loc)
            ok = mname == "__init__" and kind == "self" and head == c.name and len(rest) == 1 and (slots is None or rest[0] in slots)
            if not ok:
                problems.append(f"{s.where}: `{s.expr}` in {m.qual} writes {s.loc}")
    return problems


def _lazy_attr_check(prog: fx.Program, A: fx.Analysis, ckey: str, attr: str) -> Tuple[str, str]:
    c = prog.classes.get(ckey)
    if c is None:
        return UNDECIDED, f"class {ckey} not found"
    got = c.find_attr(attr)
    loc_cls = f"class:{c.name}.{attr}"
    writers = []
    for f in prog.real_functions():
        for s in _func_sites(A, f):
            if s.loc == loc_cls or (s.loc.startswith("class:") and s.loc.endswith("." + attr) and s.how == "direct"):
                writers.append(s)
    if got is None:
        if not A.field_sites(c, attr):
            return UNDECIDED, f"{c.name}.{attr} no longer exists (neither class attribute nor instance field)"
        return DISCHARGED, f"{c.name}.{attr} is a plain instance field (no class-level binding)"
    init = got[1]
    if writers:
        return REFUTED, f"class attribute {c.name}.{attr} is written:\n" + _site_lines(writers)
    if not (isinstance(init, ast.Constant) and init.value is None):
        if isinstance(init, ast.Constant) or (isinstance(init, ast.Tuple) and all(isinstance(x, ast.Constant) for x in init.elts)):
            return DISCHARGED, f"class attribute {c.name}.{attr} is an immutable constant"
        return REFUTED, (f"{c.module.rel}:{init.lineno}: class attribute `{attr} = {fx.src_of(init)}` is a mutable object shared "
                         f"by all instances of {c.name}")
    # constant None: every read-modify-write of self.<attr> must follow `if self.<attr> is None: self.<attr> = <fresh>`
    problems = []
    content_loc = f"self:{c.name}.{attr}.*"
    for f in prog.real_functions():
        if f.cls is None or c not in A.family(f.cls):
            continue
        rmw = [s for s in _func_sites(A, f) if s.loc == content_loc and s.how == "direct"]
        if not rmw:
            continue
        guard_line = None
        for st in f.node.body:
            if isinstance(st, ast.If) and _is_none_guard(st.test, f.self_name, attr):
                assigns = [x for x in st.body if isinstance(x, ast.Assign) and any(
                    isinstance(t, ast.Attribute) and t.attr == attr and isinstance(t.value, ast.Name) and t.value.id == f.self_name
                    for t in x.targets)]
                if assigns and isinstance(assigns[0].value, (ast.Dict, ast.List, ast.Set, ast.Call, ast.DictComp, ast.ListComp)):
                    guard_line = st.end_lineno
                    break
        for s in rmw:
            if guard_line is None or s.lineno <= guard_line:
                problems.append(f"{s.where}: `{s.expr}` in {f.qual} is not dominated by `if self.{attr} is None: self.{attr} = <fresh>`")
    if problems:
        return UNDECIDED, "lazy-initialisation pattern not recognised:\n" + "\n".join(problems)
    return DISCHARGED, (f"class attribute {c.name}.{attr} is the constant None and is never written; every store into "
                        f"self.{attr} follows the instance assignment on the None path")


def _is_none_guard(test, self_name, attr) -> bool:
    def is_attr(e):
        return isinstance(e, ast.Attribute) and e.attr == attr and isinstance(e.value, ast.Name) and e.value.id == self_name
    if isinstance(test, ast.Compare) and len(test.ops) == 1 and isinstance(test.ops[0], (ast.Is, ast.Eq)):
        l, r = test.left, test.comparators[0]
        return (is_attr(l) and isinstance(r, ast.Constant) and r.value is None) or \
               (is_attr(r) and isinstance(l, ast.Constant) and l.value is None)
    if isinstance(test, ast.UnaryOp) and isinstance(test.op, ast.Not):
        return is_attr(test.operand)
    return False


def _footprint_ob(prog: fx.Program, A: fx.Analysis, ckey: str) -> Ob:
    name = f"C13/fx/footprint/{ckey.split('.', 1)[1]}"
    c = prog.classes.get(ckey)
    if c is None:
        return Ob(name, UNDECIDED, BACKEND, detail=f"class {ckey} not found")
    init_names = set(FR.INIT_FUNCTIONS.get(ckey, ["__init__"]))
    bad, unsure, ok_fields = [], [], []
    fields = sorted({fld for k in A.family(c) for fld in A.inst_fields.get(k.key, {})})
    stores: Dict[str, List[fx.FieldStore]] = {}
    for e in A.results.values():
        for fs in e.stores.values():
            if fs.cls in {k.key for k in A.family(c)}:
                stores.setdefault(fs.field, []).append(fs)
    for fld in fields:
        for fs in sorted(stores.get(fld, []), key=lambda x: (x.func.key, x.node.lineno)):
            v = fs.val
            where = f"{fs.func.module.rel}:{fs.node.lineno}: `{fs.expr}` in {fs.func.qual}"
            roots = set(v.roots) | set(v.reach)
            for t in v.fns:
                if t[0] == "func" and t[2] is not None:
                    roots |= {r for r in t[2] if r[0] not in ("self", "foot", "imm")}
            sh = sorted(str(r) for r in roots if r[0] in ("global", "class", "default", "module", "clsobj"))
            un = sorted(str(r) for r in roots if r[0] in ("unknown", "lamarg"))
            if sh:
                bad.append(f"{where}: field {c.name}.{fld} receives an object reachable from shared state {sh}")
            elif un:
                unsure.append(f"{where}: field {c.name}.{fld} receives an unresolved object {un}")
            elif any(r[0] == "param" for r in v.roots) and fs.kind == "bind":
                top = fs.func
                while top.parent is not None:
                    top = top.parent
                if top.name not in init_names and not (v.tags and v.tags <= fx.IMM_TAGS):
                    unsure.append(f"{where}: field {c.name}.{fld} retains a caller-supplied object outside {sorted(init_names)}")
        fv = A.field_val(c, fld)
        if fv is not None:
            sh = sorted(str(r) for r in (fv.roots | fv.reach) if r[0] in ("global", "class", "default", "module", "clsobj"))
            if sh and not any(f"{c.name}.{fld} " in b for b in bad):
                bad.append(f"field {c.name}.{fld} may refer to shared state {sh} (through a constructor argument)")
        ok_fields.append(fld)
    extra = []
    status2, detail2 = DISCHARGED, ""
    for ck, attr in FR.LAZY_CLASS_ATTRS:
        if ck == ckey:
            status2, detail2 = _lazy_attr_check(prog, A, ck, attr)
            extra.append(detail2)
    quals = [m.qual for k in A.family(c) for m in k.methods.values()]
    if bad or status2 == REFUTED:
        return Ob(name, REFUTED, BACKEND, functions=quals, replay=REPLAY_SHARED,
                  detail="\n".join(bad + ([detail2] if status2 == REFUTED else [])))
    if unsure or status2 == UNDECIDED:
        return Ob(name, UNDECIDED, BACKEND, functions=quals, detail="\n".join(unsure + ([detail2] if status2 == UNDECIDED else [])))
    return Ob(name, DISCHARGED, BACKEND, functions=quals,
              detail=f"instance fields {fields}: only fresh objects, immutable values, bound methods of the owner and "
                     f"constructor arguments are stored" + ("; " + "; ".join(extra) if extra else ""))


def c13_fx(tier: str = "quick", seed: int = 0) -> Result:
    t0 = time.time()
    prog, A = _ctx()
    res = _base_result(prog, A, list(fx.MODULE_FILES))
    obs: List[Ob] = [_forbidden_ob("C13", prog)]
    # (a) no function writes shared state
    node_classes: Dict[str, List[fx.Func]] = {}
    for f in sorted(prog.real_functions(), key=lambda f: f.key):
        if f.cls is not None and _is_generated_node_class(prog, f.cls):
            node_classes.setdefault(f.cls.key, []).append(f)
            continue
        obs.append(_shared_write_ob(A, f"C13/fx/no-shared-write/{f.key}", [f]))
    for ck in sorted(node_classes):
        c = prog.classes[ck]
        ob = _shared_write_ob(A, f"C13/fx/no-shared-write/{ck}.*", node_classes[ck])
        if ob.status == DISCHARGED:
            problems = _pure_field_code(A, c)
            if problems:
                ob = Ob(ob.name, UNDECIDED, BACKEND, functions=ob.functions,
                        detail="generated node class is not pure field code:\n" + "\n".join(problems[:8]))
            else:
                ob.detail = "pure field code: __init__ binds its own slots, children/__iter__ write nothing, class attributes are constant tuples"
        obs.append(ob)
    # (b) nothing reads shared state that something writes
    written: Dict[str, List[Any]] = {}
    for f in prog.real_functions():
        for s in _func_sites(A, f):
            if _matches(s.loc, FR.SHARED_LOCS):
                written.setdefault(s.loc, []).append(s)
    readers = []
    for f in prog.real_functions():
        e = A.results.get(f.key)
        for loc in sorted(e.reads if e is not None else []):
            if loc in written:
                readers.append(f"{f.key} reads {loc}")
    for loc in written:
        if loc.startswith("default:"):
            readers.append(f"{loc.split(':', 1)[1].rsplit('.', 1)[0]} reads its default argument {loc}")
    if written and readers:
        obs.append(Ob("C13/fx/no-shared-read-of-written", REFUTED, BACKEND, replay=REPLAY_SHARED,
                      detail="shared locations that are written after import and read:\n" + "\n".join(sorted(set(readers))[:15])
                      + "\nwritten at:\n" + _site_lines([s for v in written.values() for s in v])))
    elif written:
        obs.append(Ob("C13/fx/no-shared-read-of-written", DISCHARGED, BACKEND,
                      detail="shared locations are written (see no-shared-write) but never read: " + ", ".join(sorted(written))))
    else:
        obs.append(Ob("C13/fx/no-shared-read-of-written", DISCHARGED, BACKEND,
                      detail="no function writes a global:/class:/default: location, so none can read a written one"))
    # (c) footprints of distinct instances are disjoint
    for ck in FR.FOOTPRINT_CLASSES:
        obs.append(_footprint_ob(prog, A, ck))
    dt = (time.time() - t0) / max(1, len(obs))
    for o in obs:
        o.time_s = round(dt, 5)
    res.obs = obs
    res.solver_time_s = round(time.time() - t0, 3)
    return res


# --------------------------------------------------------------------------------------------
# C12
# --------------------------------------------------------------------------------------------
def _top(f: fx.Func) -> fx.Func:
    while f.parent is not None:
        f = f.parent
    return f


def classify_fields(prog: fx.Program, A: fx.Analysis, ckey: str) -> Dict[str, Dict[str, Any]]:
    """field -> {kind: CONFIG|STATE, binds: [(func, line)], content: [(func, line)]} from ALL store
    sites on the receiver found in the class on this run."""
    c = prog.classes[ckey]
    out: Dict[str, Dict[str, Any]] = {}
    fam = A.family(c)
    for k in fam:
        for fld, sites in A.inst_fields.get(k.key, {}).items():
            d = out.setdefault(fld, dict(binds=[], content=[], uncertain=[]))
            for f, n in sites:
                d["binds"].append((f, n.lineno))
    for f in prog.real_functions():
        if f.cls is None or f.cls not in fam:
            continue
        for s in _func_sites(A, f):
            kind, head, rest = fx.parse_loc(s.loc)
            if kind == "self" and head == c.name and len(rest) == 2 and rest[1] == "*" and s.how == "direct" and rest[0] in out:
                out[rest[0]]["uncertain" if s.unc else "content"].append((f, s.lineno))
    for fld, d in out.items():
        outside = [(f, ln) for f, ln in d["binds"] + d["content"] if not (_top(f).name == "__init__" and _top(f).cls in fam)]
        d["kind"] = "STATE" if outside else "CONFIG"
        d["outside"] = outside
    return out


def c12_fx(tier: str = "quick", seed: int = 0) -> Result:
    t0 = time.time()
    prog, A = _ctx()
    res = _base_result(prog, A, ["c_parser", "c_lexer", "c_generator", "ast_transforms"])
    obs: List[Ob] = [_forbidden_ob("C12", prog)]
    present = [k for k in FR.PERSISTENT_CLASSES if k in prog.classes]
    for k in FR.PERSISTENT_CLASSES:
        if k not in prog.classes:
            obs.append(Ob(f"C12/fx/def-before-use/{k}", UNDECIDED, BACKEND, detail=f"class {k} not found"))
    DU = fx.DefUseAnalysis(A, present).run()
    classes = {k: classify_fields(prog, A, k) for k in present}
    cname = {k: prog.classes[k].name for k in present}

    # (1) def-before-use along CParser.parse
    entry = prog.funcs.get(FR.PARSE_ENTRY)
    for k in FR.PARSE_STATE_CLASSES:
        if k not in classes:
            continue
        for fld, d in sorted(classes[k].items()):
            if d["kind"] != "STATE":
                continue
            name = f"C12/fx/def-before-use/CParser.parse/{cname[k]}.{fld}"
            if entry is None:
                obs.append(Ob(name, UNDECIDED, BACKEND, detail=f"{FR.PARSE_ENTRY} not found"))
                continue
            site = DU.rbw.get(entry.key, {}).get((cname[k], fld))
            if site is not None:
                obs.append(Ob(name, REFUTED, BACKEND, functions=[entry.qual], replay=REPLAY_HISTORY,
                              detail=f"per-parse state {cname[k]}.{fld} (written at "
                              + ", ".join(f"{f.qual}:{ln}" for f, ln in d["outside"][:4])
                              + f") may be read in parse() before parse() assigns it, so it carries over from the previous call:\n{site}"))
            else:
                obs.append(Ob(name, DISCHARGED, BACKEND, functions=[entry.qual],
                              detail="assigned on every path before any (direct or transitive) read"))
    # (2) a reused lexer after input()
    lentry = prog.funcs.get(FR.LEXER_ENTRY)
    if FR.LEXER_CLASS in classes:
        for fld, d in sorted(classes[FR.LEXER_CLASS].items()):
            if d["kind"] != "STATE":
                continue
            name = f"C12/fx/def-before-use/CLexer.input/{fld}"
            loc = (cname[FR.LEXER_CLASS], fld)
            if lentry is None:
                obs.append(Ob(name, UNDECIDED, BACKEND, detail=f"{FR.LEXER_ENTRY} not found"))
            elif loc in DU.rbw.get(lentry.key, {}):
                obs.append(Ob(name, REFUTED, BACKEND, functions=[lentry.qual], replay=REPLAY_LEXER_REUSE,
                              detail=f"input() may read {fld} before assigning it:\n" + DU.rbw[lentry.key][loc]))
            elif loc not in DU.must.get(lentry.key, frozenset()):
                obs.append(Ob(name, REFUTED, BACKEND, functions=[lentry.qual], replay=REPLAY_LEXER_REUSE,
                              detail=f"{prog.funcs[lentry.key].module.rel}:{lentry.node.lineno}: input() does not assign lexer state field "
                                     f"{fld} on every path (written at " + ", ".join(f"{f.qual}:{ln}" for f, ln in d["outside"][:4])
                                     + "); token() after input() would see the value left by the previous use"))
            else:
                obs.append(Ob(name, DISCHARGED, BACKEND, functions=[lentry.qual], detail="definitely assigned by input()"))
    # (2b) generator state other than the indentation counter
    gk = FR.GENERATOR_CLASS
    if gk in classes:
        gvisit = prog.classes[gk].find_method("visit")
        for fld, d in sorted(classes[gk].items()):
            if d["kind"] != "STATE" or fld == FR.INDENT_FIELD:
                continue
            name = f"C12/fx/def-before-use/CGenerator.visit/{fld}"
            if gvisit is None:
                obs.append(Ob(name, UNDECIDED, BACKEND, detail="CGenerator.visit not found"))
            elif (cname[gk], fld) in DU.rbw.get(gvisit.key, {}):
                obs.append(Ob(name, REFUTED, BACKEND, replay=REPLAY_GENERATOR, functions=[gvisit.qual],
                              detail=f"generator state {fld} is read before it is assigned:\n" + DU.rbw[gvisit.key][(cname[gk], fld)]))
            else:
                obs.append(Ob(name, DISCHARGED, BACKEND, functions=[gvisit.qual]))
    # (3) configuration is immutable
    for k in present:
        inst_of: Dict[str, List[str]] = {}
        for fld in classes[k]:
            fv = A.field_val(prog.classes[k], fld)
            if fv is not None:
                for t in fv.tags:
                    if t.startswith("inst:"):
                        inst_of.setdefault(t[5:], []).append(fld)
        for fld, d in sorted(classes[k].items()):
            if d["kind"] != "CONFIG":
                continue
            name = f"C12/fx/config-immutable/{cname[k]}.{fld}"
            # writes that reach this object through another object's field (aliases)
            alias = []
            for k2 in present:
                c2 = prog.classes[k2]
                for g in classes[k2]:
                    fv = A.field_val(c2, g)
                    if fv is not None and ("inst:" + k) in fv.tags:
                        for f in prog.real_functions():
                            for s in _func_sites(A, f):
                                if s.how == "direct" and s.loc == f"self:{c2.name}.{g}.*":
                                    alias.append(s)
            if d["uncertain"]:
                obs.append(Ob(name, UNDECIDED, BACKEND, detail="a partly unresolved access may mutate this field outside __init__: "
                              + ", ".join(f"{f.qual}:{ln}" for f, ln in d["uncertain"][:4])))
            elif alias:
                obs.append(Ob(name, UNDECIDED, BACKEND, detail="an object of this class is written through a field of its owner:\n" + _site_lines(alias)))
            else:
                obs.append(Ob(name, DISCHARGED, BACKEND, detail="bound in __init__ only; never bound or mutated elsewhere ("
                              + ", ".join(f"{f.qual}:{ln}" for f, ln in d["binds"][:3]) + ")"))
    # (4) no persistent location can hold an AST node after parse() returns
    stores: Dict[Tuple[str, str], List[fx.FieldStore]] = {}
    for e in A.results.values():
        for fs in e.stores.values():
            stores.setdefault((fs.cls, fs.field), []).append(fs)
    for k in present:
        fam = {c.key for c in A.family(prog.classes[k])}
        for fld in sorted(classes[k]):
            name = f"C12/fx/no-node-retained/{cname[k]}.{fld}"
            bad, unsure, tags = [], [], set()
            for ck in fam:
                for fs in stores.get((ck, fld), []):
                    at = fs.val.all_tags()
                    tags |= at
                    where = f"{fs.func.module.rel}:{fs.node.lineno}: `{fs.expr}` in {fs.func.qual}"
                    if at & set(FR.NODE_TAGS):
                        bad.append(f"{where} stores an AST node (or a container of nodes) into {cname[k]}.{fld}; inferred type {sorted(at)[:8]}")
                    elif "unknown" in at:
                        unsure.append(f"{where}: type of the stored value is unknown ({sorted(at)[:8]})")
            if bad:
                obs.append(Ob(name, REFUTED, BACKEND, replay=REPLAY_RETAINED, detail="\n".join(sorted(set(bad)))))
            elif unsure:
                obs.append(Ob(name, UNDECIDED, BACKEND, detail="\n".join(sorted(set(unsure))[:6])))
            else:
                shown = sorted(t for t in tags if not t.startswith("in:"))
                obs.append(Ob(name, DISCHARGED, BACKEND, detail=f"values stored: {shown}"))
    shared_sites = [s for f in prog.real_functions() for s in _func_sites(A, f) if _matches(s.loc, FR.SHARED_LOCS)]
    if shared_sites:
        obs.append(Ob("C12/fx/no-node-retained/<module globals and class attributes>", REFUTED, BACKEND, replay=REPLAY_SHARED,
                      detail="module/class/default-argument state is written after import (it can retain anything):\n" + _site_lines(shared_sites)))
    else:
        obs.append(Ob("C12/fx/no-node-retained/<module globals and class attributes>", DISCHARGED, BACKEND,
                      detail="nothing is stored into module globals, class attributes or default-argument objects after import"))
    extra_fields = sorted(set(classes.get(gk, {})) - set(FR.GENERATOR_FIELDS))
    obs.append(Ob("C12/fx/generator-fields/CGenerator",
                  DISCHARGED if (gk in classes and not extra_fields) else UNDECIDED, BACKEND,
                  detail=("instance fields: " + str(sorted(classes.get(gk, {})))) if not extra_fields else
                  f"generator has additional state {extra_fields}; it is covered only by the def-before-use/no-node-retained obligations above"))
    # (5) mutable default arguments are never written
    for f in sorted(prog.real_functions(), key=lambda f: f.key):
        for p, dflt in f.defaults.items():
            if not isinstance(dflt, (ast.List, ast.Dict, ast.Set, ast.ListComp, ast.DictComp, ast.SetComp)) and not (
                    isinstance(dflt, ast.Call) and isinstance(dflt.func, ast.Name) and dflt.func.id in ("list", "dict", "set")):
                continue
            loc = f"default:{f.key.split('.', 1)[1]}.{p}"
            name = f"C12/fx/default-arg-not-mutated/{f.key.split('.', 1)[1]}.{p}"
            sites = [s for g in prog.real_functions() for s in _func_sites(A, g) if s.loc == loc]
            if sites:
                obs.append(Ob(name, REFUTED, BACKEND, replay=REPLAY_GENERATOR, functions=[f.qual],
                              detail=f"the default object `{p}={fx.src_of(dflt)}` of {f.qual} (created once, shared by all calls and instances) is written:\n"
                              + _site_lines(sites)))
            else:
                obs.append(Ob(name, DISCHARGED, BACKEND, functions=[f.qual], detail="never written (only read / copied)"))
    for fk, p in FR.DEFAULT_ARGS_NOT_MUTATED:
        f = prog.funcs.get(fk)
        if f is None or p not in f.params:
            obs.append(Ob(f"C12/fx/default-arg-not-mutated/{fk.split('.', 1)[1]}.{p}", UNDECIDED, BACKEND,
                          detail=f"{fk} / parameter {p} not found"))
    # (6) indentation is balanced
    if gk in prog.classes:
        g = prog.classes[gk]
        for mname, m in sorted(g.methods.items()):
            if mname == "__init__":
                continue
            ind = fx.Indent(A, m, FR.INDENT_FIELD).analyse()
            status, detail, assume = ind.verdict()
            ob = Ob(f"C12/fx/indent-balanced/{mname}", status, BACKEND, functions=[m.qual], detail=detail,
                    replay=REPLAY_GENERATOR if status == REFUTED else None)
            if status == DISCHARGED:
                ob.detail = "net change 0 on every normally returning path" + (
                    f"; relies on the same contract of: {', '.join(sorted(ind.relies)[:6])}" if ind.relies else "")
            for a in assume:
                msg = a + " -- FuncDef occurs only at top level (indent 0)"
                if msg not in res.assumptions:
                    res.assumptions.append(msg)
            obs.append(ob)
    res.assumptions.append("one lexer and one token stream per parser (the objects stored in CParser.clex / CParser._tokens); "
                           "a freshly constructed _TokenStream/CLexer counts from the moment it is stored into that field")
    res.assumptions.append("public entry-point parameter annotations (text: str, filename: str, reduce_parentheses: bool, mark: int) are taken as preconditions for the type tags")
    res.extra["fx"]["field_classification"] = {cname[k]: {f: d["kind"] for f, d in classes[k].items()} for k in present}
    dt = (time.time() - t0) / max(1, len(obs))
    for o in obs:
        o.time_s = round(dt, 5)
    res.obs = obs
    res.solver_time_s = round(time.time() - t0, 3)
    return res


# --------------------------------------------------------------------------------------------
# C17
# --------------------------------------------------------------------------------------------
def _coord_config(prog: fx.Program) -> fx.TaintConfig:
    def ctor_ok(cls: fx.Class, pname: str) -> bool:
        if cls.key == FR.COORD_CLASS:
            return True                       # constructing a coordinate (also: "<result>" is a coordinate)
        if pname in ("<result>", "*"):
            return False
        if cls.module.name == "c_ast":
            init = cls.find_method("__init__")
            # the parameter named `coord` of the real constructor signature
            return pname == FR.COORD_CTOR_PARAM and init is not None and FR.COORD_CTOR_PARAM in init.params
        return False

    return fx.TaintConfig("coord", FR.COORD_MODULES, source_attrs=FR.COORD_SOURCE_ATTRS,
                          store_attrs=FR.COORD_STORE_ATTRS, ctor_param_ok=ctor_ok,
                          exempt_classes=[FR.COORD_CLASS], what="coordinate")


def _position_config(prog: fx.Program) -> fx.TaintConfig:
    def ctor_ok(cls: fx.Class, pname: str) -> bool:
        return cls.key == FR.TOKEN_CLASS and pname in FR.TOKEN_POSITION_FIELDS

    return fx.TaintConfig("position", ["c_lexer"], self_source_attrs=FR.LEXER_POSITION_SOURCES,
                          self_store_attrs=FR.LEXER_LAYOUT_FIELDS, allow_arith=True, ctor_param_ok=ctor_ok,
                          sink_call_attrs=[FR.LEXER_ERROR_CALLBACK], what="line-position")


def c17_fx(tier: str = "quick", seed: int = 0) -> Result:
    t0 = time.time()
    prog, A = _ctx()
    res = _base_result(prog, A, ["c_parser", "ast_transforms", "c_lexer", "c_generator"])
    obs: List[Ob] = [_forbidden_ob("C17", prog)]
    # (1) coordinate non-interference in the parser and the transforms
    TA = fx.TaintAnalysis(A, _coord_config(prog)).run()
    for f in sorted(TA.funcs, key=lambda f: f.key):
        name = f"C17/fx/coord-noninterference/{f.key}"
        v = TA.viol.get(f.key, [])
        eff = A.results.get(f.key)
        if f.cls is not None and f.cls.key == FR.COORD_CLASS:
            obs.append(Ob(name, DISCHARGED, BACKEND, functions=[f.qual],
                          detail="method of the coordinate class itself: operates on coordinates only; its result is treated as a coordinate"))
            continue
        if v:
            t = fx.Taint(TA, f)
            note = t.origin_note()
            obs.append(Ob(name, REFUTED, BACKEND, functions=[f.qual], replay=REPLAY_LAYOUT,
                          detail="a value derived from tok.lineno/tok.column/filename/.coord/Coord(...) flows into something other than a "
                                 "coord= argument, a .coord field, an error message, a return value or an `is None` test:\n"
                                 + "\n".join(v) + note))
        else:
            tainted_params = [p for p in f.params if TA.param.get((f.key, p), fx.CLEAN) != fx.CLEAN]
            obs.append(Ob(name, DISCHARGED, BACKEND, functions=[f.qual],
                          detail=("coordinate-carrying parameters: " + ", ".join(tainted_params)) if tainted_params else ""))
    # (2) the generator never looks at coordinates
    gen = prog.modules.get("c_generator")
    if gen is None:
        obs.append(Ob("C17/fx/generator-reads-no-coord", UNDECIDED, BACKEND, detail="c_generator.py not found"))
    else:
        hits = []
        for n in ast.walk(gen.tree):
            if isinstance(n, ast.Attribute) and n.attr in FR.GENERATOR_FORBIDDEN_ATTRS:
                hits.append(f"{gen.rel}:{n.lineno}: `{fx.src_of(n)}`")
            elif isinstance(n, ast.Call) and isinstance(n.func, ast.Name) and n.func.id in ("getattr", "hasattr") \
                    and len(n.args) >= 2:
                a = n.args[1]
                if not isinstance(a, ast.Constant):
                    g_ok = False
                    # getattr(self, "visit_" + ...) on the generator itself is the visitor dispatch
                    if isinstance(n.args[0], ast.Name) and n.args[0].id == "self":
                        g_ok = True
                    if not g_ok:
                        hits.append(f"{gen.rel}:{n.lineno}: `{fx.src_of(n)}` (computed attribute name)")
                elif a.value in FR.GENERATOR_FORBIDDEN_ATTRS:
                    hits.append(f"{gen.rel}:{n.lineno}: `{fx.src_of(n)}`")
            elif isinstance(n, ast.Attribute) and n.attr in ("__dict__", "__slots__"):
                hits.append(f"{gen.rel}:{n.lineno}: `{fx.src_of(n)}` (reflective access to all fields)")
        if hits:
            obs.append(Ob("C17/fx/generator-reads-no-coord", REFUTED, BACKEND, replay=REPLAY_LAYOUT,
                          detail="c_generator.py reads coordinates:\n" + "\n".join(hits[:10])))
        else:
            obs.append(Ob("C17/fx/generator-reads-no-coord", DISCHARGED, BACKEND,
                          detail="no load of .coord/.lineno/.column/.file (nor getattr with such a name) in c_generator.py"))
    # (3) layout only moves the lexer's position state
    base = "C17/fx/lexer-layout-only-state"
    tokf = prog.funcs.get(FR.LEXER_TOKEN_FN)
    lex_cls = prog.classes.get(FR.LEXER_CLASS)
    allowed = {f"self:{lex_cls.name}.{x}" for x in FR.LEXER_LAYOUT_FIELDS} if lex_cls else set()

    def layout_only(sites) -> List[str]:
        return [f"{s.where}: `{s.expr}` writes {s.loc} ({s.how})" for s in sites if s.loc not in allowed]

    if tokf is None or lex_cls is None:
        obs.append(Ob(f"{base}/CLexer.token", UNDECIDED, BACKEND, detail=f"{FR.LEXER_TOKEN_FN} not found"))
    else:
        eff = A.results[tokf.key]
        branches = fx.whitespace_branches(tokf.node)
        for label, body, lo, hi in branches:
            name = f"{base}/CLexer.token/{label}"
            bad = layout_only(fx.sites_between(eff, lo, hi))
            rets = fx.returns_in(body)
            bad += [f"{tokf.module.rel}:{r.lineno}: `{fx.src_of(r)}`: a whitespace branch produces a token/returns" for r in rets]
            for s in body:
                for n in ast.walk(s):
                    if isinstance(n, ast.Call):
                        for t in eff.calls.get(id(n), []):
                            if t.kind == "func" and t.func is not None and t.func.key == FR.LEXER_MAKE_TOKEN_FN:
                                bad.append(f"{tokf.module.rel}:{n.lineno}: `{fx.src_of(n)}`: a whitespace branch builds a token")
            obs.append(Ob(name, REFUTED if bad else DISCHARGED, BACKEND, functions=[tokf.qual], replay=REPLAY_LAYOUT if bad else None,
                          detail="\n".join(bad) if bad else f"writes only {sorted(allowed)}; produces no token"))
        if not branches or not all(any(ch in lab for lab, *_ in branches) for ch in ("' '", "'\\t'", "'\\n'")):
            obs.append(Ob(f"{base}/CLexer.token/whitespace-branches-recognised", UNDECIDED, BACKEND, functions=[tokf.qual],
                          detail="no branch selected by the constants ' ', '\\t' and '\\n' was recognised in CLexer.token "
                                 f"(found: {[b[0] for b in branches]})"))
        else:
            obs.append(Ob(f"{base}/CLexer.token/whitespace-branches-recognised", DISCHARGED, BACKEND, functions=[tokf.qual],
                          detail=f"branches: {[b[0] for b in branches]}"))
    ppl = prog.funcs.get(FR.LEXER_PPLINE_FN)
    if ppl is None:
        obs.append(Ob(f"{base}/CLexer._handle_ppline", UNDECIDED, BACKEND, detail=f"{FR.LEXER_PPLINE_FN} not found"))
    else:
        eff = A.results[ppl.key]
        bad = layout_only(eff.sites.values())
        ret = A.summ[ppl.key].ret
        if not (ret.tags <= {"none"}):
            bad.append(f"{ppl.module.rel}:{ppl.node.lineno}: _handle_ppline returns a value of type {sorted(ret.tags)} (a #line directive must not produce a token)")
        called_from_token = False
        if tokf is not None:
            for n in ast.walk(tokf.node):
                if isinstance(n, ast.Call):
                    for t in A.results[tokf.key].calls.get(id(n), []):
                        if t.func is ppl:
                            called_from_token = True
        if not called_from_token:
            obs.append(Ob(f"{base}/CLexer._handle_ppline", UNDECIDED, BACKEND, functions=[ppl.qual],
                          detail="CLexer.token does not call _handle_ppline: the #line path was not recognised"))
        else:
            obs.append(Ob(f"{base}/CLexer._handle_ppline", REFUTED if bad else DISCHARGED, BACKEND, functions=[ppl.qual],
                          replay=REPLAY_LAYOUT if bad else None,
                          detail="\n".join(bad) if bad else f"modifies only {sorted(allowed)} (and reports errors through error_func); returns None"))
    # position state flows only into Token.lineno/.column, error reports and the position state itself
    PA = fx.TaintAnalysis(A, _position_config(prog)).run()
    token_ctor_sites = []
    for f in prog.real_functions():
        e = A.results.get(f.key)
        for cid, ts in (e.calls.items() if e is not None else []):
            for t in ts:
                if t.kind == "ctor" and t.cls is not None and t.cls.key == FR.TOKEN_CLASS:
                    token_ctor_sites.append((f, e.call_nodes[cid]))
    for f in sorted(PA.funcs, key=lambda f: f.key):
        if f.cls is None or f.cls.key != FR.LEXER_CLASS:
            continue
        v = PA.viol.get(f.key, [])
        name = f"{base}/position-flow/{f.qual}"
        if v:
            obs.append(Ob(name, REFUTED, BACKEND, functions=[f.qual], replay=REPLAY_LAYOUT,
                          detail=f"self.{'/self.'.join(FR.LEXER_POSITION_SOURCES)} flows into something other than Token.lineno/.column, "
                                 "error_func(...) or the position state:\n" + "\n".join(v)))
        else:
            obs.append(Ob(name, DISCHARGED, BACKEND, functions=[f.qual]))
    mk = prog.funcs.get(FR.LEXER_MAKE_TOKEN_FN)
    elsewhere = [f"{f.module.rel}:{n.lineno}: `{fx.src_of(n)}` in {f.qual}" for f, n in token_ctor_sites if mk is None or _top(f) is not mk]
    if mk is None:
        obs.append(Ob(f"{base}/CLexer._make_token/only-token-constructor", UNDECIDED, BACKEND, detail=f"{FR.LEXER_MAKE_TOKEN_FN} not found"))
    elif elsewhere:
        obs.append(Ob(f"{base}/CLexer._make_token/only-token-constructor", UNDECIDED, BACKEND, functions=[mk.qual],
                      detail="Token(...) is also constructed outside _make_token (covered by the position-flow obligations only):\n" + "\n".join(elsewhere)))
    else:
        here = [n for f, n in token_ctor_sites if _top(f) is mk]
        ok = bool(here)
        obs.append(Ob(f"{base}/CLexer._make_token/only-token-constructor", DISCHARGED if ok else UNDECIDED, BACKEND, functions=[mk.qual],
                      detail=("Token(...) is constructed only in _make_token: " + "; ".join(fx.src_of(n) for n in here)) if ok
                      else "no Token(...) construction found"))
    # (4) objects that carry coordinates are never used by value (keys, ==, in, hash): pyvc/fx_carriers.py
    from . import fx_carriers as FC
    trees = {m.rel: m.tree for m in prog.modules.values() if m.name in ("c_parser", "ast_transforms", "c_lexer")}
    retc = FC.returning_carriers(trees)
    for f in sorted(prog.real_functions(), key=lambda f: f.key):
        if f.module.name not in ("c_parser", "ast_transforms", "c_lexer"):
            continue
        if f.cls is not None and f.cls.key in (FR.COORD_CLASS, FR.TOKEN_CLASS):
            continue
        hits = FC.scan_function(f.node, retc, f.module.rel)
        if hits:
            obs.append(Ob(f"C17/fx/coord-carrier-not-a-key/{f.key}", REFUTED, BACKEND, functions=[f.qual], replay=REPLAY_LAYOUT,
                          detail="a Token / Coord (dataclasses compared and hashed over ALL fields, line and column included) is used by value:\n"
                                 + "\n".join(hits[:6])))
    obs.append(Ob("C17/fx/coord-carrier-not-a-key", DISCHARGED, BACKEND, functions=[],
                  detail=f"functions returning a Token/Coord by annotation: {sorted(retc)}; no carrier is a key, a set element, "
                         "an operand of == / != / in, or an argument of hash() in any other function"))
    res.assumptions.append("None-ness of a coordinate (`x is None` / `x is not None`) is a function of the token sequence")
    res.assumptions.append("coordinates live only in attributes named coord / lineno / column / filename and in Coord objects "
                           "(every load of such an attribute is a source; checked: tainted values are stored nowhere else)")
    dt = (time.time() - t0) / max(1, len(obs))
    for o in obs:
        o.time_s = round(dt, 5)
    res.obs = obs
    res.solver_time_s = round(time.time() - t0, 3)
    return res


FAMILIES = {"C12": c12_fx, "C13": c13_fx, "C17": c17_fx}


def main(argv=None) -> int:
    """python3-vt -m pyvc.fx_obligations [C12 C13 C17] [--json]: print obligation statuses."""
    import json
    import sys

    argv = list(sys.argv[1:] if argv is None else argv)
    as_json = "--json" in argv
    names = [a for a in argv if not a.startswith("--")] or sorted(FAMILIES)
    out = {}
    for n in names:
        r = FAMILIES[n]("quick")
        out[n] = [dict(name=o.name, status=o.status, detail=o.detail, has_replay=o.replay is not None) for o in r.obs]
    if as_json:
        print(json.dumps(out))
    else:
        for n, obs in out.items():
            for o in obs:
                if o["status"] != DISCHARGED:
                    print(o["status"].upper(), o["name"])
                    print("    " + o["detail"].replace("\n", "\n    "))
            cnt = {}
            for o in obs:
                cnt[o["status"]] = cnt.get(o["status"], 0) + 1
            print(f"{n}: {len(obs)} obligations {cnt}")
    return 0


if __name__ == "__main__":
    import sys

    sys.exit(main())
