"""Symbolic executor over the real function ASTs (see smt.py for the value model)."""
from __future__ import annotations

import ast
import copy
import time
from typing import Any, Dict, List, Optional, Tuple

import z3

from . import core
from .smt import (
    B, CLASSES, CLASS_FIELDS, CONTRACTS, Contract, EngineError, FIELD_TYPES, Heap, I, PREDICATES, S, SV,
    PSeq, Schema, SeqV, VBool, VC, VInt, VNone, VRef, VStr, Val, bval, cls_of, fresh, is_bool, is_int,
    is_none, is_ref, is_str, ival, lookup_field_type, mk_bool, mk_int, mk_none, mk_py, mk_ref,
    mk_seq, mk_str, mk_tuple, parse_ty, rval, sval,
)

PURE_BUILTINS = {"len", "isinstance", "hasattr", "cast", "max", "min", "int", "str", "repr", "tuple"}
MUTATORS = {"append", "extend", "insert", "pop", "remove", "clear", "sort", "reverse", "update", "setdefault"}


class Fork(Exception):
    def __init__(self, key, cond):
        self.key, self.cond = key, cond


class Raised(Exception):
    """A Python exception is raised on this path (class name)."""

    def __init__(self, exc, lineno=None):
        self.exc, self.lineno = exc, lineno


class State:
    def __init__(self):
        self.locals: Dict[str, SV] = {}
        self.heap = Heap("0")
        self.pc: List[Any] = []
        self.schemas: List[Schema] = []
        self.idx: Dict[int, Any] = {}
        self.decisions: Dict[Any, bool] = {}
        self.old: Optional["State"] = None
        self.parent: Optional["State"] = None  # enclosing frame for closures (shares heap/pc by swap)
        self.spec = False
        self.ctx: List[Any] = []  # temporary hypotheses while evaluating a guarded sub-expression
        self.ghostvals: Dict[str, Any] = {}
        self.calllog: List[Any] = []  # (callable contract name, [argument SVs]) in call order
        self.callbase: Dict[str, Any] = {}  # symbolic number of calls made before the current log segment (loops)
        self.events: List[Any] = []  # heap snapshots (L, fields, A): everything stored then is allocated then
        self.loads: Dict[Any, Any] = {}  # heap cells read on this path

    def clone(self) -> "State":
        s = State.__new__(State)
        s.locals = dict(self.locals)
        s.heap = self.heap.copy()
        s.pc = list(self.pc)
        s.schemas = list(self.schemas)
        s.idx = dict(self.idx)
        s.decisions = dict(self.decisions)
        s.old = self.old
        s.parent = self.parent
        s.spec = self.spec
        s.ctx = list(self.ctx)
        s.ghostvals = dict(self.ghostvals)
        s.events = list(self.events)
        s.loads = dict(self.loads)
        s.calllog = list(self.calllog)
        s.callbase = dict(self.callbase)
        c = getattr(self, "_wf", None)
        if c is not None and c[0] is self.events and c[1] is self.loads:
            s._wf = [s.events, s.loads, c[2], c[3], list(c[4])]
        return s

    def snap(self):
        self.events.append((self.heap.LA, dict(self.heap.fields), self.heap.A))

    def ld_elem(self, o, k):
        self.loads[("L", o.get_id(), k.get_id())] = ("L", None, o, k)

    def ld_field(self, f, o):
        self.loads[("F", f, o.get_id())] = ("F", f, o, None)

    def reg(self, t):
        if t is not None and z3.is_expr(t) and t.sort() == I:
            self.idx[t.get_id()] = t
        return t

    def regref(self, t):
        return t

    def assume(self, f):
        if self.ctx:
            f = z3.Implies(z3.And(self.ctx), f)
        self.pc.append(f)


def has_effect_call(node: ast.AST) -> bool:
    for n in ast.walk(node):
        if isinstance(n, ast.Call):
            f = n.func
            if isinstance(f, ast.Name) and f.id in PURE_BUILTINS:
                continue
            if isinstance(f, ast.Attribute) and f.attr in ("get", "startswith", "find", "index", "lstrip", "rstrip", "join", "group"):
                continue
            return True
        if isinstance(n, ast.NamedExpr):
            return True
    return False


def wf_instances(st) -> List[Any]:
    """Instances of heap well-formedness: whatever reference is stored in heap snapshot e is allocated in e.
    Computed incrementally (events x loads) and cached on the state."""
    cache = getattr(st, "_wf", None)
    if cache is None or cache[0] is not st.events or cache[1] is not st.loads:
        cache = [st.events, st.loads, 0, 0, []]
        st._wf = cache
    ne0, nl0, out = cache[2], cache[3], cache[4]
    loads = list(st.loads.values())
    ne, nl = len(st.events), len(loads)

    def inst(ev, ld):
        (L, fields, A) = ev
        (kind, f, o, k) = ld
        if kind == "L":
            t = L[o][k]
        else:
            arr = fields.get(f)
            if arr is None:
                # untouched at that time: still the initial array of this field
                arr = z3.Const(f"H!{f}!0", z3.ArraySort(I, Val))
            t = arr[o]
        return z3.Implies(is_ref(t), rval(t) < A)
    for i in range(ne):
        lo = nl0 if i < ne0 else 0
        for j in range(lo, nl):
            out.append(inst(st.events[i], loads[j]))
    cache[2], cache[3] = ne, nl
    return list(out)


def smt_ArrV():
    from .smt import ArrV
    return ArrV


class Verifier:
    """Generates the verification conditions of one function against its contract."""

    def __init__(self, con: Contract, finfo: core.FuncInfo, pymod, prefix: str, cls_name: Optional[str] = None):
        self.con = con
        self.finfo = finfo
        self.node: ast.FunctionDef = finfo.node
        self.pymod = pymod
        self.env = vars(pymod)
        self.prefix = prefix
        self.cls_name = cls_name
        self.vcs: List[VC] = []
        self.n_paths = 0
        self.notes: List[str] = []
        self.loop_ordinals: Dict[int, int] = {}
        self._ghost_funcs: Dict[str, Any] = {}
        self.unmodelled: set = set()   # library functions modelled as uninterpreted symbols on some path of this function
        n = 0
        for sub in ast.walk(self.node):
            if isinstance(sub, (ast.While, ast.For)):
                n += 1
        # loop ordinals in source order (including loops of nested closures)
        ordered = sorted(
            [s for s in ast.walk(self.node) if isinstance(s, (ast.While, ast.For))],
            key=lambda s: (s.lineno, s.col_offset),
        )
        for k, s in enumerate(ordered, 1):
            self.loop_ordinals[id(s)] = k
        self.assumed: List[str] = []
        self.local_map: Dict[str, str] = {}
        self._map_locals()

    # ---------------------------------------------------------------- names of locals
    def _map_locals(self):
        """Positional alpha-renaming: contracts name locals as on the pinned tree (`locals_order`);
        if the current tree renamed them, map by order of first assignment."""
        want = self.con.locals_order
        if not want:
            return
        have: List[str] = []
        params = {a.arg for a in self.node.args.args + self.node.args.kwonlyargs}
        for sub in ast.walk(self.node):
            tgt = None
            if isinstance(sub, ast.Name) and isinstance(sub.ctx, ast.Store):
                tgt = sub.id
            if tgt and tgt not in params and tgt not in have:
                have.append((sub.lineno, sub.col_offset, tgt))
        have = [t for _, _, t in sorted(set(have))]
        seen, ordered = set(), []
        for t in have:
            if t not in seen:
                seen.add(t)
                ordered.append(t)
        if ordered != want and len(ordered) == len(want):
            self.local_map = dict(zip(want, ordered))

    # ---------------------------------------------------------------- obligations
    def rel(self, node) -> str:
        ln = getattr(node, "lineno", None)
        return f"L{ln - self.node.lineno}" if ln is not None else "L?"

    def oblige(self, st: State, goal, kind: str, node=None, label: str = ""):
        if st.spec:
            return
        name = f"{self.prefix}/{self.con.name}/{kind}"
        if label:
            name += f"/{label}"
        if node is not None:
            name += f"@{self.rel(node)}"
        if z3.is_true(z3.simplify(goal)) and False:
            return
        cex = {k: v.v for k, v in st.locals.items() if v.v is not None}
        hyps = list(st.pc) + list(st.ctx) + wf_instances(st)
        self.vcs.append(VC(name, hyps, list(st.schemas), list(st.idx.values()), goal, kind, self.con.name,
                           getattr(node, "lineno", None), cex))

    # ---------------------------------------------------------------- typing facts
    def assume_type(self, st: State, term, ty, depth=0) -> SV:
        """Assume `term` (Val) has static type `ty`; returns the SV carrying that knowledge."""
        if ty is None or ty[0] == "any":
            return SV(term, None, ty)
        k = ty[0]
        if k == "int":
            st.assume(is_int(term))
            return SV(term, "int", ty)
        if k == "bool":
            st.assume(is_bool(term))
            return SV(term, "bool", ty)
        if k == "str":
            st.assume(is_str(term))
            return SV(term, "str", ty)
        if k == "none":
            st.assume(is_none(term))
            return SV(term, "none", ty)
        if k == "opt":
            st.assume(z3.Or(is_none(term), self.type_pred(st, term, ty[1])))
            return SV(term, None, ty)
        if k in ("obj", "list", "dict", "tuple", "callable"):
            st.assume(self.type_pred(st, term, ty))
            st.regref(rval(term))
            return SV(term, "ref", ty)
        raise EngineError(f"type {ty}")

    def type_pred(self, st: State, term, ty):
        k = ty[0]
        if k == "any":
            return z3.BoolVal(True)
        if k == "int":
            return is_int(term)
        if k == "bool":
            return is_bool(term)
        if k == "str":
            return is_str(term)
        if k == "none":
            return is_none(term)
        if k == "opt":
            return z3.Or(is_none(term), self.type_pred(st, term, ty[1]))
        r = rval(term)
        alloc = z3.And(r >= 0, r < st.heap.A)
        if k == "obj":
            return z3.And(is_ref(term), alloc, CLASSES.inst(r, ty[1]))
        if k in ("list", "tuple"):
            return z3.And(is_ref(term), alloc, cls_of(r) == CLASSES.ids[k], st.heap.LN[r] >= 0)
        if k == "dict":
            return z3.And(is_ref(term), alloc, cls_of(r) == CLASSES.ids[k])
        if k == "callable":
            return z3.And(is_ref(term), alloc)
        raise EngineError(f"type {ty}")

    # ---------------------------------------------------------------- truthiness
    def truthy(self, st: State, v: SV, node=None):
        if v.kind == "none":
            return z3.BoolVal(False)
        if v.kind == "bool":
            return bval(v.v)
        if v.kind == "int":
            return ival(v.v) != 0
        if v.kind == "str":
            return z3.Length(sval(v.v)) > 0
        if v.kind == "py":
            return z3.BoolVal(bool(v.py))
        if v.kind == "tuple":
            return z3.BoolVal(len(v.items) > 0)
        if v.kind == "seq":
            return v.items.n > 0
        if v.kind == "closure":
            return z3.BoolVal(True)
        t = v.v
        ty = v.ty
        if v.kind == "ref" and ty is not None:
            if ty[0] in ("list", "tuple"):
                return st.heap.LN[rval(t)] > 0
            if ty[0] == "obj":
                return z3.BoolVal(True)
            if ty[0] == "dict":
                raise EngineError("truthiness of dict")
        if ty is not None and ty[0] == "opt":
            inner = self.truthy(st, SV(t, self._kind_of(ty[1]), ty[1]), node)
            return z3.And(z3.Not(is_none(t)), inner)
        # fully dynamic
        r = rval(t)
        return z3.If(
            is_none(t), False,
            z3.If(is_bool(t), bval(t),
                  z3.If(is_int(t), ival(t) != 0,
                        z3.If(is_str(t), z3.Length(sval(t)) > 0,
                              z3.If(z3.Or(cls_of(r) == CLASSES.ids["list"], cls_of(r) == CLASSES.ids["tuple"]),
                                    st.heap.LN[r] > 0, True)))))

    @staticmethod
    def _kind_of(ty):
        if ty is None:
            return None
        return {"int": "int", "bool": "bool", "str": "str", "none": "none", "obj": "ref", "list": "ref",
                "dict": "ref", "tuple": "ref", "callable": "ref"}.get(ty[0])

    # ---------------------------------------------------------------- boxing
    def to_val(self, st: State, v: SV):
        """Val term of a value (boxes python-side tuples/py constants)."""
        if v.kind == "tuple":
            r = self.alloc(st, "tuple")
            seq = PSeq.empty()
            for it in v.items:
                seq = seq.append(self.to_val(st, it))
            st.heap.set_lseq(r, seq)
            return VRef(r)
        if v.kind == "py":
            return self.py_const(st, v.py)
        if v.kind == "seq":
            raise EngineError("spec sequence used as a value")
        if v.kind == "closure":
            raise EngineError("closure used as a value")
        return v.v

    _py_ids: Dict[int, int] = {}
    _py_objs: Dict[int, Any] = {}

    def py_const(self, st: State, obj):
        if obj is None:
            return VNone
        if isinstance(obj, bool):
            return VBool(z3.BoolVal(obj))
        if isinstance(obj, int):
            return VInt(z3.IntVal(obj))
        if isinstance(obj, str):
            return VStr(z3.StringVal(obj))
        k = id(obj)
        if k not in Verifier._py_ids:
            Verifier._py_ids[k] = -(len(Verifier._py_ids) + 2)
            Verifier._py_objs[k] = obj
        return VRef(z3.IntVal(Verifier._py_ids[k]))

    @staticmethod
    def _simple_py(v) -> bool:
        if isinstance(v, (str, int, bool, type(None))):
            return True
        if isinstance(v, tuple):
            return all(isinstance(x, (str, int, bool, type(None))) or (hasattr(x, "name") and hasattr(x, "value")) for x in v)
        return False

    def from_py(self, obj) -> SV:
        if obj is None:
            return mk_none()
        if isinstance(obj, bool):
            return mk_bool(obj)
        if isinstance(obj, int):
            return mk_int(obj)
        if isinstance(obj, str):
            return mk_str(obj)
        if isinstance(obj, tuple) and all(isinstance(x, (str, int, bool, type(None))) or True for x in obj) and len(obj) <= 8 \
                and not isinstance(obj, type):
            return mk_tuple([self.from_py(x) for x in obj])
        return mk_py(obj)

    def alloc(self, st: State, cls: str):
        st.snap()
        r = st.heap.A
        st.regref(r)
        a2 = fresh("A", I)
        st.pc.append(a2 == r + 1)
        st.pc.append(r >= 0)
        st.pc.append(cls_of(r) == CLASSES.ids[cls])
        st.heap.A = a2
        return r

    # ---------------------------------------------------------------- merging
    def merge(self, st: State, c, a: SV, b: SV) -> SV:
        if z3.is_true(c):
            return a
        if z3.is_false(c):
            return b
        if a.kind == "tuple" and b.kind == "tuple" and len(a.items) == len(b.items):
            return mk_tuple([self.merge(st, c, x, y) for x, y in zip(a.items, b.items)])
        if a.kind == "py" and b.kind == "py" and a.py is b.py:
            return a
        kind = a.kind if a.kind == b.kind and a.kind in ("none", "bool", "int", "str", "ref") else None
        ty = a.ty if a.ty == b.ty else None
        if ty is None and a.ty and b.ty:
            if a.ty == ("none",):
                ty = b.ty if b.ty[0] == "opt" else ("opt", b.ty)
            elif b.ty == ("none",):
                ty = a.ty if a.ty[0] == "opt" else ("opt", a.ty)
        return SV(z3.If(c, self.to_val(st, a), self.to_val(st, b)), kind, ty)

    # ================================================================ expressions
    def ev(self, node: ast.AST, st: State) -> SV:
        m = getattr(self, "ev_" + type(node).__name__, None)
        if m is None:
            raise EngineError(f"expression {type(node).__name__} at line {getattr(node, 'lineno', '?')}")
        return m(node, st)

    def ev_Constant(self, node, st):
        return self.from_py(node.value)

    def lookup_name(self, name: str, st: State) -> Optional[SV]:
        name2 = self.local_map.get(name, name) if st.spec else name
        s: Optional[State] = st
        while s is not None:
            if name2 in s.locals:
                return s.locals[name2]
            if name in s.locals:
                return s.locals[name]
            s = s.parent
        return None

    def ev_Name(self, node, st):
        v = self.lookup_name(node.id, st)
        if v is not None:
            return v
        if st.spec and node.id in st.ghostvals:
            return st.ghostvals[node.id]
        from .smt import SPEC_CONSTS
        if st.spec and node.id in SPEC_CONSTS:
            return self.from_py(SPEC_CONSTS[node.id]) if not isinstance(SPEC_CONSTS[node.id], (tuple, list, frozenset, set)) else mk_py(SPEC_CONSTS[node.id])
        if node.id in ("True", "False", "None"):
            return self.from_py({"True": True, "False": False, "None": None}[node.id])
        if node.id in self.env:
            return self.from_py(self.env[node.id])
        import builtins

        if hasattr(builtins, node.id):
            return mk_py(getattr(builtins, node.id))
        raise EngineError(f"unbound name {node.id} at line {node.lineno}")

    def ev_NamedExpr(self, node, st):
        v = self.ev(node.value, st)
        st.locals[node.target.id] = v
        return v

    def ev_Tuple(self, node, st):
        return mk_tuple([self.ev(e, st) for e in node.elts])

    def ev_List(self, node, st):
        items = [self.ev(e, st) for e in node.elts]
        if st.spec:
            seq = PSeq.empty()
            for it in items:
                seq = seq.append(self.to_val(st, it))
            return mk_seq(seq)
        r = self.alloc(st, "list")
        seq = PSeq.empty()
        for it in items:
            seq = seq.append(self.to_val(st, it))
        st.heap.set_lseq(r, seq)
        ety = items[0].ty if items and all(i.ty == items[0].ty for i in items) else None
        return mk_ref(r, ("list", ety or ("any",)))

    def ev_Set(self, node, st):
        vals = []
        for e in node.elts:
            if not isinstance(e, ast.Constant):
                raise EngineError("non-constant set literal")
            vals.append(e.value)
        return mk_py(frozenset(vals))

    def ev_Dict(self, node, st):
        r = self.alloc(st, "dict")
        dk = z3.K(S, z3.BoolVal(False))
        dv = st.heap.DV[r]
        for k, v in zip(node.keys, node.values):
            if not (isinstance(k, ast.Constant) and isinstance(k.value, str)):
                raise EngineError("dict literal with non-constant key")
            dk = z3.Store(dk, z3.StringVal(k.value), True)
            dv = z3.Store(dv, z3.StringVal(k.value), self.to_val(st, self.ev(v, st)))
        st.heap.DK = z3.Store(st.heap.DK, r, dk)
        st.heap.DV = z3.Store(st.heap.DV, r, dv)
        return mk_ref(r, ("dict", ("any",)))

    def ev_JoinedStr(self, node, st):
        # f-string: concatenation of literal parts and str() of the formatted values (uninterpreted)
        acc = z3.StringVal("")
        for part in node.values:
            if isinstance(part, ast.Constant):
                acc = z3.Concat(acc, z3.StringVal(part.value))
            else:
                v = self.ev(part.value, st)
                acc = z3.Concat(acc, self.str_of(st, v, repr_=(part.conversion == 114)))
        return mk_str(acc)

    _strfn = z3.Function("py_str", Val, S)
    _reprfn = z3.Function("py_repr", Val, S)

    def str_of(self, st, v: SV, repr_=False):
        if v.kind == "str" and not repr_:
            return sval(v.v)
        t = self.to_val(st, v)
        return (Verifier._reprfn if repr_ else Verifier._strfn)(t)

    def ev_IfExp(self, node, st):
        c = self.truthy(st, self.ev(node.test, st), node)
        if has_effect_call(node.body) or has_effect_call(node.orelse):
            d = self.decide(st, node, c)
            return self.ev(node.body if d else node.orelse, st)
        st.ctx.append(c)
        a = self.ev(node.body, st)
        st.ctx.pop()
        st.ctx.append(z3.Not(c))
        b = self.ev(node.orelse, st)
        st.ctx.pop()
        return self.merge(st, c, a, b)

    def decide(self, st: State, node, cond) -> bool:
        key = (id(node), len([k for k in st.decisions if k[0] == id(node)])) if False else id(node)
        # loops re-enter the same node: decisions are cleared per statement execution
        if key in st.decisions:
            return st.decisions[key]
        raise Fork(key, cond)

    def ev_BoolOp(self, node, st):
        is_and = isinstance(node.op, ast.And)
        if st.spec:
            ts = [self.truthy(st, self.ev(v, st)) for v in node.values]
            return mk_bool(z3.And(ts) if is_and else z3.Or(ts))
        cur = self.ev(node.values[0], st)
        for i, nxt in enumerate(node.values[1:]):
            c = self.truthy(st, cur, node)
            go_on = c if is_and else z3.Not(c)  # condition under which the next operand is evaluated
            sg = z3.simplify(go_on)
            if z3.is_false(sg):
                return cur
            if z3.is_true(sg):
                cur = self.ev(nxt, st)
                continue
            if has_effect_call(nxt):
                d = self.decide(st, (node, i), go_on) if False else self._decide_key(st, ("bo", id(node), i), go_on)
                if not d:
                    return cur
                cur = self.ev(nxt, st)
                continue
            st.ctx.append(go_on)
            try:
                b = self.ev(nxt, st)
            finally:
                st.ctx.pop()
            keep = cur
            if not is_and and cur.ty is not None and cur.ty[0] == "opt":
                # `x or y` yields x only when x is truthy, hence not None
                keep = SV(cur.v, self._kind_of(cur.ty[1]), cur.ty[1])
            cur = self.merge(st, go_on, b, keep)
        return cur

    def _decide_key(self, st, key, cond) -> bool:
        if key in st.decisions:
            return st.decisions[key]
        raise Fork(key, cond)

    def ev_UnaryOp(self, node, st):
        v = self.ev(node.operand, st)
        if isinstance(node.op, ast.Not):
            return mk_bool(z3.Not(self.truthy(st, v, node)))
        if isinstance(node.op, ast.USub):
            self.need_kind(st, v, "int", node)
            return mk_int(-ival(v.v))
        raise EngineError("unary op")

    def need_kind(self, st, v: SV, kind: str, node, what="TypeError"):
        if v.kind == kind:
            return
        if v.kind in ("py", "tuple", "seq", "closure"):
            raise EngineError(f"expected {kind}, got {v.kind} at line {getattr(node, 'lineno', '?')}")
        pred = {"int": is_int, "str": is_str, "bool": is_bool, "ref": is_ref}[kind](v.v)
        if kind == "int" and v.kind == "bool":
            raise EngineError("bool used as int")
        self.oblige(st, pred, f"rte-{what}", node, kind)
        st.assume(pred)

    def ev_BinOp(self, node, st):
        a = self.ev(node.left, st)
        b = self.ev(node.right, st)
        op = node.op
        if a.kind == "seq" or b.kind == "seq":
            if isinstance(op, ast.Add):
                return mk_seq(self.seq_concat(st, self.as_seq(st, a), self.as_seq(st, b)))
            raise EngineError("seq op")
        if isinstance(op, ast.Add) and (a.kind == "str" or b.kind == "str"):
            self.need_kind(st, a, "str", node)
            self.need_kind(st, b, "str", node)
            return mk_str(z3.Concat(sval(a.v), sval(b.v)))
        if isinstance(op, ast.Mult) and a.kind == "str" and b.kind == "int":
            # "lit " * n : uninterpreted repetition with n=0 -> "" and n=1 -> s
            rep = z3.Function("py_strmul", S, I, S)
            r = rep(sval(a.v), ival(b.v))
            st.assume(z3.Implies(ival(b.v) <= 0, r == z3.StringVal("")))
            st.assume(z3.Implies(ival(b.v) == 1, r == sval(a.v)))
            st.assume(z3.Implies(ival(b.v) == 2, r == z3.Concat(sval(a.v), sval(a.v))))
            return mk_str(r)
        if isinstance(op, ast.Add) and self._is_listy(a) and self._is_listy(b):
            if st.spec:
                return mk_seq(self.seq_concat(st, self.as_seq(st, a), self.as_seq(st, b)))
            cat = self.seq_concat(st, self.as_seq(st, a), self.as_seq(st, b))
            r = self.alloc(st, "list")
            st.heap.set_lseq(r, cat)
            return mk_ref(r, a.ty if a.ty == b.ty else ("list", ("any",)))
        self.need_kind(st, a, "int", node)
        self.need_kind(st, b, "int", node)
        x, y = ival(a.v), ival(b.v)
        if isinstance(op, ast.Add):
            return mk_int(x + y)
        if isinstance(op, ast.Sub):
            return mk_int(x - y)
        if isinstance(op, ast.Mult):
            return mk_int(x * y)
        raise EngineError("binary op")

    @staticmethod
    def _is_listy(v: SV):
        return v.kind == "ref" and v.ty is not None and v.ty[0] in ("list",)

    def as_seq(self, st, v: SV) -> PSeq:
        if v.kind == "seq":
            return v.items
        if v.kind == "tuple":
            seq = PSeq.empty()
            for it in v.items:
                seq = seq.append(self.to_val(st, it))
            return seq
        if v.kind == "ref" or (st.spec and v.kind is None):
            return st.heap.lseq(st.regref(rval(v.v)))
        raise EngineError(f"not a sequence: {v}")

    def seq_concat(self, st, a: PSeq, b: PSeq) -> PSeq:
        sa, sb = z3.simplify(a.n), z3.simplify(b.n)
        if z3.is_int_value(sb) and sb.as_long() <= 4 and z3.is_int_value(sa) is False or (z3.is_int_value(sb) and sb.as_long() <= 4):
            out = a
            for k in range(sb.as_long()):
                out = out.append(b.arr[k])
            return out
        c = fresh("cat", smt_ArrV())
        st.reg(a.n)
        st.pc.append(z3.And(a.n >= 0, b.n >= 0))
        st.schemas.append(Schema(lambda k, a=a, c=c: z3.Implies(z3.And(k >= 0, k < a.n), c[k] == a.arr[k]), "concat-left"))
        st.schemas.append(Schema(lambda k, a=a, b=b, c=c: z3.Implies(z3.And(k >= a.n, k < a.n + b.n), c[k] == b.arr[k - a.n]), "concat-right"))
        return PSeq(c, a.n + b.n)

    def seq_slice(self, st, a: PSeq, lo, ln) -> PSeq:
        slo = z3.simplify(lo)
        if z3.is_int_value(slo) and slo.as_long() == 0:
            return PSeq(a.arr, ln)  # a prefix: same elements, shorter length
        c = fresh("slice", smt_ArrV())
        st.reg(lo)
        st.schemas.append(Schema(lambda k, a=a, c=c, lo=lo, ln=ln: z3.Implies(z3.And(k >= 0, k < ln), c[k] == a.arr[lo + k]), "slice"))
        st.schemas.append(Schema(lambda k, a=a, c=c, lo=lo, ln=ln: z3.Implies(z3.And(k >= lo, k < lo + ln), c[k - lo] == a.arr[k]), "slice'"))
        return PSeq(c, ln)

    # ---- comparisons
    def ev_Compare(self, node, st):
        left = self.ev(node.left, st)
        conj = []
        for op, rn in zip(node.ops, node.comparators):
            right = self.ev(rn, st)
            conj.append(self.compare(st, op, left, right, node))
            left = right
        return mk_bool(z3.And(conj) if len(conj) > 1 else conj[0])

    def compare(self, st, op, a: SV, b: SV, node):
        if isinstance(op, (ast.Is, ast.IsNot, ast.Eq, ast.NotEq)):
            eq = self.equal(st, a, b, identity=isinstance(op, (ast.Is, ast.IsNot)), node=node)
            return eq if isinstance(op, (ast.Is, ast.Eq)) else z3.Not(eq)
        if isinstance(op, (ast.In, ast.NotIn)):
            r = self.contains(st, a, b, node)
            return r if isinstance(op, ast.In) else z3.Not(r)
        if a.kind == "str" and b.kind == "str":
            raise EngineError("string ordering")
        self.need_kind(st, a, "int", node)
        self.need_kind(st, b, "int", node)
        x, y = ival(a.v), ival(b.v)
        return {ast.Lt: x < y, ast.LtE: x <= y, ast.Gt: x > y, ast.GtE: x >= y}[type(op)]

    def equal(self, st, a: SV, b: SV, identity: bool, node=None):
        if a.kind == "py" or b.kind == "py":
            if a.kind == "py" and b.kind == "py":
                return z3.BoolVal(a.py is b.py if identity else a.py == b.py)
            return self.to_val(st, a) == self.to_val(st, b)
        if a.kind == "seq" or b.kind == "seq":
            raise EngineError("equality of spec sequences: state it with forall")
        if a.kind == "tuple" or b.kind == "tuple":
            if "none" in (a.kind, b.kind):
                return z3.BoolVal(False)
            if a.kind == b.kind and len(a.items) == len(b.items):
                return z3.And([self.equal(st, x, y, identity) for x, y in zip(a.items, b.items)] or [z3.BoolVal(True)])
            raise EngineError("tuple comparison")
        if not identity and not st.spec:
            # == on two references would call __eq__ / structural list equality: outside the subset
            both_ref_possible = a.kind in ("ref", None) and b.kind in ("ref", None)
            if both_ref_possible and not (a.kind is None and b.kind is None and False):
                if a.kind == "ref" and b.kind == "ref":
                    raise EngineError(f"== between two objects at line {getattr(node, 'lineno', '?')}")
                # mixed / unknown: sound only when at least one side is a non-reference
                other = b if a.kind == "ref" else a
                if other.kind is None:
                    nr = z3.Not(is_ref(other.v))
                    self.oblige(st, z3.Or(nr, z3.Not(is_ref((a if other is b else b).v))), "subset-eq-on-objects", node)
        if not identity and a.kind in ("int", "bool") and b.kind in ("int", "bool") and a.kind != b.kind:
            x = ival(a.v) if a.kind == "int" else z3.If(bval(a.v), 1, 0)
            y = ival(b.v) if b.kind == "int" else z3.If(bval(b.v), 1, 0)
            return x == y
        return a.v == b.v

    def contains(self, st, a: SV, b: SV, node):
        if b.kind == "py":
            obj = b.py
            if isinstance(obj, (set, frozenset, tuple, list, dict)):
                elems = list(obj.keys() if isinstance(obj, dict) else obj)
                return z3.Or([self.equal(st, a, self.from_py(e), False) for e in elems] or [z3.BoolVal(False)])
            raise EngineError(f"`in` on python object {type(obj)}")
        if b.kind == "tuple":
            return z3.Or([self.equal(st, a, e, False) for e in b.items] or [z3.BoolVal(False)])
        if b.kind == "str":
            self.need_kind(st, a, "str", node)
            return z3.Contains(sval(b.v), sval(a.v))
        if b.kind == "seq":
            raise EngineError("`in` on a spec sequence")
        if b.kind == "ref" and b.ty and b.ty[0] == "dict":
            self.need_kind(st, a, "str", node)
            return st.heap.DK[st.regref(rval(b.v))][sval(a.v)]
        if b.kind == "ref" and b.ty and b.ty[0] == "list":
            raise EngineError("`in` on a list")
        raise EngineError(f"`in` on {b} at line {getattr(node, 'lineno', '?')}")

    # ---- attributes
    def class_has_attr(self, cname: str, attr: str) -> bool:
        if attr in CLASS_FIELDS.get(cname, []):
            return True
        pc = CLASSES.pyclass.get(cname)
        if pc is not None:
            if hasattr(pc, attr):
                return True
            if attr in getattr(pc, "__annotations__", {}):
                return True
        return any(self.class_has_attr(b, attr) for b in CLASSES.bases.get(cname, []))

    def classes_with_attr(self, attr: str) -> List[str]:
        return [c for c in CLASSES.ids if self.class_has_attr(c, attr)]

    def static_class(self, v: SV) -> Optional[str]:
        if v.ty is not None and v.ty[0] == "obj":
            return v.ty[1]
        if v.ty is not None and v.ty[0] in ("list", "dict", "tuple"):
            return v.ty[0]
        return None

    def ev_Attribute(self, node, st):
        if isinstance(node.value, ast.Name) and self.lookup_name(node.value.id, st) is None:
            base = self.env.get(node.value.id)
            import types

            if isinstance(base, types.ModuleType) or isinstance(base, type):
                if hasattr(base, node.attr):
                    return self.from_py(getattr(base, node.attr))
        obj = self.ev(node.value, st)
        return self.load_attr(st, obj, node.attr, node)

    def load_attr(self, st, obj: SV, attr: str, node) -> SV:
        if obj.kind == "py":
            if hasattr(obj.py, attr):
                return self.from_py(getattr(obj.py, attr))
            raise EngineError(f"attribute {attr} of python constant")
        if obj.kind in ("tuple", "seq", "closure"):
            raise EngineError(f"attribute {attr} of {obj.kind}")
        if obj.kind in ("str",) or (obj.kind == "ref" and obj.ty and obj.ty[0] in ("list", "dict")):
            return SV(None, "py", None, py=("method", attr, obj))
        if obj.ty is not None and obj.ty[0] == "opt" and obj.ty[1][0] == "obj":
            if not st.spec:
                self.oblige(st, z3.Not(is_none(obj.v)), "rte-AttributeError", node, attr + "-on-None")
                st.assume(z3.Not(is_none(obj.v)))
            obj = SV(obj.v, "ref", obj.ty[1])
        cname = self.static_class(obj)
        r = rval(obj.v)
        from .smt import CLASS_METHODS
        if cname is not None and attr in CLASS_METHODS.get(cname, {}):
            return SV(None, "py", None, py=("boundmethod", CLASS_METHODS[cname][attr], obj))
        if cname is not None:
            pc = CLASSES.pyclass.get(cname)
            # methods / properties
            cattr = getattr(pc, attr, None) if pc is not None else None
            if isinstance(cattr, property):
                fld = self.property_field(cname, attr)
                return self.load_field(st, obj, fld, cname, node)
            if cattr is not None and callable(cattr) and not self.is_data_field(cname, attr):
                return SV(None, "py", None, py=("boundmethod", self.method_owner(cname, attr) + "." + attr, obj))
            if not self.class_has_attr(cname, attr):
                if not st.spec:
                    self.oblige(st, z3.BoolVal(False), "rte-AttributeError", node, attr)
            return self.load_field(st, obj, attr, cname, node)
        # dynamic object: must be a reference to an object whose class has the attribute
        if not st.spec:
            if obj.kind != "ref":
                self.oblige(st, is_ref(obj.v), "rte-AttributeError", node, attr + "-on-nonobject")
                st.assume(is_ref(obj.v))
            ok = z3.Or([cls_of(r) == CLASSES.ids[c] for c in self.classes_with_attr(attr)] or [z3.BoolVal(False)])
            self.oblige(st, ok, "rte-AttributeError", node, attr)
            st.assume(ok)
        return self.load_field(st, obj, attr, None, node)

    def is_data_field(self, cname, attr) -> bool:
        return lookup_field_type(cname, attr) is not None

    def method_owner(self, cname, attr) -> str:
        pc = CLASSES.pyclass.get(cname)
        for k in pc.__mro__:
            if attr in vars(k):
                return k.__name__
        return cname

    def property_field(self, cname, attr) -> str:
        pc = CLASSES.pyclass[cname]
        import inspect

        owner = self.method_owner(cname, attr)
        src = core.Source.get(self._file_of_class(owner))
        fn = src.node(f"{owner}.{attr}")
        body = [s for s in fn.body if not (isinstance(s, ast.Expr) and isinstance(s.value, ast.Constant))]
        if len(body) == 1 and isinstance(body[0], ast.Return) and isinstance(body[0].value, ast.Attribute) \
                and isinstance(body[0].value.value, ast.Name) and body[0].value.value.id == "self":
            return body[0].value.attr
        raise EngineError(f"property {cname}.{attr} is not a plain field read")

    def _file_of_class(self, cname) -> str:
        pc = CLASSES.pyclass[cname]
        return pc.__module__.replace(".", "/") + ".py"

    def load_field(self, st, obj: SV, attr: str, cname: Optional[str], node) -> SV:
        r = st.regref(rval(obj.v))
        t = st.heap.field(attr)[r]
        st.ld_field(attr, r)
        ty = lookup_field_type(cname, attr) if cname else None
        if ty is None and cname is None:
            ty = None
        v = self.assume_type(st, t, ty)
        # heap well-formedness: stored references are allocated
        st.assume(z3.Implies(is_ref(t), z3.And(rval(t) < st.heap.A)))
        return v

    # ---- subscripts
    def ev_Subscript(self, node, st):
        base = self.ev(node.value, st)
        if isinstance(node.slice, ast.Slice):
            return self.ev_slice(st, base, node.slice, node)
        idx = self.ev(node.slice, st)
        return self.index(st, base, idx, node)

    def index(self, st, base: SV, idx: SV, node) -> SV:
        if base.kind == "py":
            obj = base.py
            if isinstance(obj, dict):
                keys = list(obj.keys())
                hit = z3.Or([self.equal(st, idx, self.from_py(k), False) for k in keys] or [z3.BoolVal(False)])
                self.oblige(st, hit, "rte-KeyError", node)
                st.assume(hit)
                if not all(self._simple_py(v) for v in obj.values()):
                    for k in keys:
                        if self._decide_key(st, ("pyidx", id(node), k), self.equal(st, idx, self.from_py(k), False)):
                            return self.from_py(obj[k])
                    raise EngineError("unreachable dict index")
                res = None
                for k in reversed(keys):
                    v = self.from_py(obj[k])
                    res = v if res is None else self.merge(st, self.equal(st, idx, self.from_py(k), False), v, res)
                return res
            raise EngineError("subscript of python object")
        if False:
            pass
        if base.kind == "tuple":
            if idx.kind == "int" and z3.is_int_value(z3.simplify(ival(idx.v))):
                k = z3.simplify(ival(idx.v)).as_long()
                return base.items[k]
            raise EngineError("symbolic tuple index")
        if base.kind == "str":
            self.need_kind(st, idx, "int", node)
            i = ival(idx.v)
            n = z3.Length(sval(base.v))
            i2 = self.norm_index(i, n)
            self.oblige(st, z3.And(i2 >= 0, i2 < n), "rte-IndexError", node)
            st.assume(z3.And(i2 >= 0, i2 < n))
            st.reg(i2)
            return mk_str(z3.SubString(sval(base.v), i2, 1))
        if base.kind == "seq":
            i = ival(idx.v)
            st.reg(i)
            ety = base.ty[1] if base.ty and len(base.ty) > 1 else None
            i2 = self.norm_index(i, base.items.n)
            t = base.items.at(i2)
            if base.py is not None:
                st.ld_elem(base.py, i2)
            st.pc.append(z3.Implies(is_ref(t), rval(t) < st.heap.A))
            return SV(t, self._kind_of(ety), ety)
        if base.kind == "ref" and base.ty and base.ty[0] == "dict":
            self.need_kind(st, idx, "str", node)
            r = st.regref(rval(base.v))
            k = sval(idx.v)
            if not st.spec:
                self.oblige(st, st.heap.DK[r][k], "rte-KeyError", node)
                st.assume(st.heap.DK[r][k])
            return self.assume_type(st, st.heap.DV[r][k], base.ty[1]) if not st.spec else \
                SV(st.heap.DV[r][k], self._kind_of(base.ty[1]), base.ty[1])
        if base.kind == "ref" and (base.ty is None or base.ty[0] in ("list", "tuple")) or (st.spec and base.kind is None):
            if base.ty is None and not st.spec:
                raise EngineError(f"subscript of untyped object at line {node.lineno}")
            self.need_kind(st, idx, "int", node)
            r = st.regref(rval(base.v))
            seq = st.heap.lseq(r)
            n = seq.n
            i2 = self.norm_index(ival(idx.v), n)
            if not st.spec:
                self.oblige(st, z3.And(i2 >= 0, i2 < n), "rte-IndexError", node)
                st.assume(z3.And(i2 >= 0, i2 < n))
            st.reg(i2)
            ety = None
            if base.ty and base.ty[0] == "list":
                ety = base.ty[1]
            elif base.ty and base.ty[0] == "tuple" and z3.is_int_value(z3.simplify(i2)):
                ety = base.ty[1][z3.simplify(i2).as_long()]
            t = seq.at(i2)
            st.ld_elem(r, i2)
            if st.spec:
                st.pc.append(z3.Implies(is_ref(t), rval(t) < st.heap.A))
                return SV(t, self._kind_of(ety), ety)
            v = self.assume_type(st, t, ety)
            st.assume(z3.Implies(is_ref(t), rval(t) < st.heap.A))
            return v
        raise EngineError(f"subscript of {base} at line {node.lineno}")

    @staticmethod
    def norm_index(i, n):
        si = z3.simplify(i)
        if z3.is_int_value(si):
            return i if si.as_long() >= 0 else n + si.as_long()
        return z3.If(i < 0, n + i, i)

    def ev_slice(self, st, base: SV, sl: ast.Slice, node) -> SV:
        if sl.step is not None:
            raise EngineError("slice step")
        if base.kind == "str":
            seq = sval(base.v)
            n = z3.Length(seq)
        else:
            seq = self.as_seq(st, base)
            n = seq.n

        def clamp(x):
            return z3.If(x < 0, 0, z3.If(x > n, n, x))

        lo = z3.IntVal(0)
        hi = n
        if sl.lower is not None:
            v = self.ev(sl.lower, st)
            self.need_kind(st, v, "int", node)
            lo = clamp(self.norm_index(ival(v.v), n))
        if sl.upper is not None:
            v = self.ev(sl.upper, st)
            self.need_kind(st, v, "int", node)
            hi = clamp(self.norm_index(ival(v.v), n))
        ln = z3.If(hi > lo, hi - lo, 0)
        if base.kind == "str":
            return mk_str(z3.Extract(seq, lo, ln))
        sub = self.seq_slice(st, seq, lo, ln)
        if st.spec or base.kind == "seq":
            return mk_seq(sub, base.ty[1] if base.ty and len(base.ty) > 1 else None)
        r = self.alloc(st, "list")
        st.heap.set_lseq(r, sub)
        return mk_ref(r, base.ty)
