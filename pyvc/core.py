"""Common infrastructure: locating /repo, extracting the real functions, obligation
records, known findings, evidence files, replay files and the per-property driver.

Run under python3-vt (3.11, has z3).  Replays run under /venv/bin/python (3.12).
Nothing here restates repository code: functions are re-read from REPO on every run.
"""
from __future__ import annotations

import ast
import dataclasses
import fnmatch
import hashlib
import importlib
import json
import os
import subprocess
import sys
import time
import traceback
from typing import Any, Callable, Dict, List, Optional

VERIF = os.path.dirname(os.path.dirname(os.path.abspath(__file__)))
REPO = os.environ.get("VERIF_REPO", "/repo")
REPLAY_PY = os.environ.get("VERIF_REPLAY_PY", "/venv/bin/python")
OUT = os.path.join(VERIF, "out")
# evidence/ only ever describes runs against /repo itself; runs against a scratch copy (seeded changes, patch checks) write elsewhere
EVIDENCE_DIR = os.environ.get("VERIF_EVIDENCE_DIR") or (
    os.path.join(VERIF, "evidence") if os.path.realpath(REPO) == "/repo" else os.path.join(VERIF, "out", "evidence-scratch"))
KNOWN_FINDINGS = os.path.join(VERIF, "known_findings.txt")

EXIT_OK, EXIT_VIOLATION, EXIT_UNDECIDED, EXIT_CRASH = 0, 1, 2, 3


# --------------------------------------------------------------------------------------
# importing the real modules from REPO (never from site-packages)
# --------------------------------------------------------------------------------------
_repo_mods: Dict[str, Any] = {}


def repo_import(name: str = "pycparser"):
    """Import `name` (e.g. 'pycparser.c_parser') from REPO's working tree."""
    if name in _repo_mods:
        return _repo_mods[name]
    if REPO not in sys.path or sys.path[0] != REPO:
        sys.path.insert(0, REPO)
    sys.dont_write_bytecode = True
    mod = importlib.import_module(name)
    f = getattr(mod, "__file__", "") or ""
    if not os.path.abspath(f).startswith(os.path.abspath(REPO) + os.sep):
        raise RuntimeError(f"{name} imported from {f}, not from {REPO}")
    _repo_mods[name] = mod
    return mod


# --------------------------------------------------------------------------------------
# extraction of the verified text
# --------------------------------------------------------------------------------------
@dataclasses.dataclass
class FuncInfo:
    qualname: str
    file: str  # path relative to REPO
    lineno: int
    end_lineno: int
    sha256: str
    node: Any = dataclasses.field(repr=False, default=None)
    src: str = dataclasses.field(repr=False, default="")

    def as_json(self) -> dict:
        return dict(
            function=self.qualname,
            file=self.file,
            lines=[self.lineno, self.end_lineno],
            sha256=self.sha256,
        )


class Source:
    """One repository file parsed with `ast` on this run."""

    _cache: Dict[str, "Source"] = {}

    def __init__(self, relpath: str):
        self.relpath = relpath
        self.path = os.path.join(REPO, relpath)
        with open(self.path, encoding="utf-8") as f:
            self.text = f.read()
        self.tree = ast.parse(self.text, filename=self.path)
        self.lines = self.text.splitlines()
        self._index: Dict[str, ast.AST] = {}
        self._build(self.tree, "")

    @classmethod
    def get(cls, relpath: str) -> "Source":
        if relpath not in cls._cache:
            cls._cache[relpath] = Source(relpath)
        return cls._cache[relpath]

    def _build(self, node: ast.AST, prefix: str) -> None:
        for ch in ast.iter_child_nodes(node):
            if isinstance(ch, (ast.FunctionDef, ast.AsyncFunctionDef, ast.ClassDef)):
                q = prefix + ch.name
                self._index.setdefault(q, ch)
                self._build(ch, q + ".")
            elif isinstance(ch, (ast.If, ast.For, ast.While, ast.With, ast.Try)):
                self._build(ch, prefix)

    def names(self) -> List[str]:
        return list(self._index)

    def has(self, qualname: str) -> bool:
        return qualname in self._index

    def node(self, qualname: str) -> ast.AST:
        return self._index[qualname]

    def func(self, qualname: str) -> FuncInfo:
        n = self._index[qualname]
        seg = "\n".join(self.lines[n.lineno - 1 : n.end_lineno])
        return FuncInfo(
            qualname=qualname,
            file=self.relpath,
            lineno=n.lineno,
            end_lineno=n.end_lineno,
            sha256=hashlib.sha256(seg.encode()).hexdigest(),
            node=n,
            src=seg,
        )

    def functions_of_class(self, cls: str) -> List[str]:
        return [
            q
            for q, n in self._index.items()
            if q.startswith(cls + ".")
            and q.count(".") == 1
            and isinstance(n, (ast.FunctionDef,))
        ]

    def module_assign(self, name: str) -> Optional[ast.AST]:
        for st in self.tree.body:
            if isinstance(st, ast.Assign):
                for t in st.targets:
                    if isinstance(t, ast.Name) and t.id == name:
                        return st.value
            if isinstance(st, ast.AnnAssign) and isinstance(st.target, ast.Name):
                if st.target.id == name:
                    return st.value
        return None


def file_sha(relpath_in_verif: str) -> str:
    with open(os.path.join(VERIF, relpath_in_verif), "rb") as f:
        return hashlib.sha256(f.read()).hexdigest()


# --------------------------------------------------------------------------------------
# obligations
# --------------------------------------------------------------------------------------
DISCHARGED, REFUTED, UNDECIDED = "discharged", "refuted", "undecided"


@dataclasses.dataclass
class Ob:
    """Outcome of one proof obligation (or one bounded stand-in when bounded=True)."""

    name: str
    status: str
    backend: str
    time_s: float = 0.0
    detail: str = ""
    # python source of a replay body; it must print REPRODUCED or NOT-REPRODUCED
    replay: Optional[str] = None
    functions: List[str] = dataclasses.field(default_factory=list)
    bounded: bool = False
    sample: Any = None  # a human-readable rendering of the case, for evidence samples

    def short(self) -> dict:
        d = dict(obligation=self.name, status=self.status, backend=self.backend)
        if self.sample is not None:
            d["case"] = self.sample
        return d


@dataclasses.dataclass
class Result:
    obs: List[Ob] = dataclasses.field(default_factory=list)
    functions: List[FuncInfo] = dataclasses.field(default_factory=list)
    trusted_base: List[str] = dataclasses.field(default_factory=list)
    assumptions: List[str] = dataclasses.field(default_factory=list)
    extra: Dict[str, Any] = dataclasses.field(default_factory=dict)
    solver_time_s: float = 0.0

    def add(self, other: "Result") -> None:
        self.obs += other.obs
        seen = {f.qualname for f in self.functions}
        for f in other.functions:
            if f.qualname not in seen:
                self.functions.append(f)
                seen.add(f.qualname)
        for t in other.trusted_base:
            if t not in self.trusted_base:
                self.trusted_base.append(t)
        for t in other.assumptions:
            if t not in self.assumptions:
                self.assumptions.append(t)
        for k, v in other.extra.items():
            if k in self.extra and isinstance(v, dict) and isinstance(self.extra[k], dict):
                self.extra[k].update(v)
            elif k in self.extra and isinstance(v, list):
                self.extra[k] = self.extra[k] + v
            else:
                self.extra[k] = v
        self.solver_time_s += other.solver_time_s


# --------------------------------------------------------------------------------------
# known findings
# --------------------------------------------------------------------------------------
@dataclasses.dataclass
class Finding:
    kind: str  # "open" | "fixed"
    prop: str
    pattern: str  # glob over obligation names (open entries)
    text: str


def load_findings() -> List[Finding]:
    out: List[Finding] = []
    if not os.path.exists(KNOWN_FINDINGS):
        return out
    for line in open(KNOWN_FINDINGS, encoding="utf-8"):
        line = line.strip()
        if not line or line.startswith("#"):
            continue
        if line.startswith("fixed:"):
            rest = line[len("fixed:") :].strip()
            prop = rest.split()[0].split("=", 1)[1]
            out.append(Finding("fixed", prop, "", rest))
        elif line.startswith("open:"):
            rest = line[len("open:") :].strip()
            head, _, text = rest.partition("::")
            fields = dict(kv.split("=", 1) for kv in head.split())
            out.append(Finding("open", fields["property"], fields["obligation"], text.strip()))
    return out


# --------------------------------------------------------------------------------------
# replay files
# --------------------------------------------------------------------------------------
REPLAY_HEADER = '''#!/venv/bin/python
# Replay file written by /verif/check.py -- property {prop}, obligation:
#   {name}
# Back end: {backend}
# Run:  {py} {path}
# Outcome when written: {outcome}
# ---- verifier output -------------------------------------------------------------
{detail}
# ----------------------------------------------------------------------------------
import os, sys
sys.path.insert(0, os.environ.get("VERIF_REPO", {repo!r}))
sys.dont_write_bytecode = True
OBLIGATION = {name!r}
'''


def write_replay(prop: str, ob: Ob) -> (str, bool):
    """Write the replay file for a refuted obligation; run it; return (path, reproduced)."""
    d = os.path.join(OUT, "replays", prop)
    os.makedirs(d, exist_ok=True)
    h = hashlib.sha256(ob.name.encode()).hexdigest()[:12]
    path = os.path.join(d, f"{h}.py")
    body = ob.replay
    reproduced = False
    outcome = "no input produced by the back end (no-failing-input-found)"
    detail = "\n".join("# " + l for l in (ob.detail or "").splitlines()[:200])
    if body is None:
        body = (
            "print('obligation', OBLIGATION, 'failed in the verifier; the back end produced no input')\n"
            "print('NO-INPUT')\n"
        )

    def render(outcome: str) -> str:
        return (
            REPLAY_HEADER.format(
                prop=prop,
                name=ob.name,
                backend=ob.backend,
                py=REPLAY_PY,
                path=path,
                outcome=outcome,
                detail=detail,
                repo=REPO,
            )
            + body
        )

    with open(path, "w", encoding="utf-8") as f:
        f.write(render(outcome))
    if ob.replay is not None:
        try:
            env = dict(os.environ, VERIF_REPO=REPO, PYTHONDONTWRITEBYTECODE="1")
            p = subprocess.run(
                [REPLAY_PY, path], capture_output=True, text=True, timeout=120, env=env
            )
            txt = p.stdout + p.stderr
            reproduced = "REPRODUCED" in txt and "NOT-REPRODUCED" not in txt
            tail = " | ".join(txt.strip().splitlines()[-3:])
            outcome = ("REPRODUCED on the real code: " if reproduced else "not reproduced natively: ") + tail
        except Exception as e:  # pragma: no cover
            outcome = f"replay could not be run: {e!r}"
        with open(path, "w", encoding="utf-8") as f:
            f.write(render(outcome))
    return path, reproduced


# --------------------------------------------------------------------------------------
# driver
# --------------------------------------------------------------------------------------
LEVEL = "proof"


def run_property(prop: str, tier: str, runner: Callable[[str, int], Result]) -> int:
    t0 = time.time()
    seed = int(os.environ.get("VERIF_SEED", "0") or 0)
    os.makedirs(EVIDENCE_DIR, exist_ok=True)
    ev_path = os.path.join(EVIDENCE_DIR, f"{prop}.json")
    try:
        if os.path.exists(ev_path):
            os.remove(ev_path)
    except OSError:
        pass
    try:
        res = runner(tier, seed)
    except Exception:
        traceback.print_exc()
        print(f"CRASH property={prop} (checker error, not a verdict)")
        return EXIT_CRASH

    findings = [f for f in load_findings() if f.prop == prop]
    open_f = [f for f in findings if f.kind == "open"]
    proof_obs = [o for o in res.obs if not o.bounded]
    bounded_obs = [o for o in res.obs if o.bounded]

    known: Dict[str, List[Ob]] = {}
    violations: List[Ob] = []
    for o in res.obs:
        if o.status != REFUTED:
            continue
        hit = None
        for f in open_f:
            if fnmatch.fnmatchcase(o.name, f.pattern):
                hit = f
                break
        if hit is not None:
            known.setdefault(hit.pattern, []).append(o)
        else:
            violations.append(o)
    undecided = [o for o in res.obs if o.status == UNDECIDED]

    for f in open_f:
        if f.pattern in known:
            print(f"KNOWN-FINDING: property={prop} {f.text} [obligations: {len(known[f.pattern])}, e.g. {known[f.pattern][0].name}]")
        else:
            print(f"NOTE property={prop} listed finding not observed on this tree: {f.pattern}")

    viol_records = []
    shown = 0
    for o in violations:
        path, reproduced = write_replay(prop, o)
        suffix = "" if reproduced else " no-failing-input-found"
        viol_records.append(dict(obligation=o.name, replay=path, reproduced=reproduced, backend=o.backend))
        if shown < 25:
            print(f"VIOLATION property={prop} replay={path} obligation={o.name}{suffix}")
            shown += 1
    if len(violations) > shown:
        print(f"... {len(violations) - shown} further refuted obligations, see {ev_path}")
    for o in undecided[:25]:
        print(f"UNDECIDED property={prop} obligation={o.name} reason={o.detail.splitlines()[0] if o.detail else ''}")

    n_known = sum(len(v) for v in known.values())
    claimed = [o for o in proof_obs if not (o.status == REFUTED and any(o in v for v in known.values()))]
    discharged = [o for o in claimed if o.status == DISCHARGED]
    by_backend: Dict[str, int] = {}
    for o in discharged:
        by_backend[o.backend] = by_backend.get(o.backend, 0) + 1

    # samples: a few obligations of each backend, written out
    samples = []
    seen_b: Dict[str, int] = {}
    for o in res.obs:
        k = o.backend + ("/bounded" if o.bounded else "")
        if seen_b.get(k, 0) < 3:
            seen_b[k] = seen_b.get(k, 0) + 1
            samples.append(o.short())

    coverage = dict(
        obligations=len(claimed),
        discharged=len(discharged),
        checker_cmd=f"python3-vt {os.path.join(VERIF, 'check.py')} {prop} --tier {tier}",
        trusted_base=res.trusted_base,
        samples=samples,
        explanation=(
            "obligations = proof obligations generated from the current /repo source on this run "
            "(known-finding obligations and bounded stand-ins are listed separately and are not counted)"
        ),
        by_backend=by_backend,
        solver_time_s=round(res.solver_time_s, 3),
        functions_under_contract=[f.as_json() for f in res.functions],
        excluded_known_findings=[
            dict(pattern=p, obligations=[o.name for o in v][:20], count=len(v)) for p, v in known.items()
        ],
        bounded=[
            dict(obligation=o.name, status=o.status, backend=o.backend, detail=o.detail[:300], counts_as_proof=False)
            for o in bounded_obs
        ],
        undecided=[dict(obligation=o.name, reason=o.detail[:300]) for o in undecided],
        refuted=viol_records,
        exhaustive=False,
    )
    coverage["result_cache"] = ("verdicts of unchanged (repository source, contract, specification, engine) inputs may be reused from a "
                                "content-addressed cache under out/cache keyed by sha256 of all of them: " + tree_key()[:24])
    coverage.update(res.extra)
    ev = dict(
        property_id=prop,
        tier=tier,
        seed=seed,
        level=LEVEL,
        coverage=coverage,
        assumptions=res.assumptions,
        wall_s=round(time.time() - t0, 3),
        violations=len(violations),
    )
    if len(claimed) == 0:
        print(f"CRASH property={prop} zero obligations generated (vacuous run)")
        return EXIT_CRASH
    with open(ev_path, "w", encoding="utf-8") as f:
        json.dump(ev, f, indent=1, default=str)
    print(
        f"SUMMARY property={prop} tier={tier} obligations={len(claimed)} discharged={len(discharged)} "
        f"known-finding-obligations={n_known} violations={len(violations)} undecided={len(undecided)} "
        f"bounded={len(bounded_obs)} wall={ev['wall_s']}s"
    )
    if violations:
        return EXIT_VIOLATION
    if undecided:
        return EXIT_UNDECIDED
    return EXIT_OK


def pool_map(fn, items, procs: int = 16):
    """Run fn over items in a process pool (fork), preserving order."""
    import multiprocessing as mp

    if len(items) <= 1 or procs <= 1:
        return [fn(x) for x in items]
    ctx = mp.get_context("fork")
    with ctx.Pool(min(procs, len(items))) as p:
        return p.map(fn, items, chunksize=max(1, len(items) // (procs * 4)))


# --------------------------------------------------------------------------------------
# content-addressed result cache (shared by the checks of one tree state)
# --------------------------------------------------------------------------------------
_TREE_KEY = None


def tree_key() -> str:
    """sha256 over every input a verdict can depend on: the repository sources, the engines, the contracts and specs."""
    global _TREE_KEY
    if _TREE_KEY is None:
        import glob

        h = hashlib.sha256()
        files = sorted(glob.glob(os.path.join(REPO, "pycparser", "**", "*"), recursive=True))
        files += sorted(glob.glob(os.path.join(VERIF, "pyvc", "*.py")) + glob.glob(os.path.join(VERIF, "spec", "*.py"))
                        + glob.glob(os.path.join(VERIF, "contracts", "*.py")) + glob.glob(os.path.join(VERIF, "props", "*.py")))
        for f in files:
            if os.path.isfile(f) and not f.endswith((".pyc",)) and "__pycache__" not in f:
                h.update(f.replace(REPO, "<repo>").replace(VERIF, "<verif>").encode())
                with open(f, "rb") as fh:
                    h.update(hashlib.sha256(fh.read()).digest())
        h.update(sys.version.encode())
        _TREE_KEY = h.hexdigest()
    return _TREE_KEY


CACHE_STATS = {"hits": 0, "misses": 0}


def cache_get(kind: str, item: str):
    if os.environ.get("VERIF_NO_CACHE"):
        return None
    import pickle

    p = os.path.join(OUT, "cache", tree_key()[:24], kind, hashlib.sha256(item.encode()).hexdigest()[:32] + ".pkl")
    try:
        with open(p, "rb") as f:
            CACHE_STATS["hits"] += 1
            return pickle.load(f)
    except Exception:
        CACHE_STATS["misses"] += 1
        return None


def cache_put(kind: str, item: str, value) -> None:
    if os.environ.get("VERIF_NO_CACHE"):
        return
    import pickle

    d = os.path.join(OUT, "cache", tree_key()[:24], kind)
    try:
        os.makedirs(d, exist_ok=True)
        tmp = os.path.join(d, hashlib.sha256(item.encode()).hexdigest()[:32] + f".{os.getpid()}.tmp")
        with open(tmp, "wb") as f:
            pickle.dump(value, f)
        os.replace(tmp, tmp.rsplit(".", 2)[0] + ".pkl")
    except Exception:
        pass
