"""C17, complement of the taint analysis: objects that CARRY coordinates (Token: lineno/column, Coord: file/line/column)
must not be used where their VALUE identity matters -- as dictionary / set keys, as operands of == / != / in, or as
arguments of hash().  Both classes are dataclasses with value equality over all fields, so such a use makes a parsing
decision depend on line and column numbers (two tokens at the same line:column of different files / re-based lines
collide, equal tokens at different positions do not).

Typing is by annotation (what the code itself declares): a name is a carrier when it is a parameter annotated with a
carrier class (also Optional[...]), or is assigned (=, :=, for-target excluded) from a call of a function / method whose
return annotation names a carrier class, from a constructor call of such a class, or from a `.coord` attribute.
The pass is syntactic and local to one function; anything it cannot type is not a carrier (no alarm).
"""
from __future__ import annotations

import ast
from typing import Dict, List, Set

CARRIER_CLASSES = ("Token", "Coord")
KEY_METHODS = {"get", "setdefault", "pop", "add", "discard", "remove", "index", "count", "__contains__", "__getitem__", "__setitem__"}


def _mentions_carrier(ann) -> bool:
    if ann is None:
        return False
    for n in ast.walk(ann):
        if isinstance(n, ast.Name) and n.id in CARRIER_CLASSES:
            return True
        if isinstance(n, ast.Attribute) and n.attr in CARRIER_CLASSES:
            return True
        if isinstance(n, ast.Constant) and isinstance(n.value, str) and any(c in n.value for c in CARRIER_CLASSES):
            return True
    return False


def _is_container_ann(ann) -> bool:
    """List[Token], Dict[..., Token] ...: the value is a container of carriers, not a carrier."""
    if isinstance(ann, ast.Subscript):
        base = ann.value
        nm = base.id if isinstance(base, ast.Name) else getattr(base, "attr", "")
        return nm not in ("Optional", "Union")
    if isinstance(ann, ast.BinOp):  # X | None
        return _is_container_ann(ann.left) or _is_container_ann(ann.right)
    return False


def returning_carriers(trees: Dict[str, ast.Module]) -> Set[str]:
    """Names of functions / methods (by bare name) whose return annotation is a carrier class (possibly Optional)."""
    out = set()
    for tree in trees.values():
        for n in ast.walk(tree):
            if isinstance(n, (ast.FunctionDef, ast.AsyncFunctionDef)) and _mentions_carrier(n.returns) and not _is_container_ann(n.returns):
                out.add(n.name)
    return out


def scan_function(fn: ast.FunctionDef, ret_carriers: Set[str], rel: str) -> List[str]:
    carriers: Set[str] = set()
    a = fn.args
    for p in a.posonlyargs + a.args + a.kwonlyargs:
        if _mentions_carrier(p.annotation) and not _is_container_ann(p.annotation):
            carriers.add(p.arg)

    def is_carrier(e) -> bool:
        if isinstance(e, ast.Name):
            return e.id in carriers
        if isinstance(e, ast.NamedExpr):
            return is_carrier(e.value)
        if isinstance(e, ast.Attribute) and e.attr == "coord":
            return True
        if isinstance(e, ast.Call):
            f = e.func
            nm = f.id if isinstance(f, ast.Name) else (f.attr if isinstance(f, ast.Attribute) else "")
            return nm in ret_carriers or nm in CARRIER_CLASSES
        if isinstance(e, ast.IfExp):
            return is_carrier(e.body) or is_carrier(e.orelse)
        return False

    # fixpoint over assignments (order-insensitive; a name once a carrier stays one)
    changed = True
    while changed:
        changed = False
        for n in ast.walk(fn):
            tgt, val = None, None
            if isinstance(n, ast.Assign) and len(n.targets) == 1 and isinstance(n.targets[0], ast.Name):
                tgt, val = n.targets[0].id, n.value
            elif isinstance(n, ast.AnnAssign) and isinstance(n.target, ast.Name):
                tgt, val = n.target.id, n.value
                if _mentions_carrier(n.annotation) and not _is_container_ann(n.annotation) and tgt not in carriers:
                    carriers.add(tgt)
                    changed = True
            elif isinstance(n, ast.NamedExpr) and isinstance(n.target, ast.Name):
                tgt, val = n.target.id, n.value
            if tgt and val is not None and tgt not in carriers and is_carrier(val):
                carriers.add(tgt)
                changed = True
    bad: List[str] = []

    def flag(node, what):
        try:
            src = ast.unparse(node)
        except Exception:
            src = "?"
        bad.append(f"{rel}:{getattr(node, 'lineno', '?')}: {what}: `{src}`")

    for n in ast.walk(fn):
        if isinstance(n, ast.Subscript) and is_carrier(n.slice):
            flag(n, "an object carrying line/column is used as a subscript key")
        elif isinstance(n, ast.Call):
            f = n.func
            if isinstance(f, ast.Attribute) and f.attr in KEY_METHODS and n.args and is_carrier(n.args[0]):
                flag(n, f"an object carrying line/column is the key argument of .{f.attr}()")
            elif isinstance(f, ast.Name) and f.id == "hash" and n.args and is_carrier(n.args[0]):
                flag(n, "hash() of an object carrying line/column")
        elif isinstance(n, ast.Compare):
            ops = n.ops
            operands = [n.left] + list(n.comparators)
            for i, op in enumerate(ops):
                l, r = operands[i], operands[i + 1]
                if isinstance(op, (ast.Eq, ast.NotEq)) and (is_carrier(l) or is_carrier(r)):
                    flag(n, "value comparison of an object carrying line/column")
                elif isinstance(op, (ast.In, ast.NotIn)) and is_carrier(l):
                    flag(n, "membership test of an object carrying line/column")
        elif isinstance(n, ast.Dict):
            for k in n.keys:
                if k is not None and is_carrier(k):
                    flag(k, "an object carrying line/column is a dictionary key")
        elif isinstance(n, ast.Set):
            for k in n.elts:
                if is_carrier(k):
                    flag(k, "an object carrying line/column is a set element")
    return bad
