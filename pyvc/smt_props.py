"""Run a list of functions under contract through the SMT engine (one process per function)."""
from __future__ import annotations

import multiprocessing as mp
import time
from typing import List, Optional

from . import core, smt

_LOADED = False

ENGINE_ASSUMPTIONS = [
    "Python semantics assumed by the SMT encoding: left-to-right evaluation, short-circuit and/or, truthiness "
    "(None/0/''/empty list false, objects true), mathematical integers, match with value/or/class patterns, "
    "dataclass and c_ast constructors store each parameter in the field of the same name, no threads/signals/"
    "RecursionError/MemoryError",
    "heap model: one array per field name, list contents as sequences, str-keyed dicts; objects read from the heap "
    "are allocated (well-formed heap)",
    "declared field types (contracts/*.py field_types) are data-structure invariants: assumed on load, proved on store",
    "universally quantified hypotheses are instantiated over the index terms of the path (incomplete => undecided, never unsound)",
]
ENGINE_TRUSTED = [
    "z3 4.x/5.1 (python z3-solver) deciding quantifier-free VCs; cvc5 1.0.3 as second solver on z3 unknown",
    "pyvc/smt*.py: the ast->VC generator written for this task (cross-checked by seeded-fault self-tests, tools/selftest.py)",
]


def _load():
    global _LOADED
    if not _LOADED:
        smt.load_repo_classes()
        _LOADED = True


def _one(args):
    qual, prefix, timeout_ms = args
    from .smt_stmt import verify_function

    t0 = time.time()
    hit = core.cache_get("smt", f"{qual}/{timeout_ms}")
    if hit is not None:
        obs, finfo, st, callees, npaths = hit
        import copy as _copy
        obs = _copy.deepcopy(obs)
        return (_rename(obs, prefix), finfo, st, callees, npaths)
    try:
        obs, finfo, eng = verify_function(qual, prefix, timeout_ms)
    except Exception as e:  # checker bug: undecided, never a violation
        import traceback

        return ([core.Ob(f"{prefix}/{qual}/engine-crash", core.UNDECIDED, "z3", time.time() - t0,
                         "engine error: " + "".join(traceback.format_exception_only(type(e), e)).strip(),
                         functions=[qual])], None, 0.0, [], 0)
    if finfo is not None:
        finfo.node = None
    out = (obs, finfo, eng.solver_time if eng else 0.0, sorted(eng.callees) if eng else [], eng.n_paths if eng else 0)
    if all(o.status != core.UNDECIDED or "engine" not in o.name for o in obs):
        core.cache_put("smt", f"{qual}/{timeout_ms}", (_strip(obs, prefix), finfo, out[2], out[3], out[4]))
    return out


def _one_assumed(args):
    qual, prefix = args
    hit = core.cache_get("smt", f"assumed/{qual}")
    if hit is not None:
        import copy as _copy
        return _rename(_copy.deepcopy(hit), prefix)
    try:
        from . import rtcheck
        con = smt.CONTRACTS[qual]
        obs = rtcheck.runtime_check(con, qual, prefix, "ASSUMED callee contract (its body is not verified by the SMT engine)")
    except Exception:
        obs = []
    out = []
    for o in obs:
        if o.status == core.UNDECIDED:
            continue   # the corpus does not reach it: stays an assumption
        o.name = o.name.replace("/runtime-contract", "/assumed-contract-runtime")
        out.append(o)
    core.cache_put("smt", f"assumed/{qual}", _strip(out, prefix))
    return out


def _strip(obs, prefix):
    import copy as _copy

    out = _copy.deepcopy(obs)
    for o in out:
        if o.name.startswith(prefix + "/"):
            o.name = "@" + o.name[len(prefix):]
    return out


def _rename(obs, prefix):
    for o in obs:
        if o.name.startswith("@"):
            o.name = prefix + o.name[1:]
    return obs


def run_functions(funcs: List[str], prefix: str, tier: str, procs: int = 16) -> core.Result:
    _load()
    timeout = 10000 if tier == "quick" else 60000
    from . import smt_stmt as _ss
    # quick: cross-check at run time the proved contracts that rest on an ASSUMED callee contract (the modular blind spot);
    # thorough: all proved contracts.  Inherited by the forked workers.
    _ss.CROSSCHECK = "all" if tier == "thorough" else True
    items = [(q, prefix, timeout) for q in funcs]
    if procs > 1 and len(items) > 1:
        ctx = mp.get_context("fork")
        with ctx.Pool(min(procs, len(items))) as p:
            outs = p.map(_one, items, chunksize=1)
    else:
        outs = [_one(i) for i in items]
    res = core.Result()
    trusted_callees = set()
    paths = {}
    # callee contracts that are ASSUMED although the function exists in the repository: evaluate them at run time (bounded)
    assumed = set()
    for (_q, _, _), (_obs, _fi, _st, callees, _np) in zip(items, outs):
        for c in callees:
            con = smt.CONTRACTS.get(c)
            if con is not None and con.trusted and con.file is not None and con.body_slice is None and c not in funcs:
                assumed.add(c)
    if assumed:
        aitems = [(q, prefix) for q in sorted(assumed)]
        if procs > 1 and len(aitems) > 1:
            with mp.get_context("fork").Pool(min(procs, len(aitems))) as p:
                aouts = p.map(_one_assumed, aitems, chunksize=1)
        else:
            aouts = [_one_assumed(i) for i in aitems]
        for obs in aouts:
            res.obs += obs
    for (q, _, _), (obs, finfo, st, callees, npaths) in zip(items, outs):
        res.obs += obs
        if finfo is not None:
            res.functions.append(finfo)
        res.solver_time_s += st
        paths[q] = npaths
        for c in callees:
            con = smt.CONTRACTS.get(c)
            if con is not None and con.trusted:
                trusted_callees.add(f"assumed contract of {c}: {con.trusted}")
    res.trusted_base += ENGINE_TRUSTED + sorted(trusted_callees)
    res.assumptions += ENGINE_ASSUMPTIONS
    res.extra["vacuity"] = {"feasible_normal_exit_paths": paths}
    return res
