"""Concrete replay of GX runs: the abstract form of a run (derivation tree with unexpanded markers) is completed to a full
derivation by shortest sub-derivations, rendered as C text, lexed by the REAL lexer and parsed by the REAL method with all
its REAL callees; the result is compared with the AST the reference grammar assigns to the same derivation.

Two uses:
  * replay file of a refuted term / coord obligation (prints REPRODUCED when the real code, running natively on the
    concrete text, returns something else than the reference AST),
  * the bounded `concrete` family: for a sample of the completed runs of every production on the CURRENT tree the two must
    agree -- an end-to-end validation of the composition argument (lemma L2) behind the stubs; counted as bounded only.

A form whose markers carry a non-default result shape (value variant), or whose method arguments are abstract values that
have no concrete spelling, has no concrete replay (None is returned; the obligation then reports no-failing-input-found).
"""
from __future__ import annotations

import json
from typing import Any, Dict, List, Optional, Tuple

from . import gx as GXM


# --------------------------------------------------------------------------------------
# shortest complete derivation of a nonterminal (starting with a given token type)
# --------------------------------------------------------------------------------------
def min_choice(gx, nt_name: str, first, depth=0):
    """(cost, prod, flat, shape, kid_firsts) of a shortest derivation of nt starting with token type `first`
    (None: any; "": the empty derivation), or None."""
    memo = gx.__dict__.setdefault("_minchoice", {})
    key = (nt_name, first)
    if key in memo:
        return memo[key]
    if depth > 14:
        return None
    memo[key] = None
    best = None
    alts: List[Any] = []
    g = gx.g
    for p in g.nts[nt_name].prods:
        if p.note == "superset":
            continue
        for flat, shape in p.flat_nested:
            fs, nullable = g.first_of_seq(flat)
            if first == "":
                if not nullable:
                    continue
            elif first is not None and first not in fs:
                continue
            cost = 0
            kf: List[Any] = []
            want = first
            ok = True
            for s in flat:
                if isinstance(s, GXM.T):
                    if want == "":
                        ok = False
                        break
                    if want is not None and s.type != want:
                        ok = False
                        break
                    cost += 1
                    kf.append(None)
                    want = None if want is None else None
                    if first is not None and first != "":
                        want = None
                    continue
                # nonterminal
                if want == "":
                    if not g.nullable[s.name]:
                        ok = False
                        break
                    kf.append("")
                    continue
                if want is not None:
                    if want in g.first[s.name]:
                        sub = min_choice(gx, s.name, want, depth + 1)
                        if sub is None:
                            ok = False
                            break
                        cost += sub[0]
                        kf.append(want)
                        want = None
                    elif g.nullable[s.name]:
                        kf.append("")
                    else:
                        ok = False
                        break
                    continue
                # free choice: empty if nullable, else shortest
                if g.nullable[s.name]:
                    kf.append("")
                    continue
                sub = min_choice(gx, s.name, None, depth + 1)
                if sub is None:
                    ok = False
                    break
                cost += sub[0]
                kf.append(None)
            if not ok or (want not in (None, "") and True):
                continue
            if first not in (None, "") and cost == 0:
                continue
            alts.append((cost, len(alts), p, flat, shape, kf))
            if best is None or cost < best[0]:
                best = (cost, p, flat, shape, kf)
    memo[key] = best
    gx.__dict__.setdefault("_minalts", {})[key] = [(c, p_, f_, s_, k_) for (c, _, p_, f_, s_, k_) in sorted(alts, key=lambda a: a[:2])]
    return best


def alternatives(gx, nt_name: str, first):
    """All productions of nt (each with its cheapest completion) that can start with `first`, cheapest first."""
    min_choice(gx, nt_name, first)
    return gx.__dict__.get("_minalts", {}).get((nt_name, first), [])


def min_tree(gx, nt_name: str, first, depth: int, alt: int = 0, salt: str = ""):
    """Complete derivation tree of nt: the alt-th cheapest production at the top, shortest completions below.  Among
    productions of equal (minimal) cost the choice rotates with `salt` (a stable hash), so that different forms are
    completed with different spellings of the same token class (7, 7u, 7LL, ...; the member operators; ...)."""
    import zlib

    al = alternatives(gx, nt_name, first)
    if alt:
        ch = al[alt] if alt < len(al) else None
    else:
        ch = min_choice(gx, nt_name, first)
        if ch is not None and salt:
            same = [a for a in al if a[0] == ch[0]]
            if len(same) > 1:
                ch = same[zlib.crc32(f"{salt}/{nt_name}/{depth}".encode()) % len(same)]
    if ch is None:
        return None
    _, p, flat, shape, kf = ch
    grp = gx.instantiate(p, flat, shape, depth)
    for i, (kid, f) in enumerate(zip(list(grp.kids), kf)):
        if isinstance(kid, GXM.Mark):
            if f == "":
                kid.first = ""
                continue
            sub = min_tree(gx, kid.nt, f, depth + 1, 0, f"{salt}.{i}" if salt else "")
            if sub is None:
                return None
            grp.kids[i] = sub
    return grp


def concretise(gx, root, vary: Optional[Tuple[int, int]] = None, salt: str = ""):
    """Clone of the tree with every marker replaced by a shortest complete derivation; None if impossible.
    vary = (m, k): the m-th marker (pre-order) takes its k-th cheapest production instead of the cheapest."""
    t = GXM.clone_tree(root, {})
    count = [0]

    def rec(n):
        if isinstance(n, GXM.Group):
            for i, k in enumerate(list(n.kids)):
                if isinstance(k, GXM.Mark):
                    if k.variant:
                        return False
                    if k.first == "":
                        continue
                    alt = vary[1] if vary and vary[0] == count[0] else 0
                    count[0] += 1
                    sub = min_tree(gx, k.nt, k.first, k.depth, alt, f"{salt}#{count[0]}" if salt else "")
                    if sub is None:
                        return False
                    n.kids[i] = sub
                elif isinstance(k, GXM.Group):
                    if not rec(k):
                        return False
        return True
    return t if rec(t) else None


# --------------------------------------------------------------------------------------
# serialisation of a form (so that a replay file can rebuild it from the grammar alone)
# --------------------------------------------------------------------------------------
def tree_to_data(gx, n) -> Any:
    if isinstance(n, GXM.Leaf):
        return ["L"]
    if isinstance(n, GXM.Mark):
        return ["M", n.nt, n.first, n.variant]
    prods = gx.g.nts[n.nt].prods
    pi = prods.index(n.prod)
    where, fi = None, None
    for w, lst in (("flat", n.prod.flat), ("nested", n.prod.flat_nested)):
        for k, (fl, sh) in enumerate(lst):
            if sh is n.shape or (sh == n.shape and len(fl) == len(n.kids)):
                where, fi = w, k
                break
        if where:
            break
    return ["G", n.nt, pi, where, fi, [tree_to_data(gx, k) for k in n.kids]]


def data_to_tree(gx, d, depth=0):
    if d[0] == "G":
        _, nt, pi, where, fi, kids = d
        p = gx.g.nts[nt].prods[pi]
        flat, shape = (p.flat if where == "flat" else p.flat_nested)[fi]
        grp = gx.instantiate(p, flat, shape, depth)
        for i, kd in enumerate(kids):
            if kd[0] == "G":
                grp.kids[i] = data_to_tree(gx, kd, depth + 1)
            elif kd[0] == "M":
                grp.kids[i].first = kd[2]
                grp.kids[i].variant = kd[3]
        return grp
    raise ValueError(d)


# --------------------------------------------------------------------------------------
# rendering and the native run
# --------------------------------------------------------------------------------------
def render(gx, toks) -> Tuple[str, Dict[Tuple[int, int], int]]:
    """C text of a token list (None = end) and the map (line, column) -> token index."""
    out = ""
    line, col = 1, 1
    pos: Dict[Tuple[int, int], int] = {}
    for i, t in enumerate(toks):
        if t is None:
            break
        if t.type == "PPPRAGMA":
            sp = "#pragma"
        else:
            sp = t.value
        if t.type == "PPPRAGMASTR":
            pos[(line, col)] = i
            out += sp + "\n"
            line, col = line + 1, 1
            continue
        pos[(line, col + 1) if t.type == "PPPRAGMA" else (line, col)] = i   # the PPPRAGMA token starts after the '#'
        nxt = toks[i + 1] if i + 1 < len(toks) else None
        if t.type == "PPPRAGMA" and (nxt is None or nxt.type != "PPPRAGMASTR"):
            out += sp + "\n"
            line, col = line + 1, 1
        else:
            out += sp + " "
            col += len(sp) + 1
    return out, pos


def remap_coords(gx, v, pos, memo=None):
    """Replace real coordinates by the index-based ones of the abstract layout (token k: line k + 1, column k + 1)."""
    memo = set() if memo is None else memo
    if id(v) in memo:
        return v
    memo.add(id(v))
    if isinstance(v, gx.c_ast.Node) and not isinstance(v, gx.Opaque):
        for s in type(v).__slots__:
            if s == "__weakref__":
                continue
            x = getattr(v, s)
            if s == "coord" and isinstance(x, gx.Coord):
                k = pos.get((x.line, x.column))
                if k is not None:
                    setattr(v, s, gx.Coord(x.file, k + 1, k + 1))
            else:
                remap_coords(gx, x, pos, memo)
    elif isinstance(v, (list, tuple)):
        for x in v:
            remap_coords(gx, x, pos, memo)
    elif isinstance(v, dict):
        for x in v.values():
            remap_coords(gx, x, pos, memo)
    return v


def concrete_run(gx, method, nt_name, root, follow, args, kwargs, depth=1) -> Dict[str, Any]:
    """Run the real method natively on the concrete text of a complete derivation; compare with the reference AST."""
    toks, nodes, n_form = gx.layout(root, list(follow))
    text, pos = render(gx, toks)
    p = gx.CParser()
    extra = 1 if any(t is not None and t.type == "RBRACE" for t in toks[n_form:]) else 0
    p._scope_stack = [dict() for _ in range(depth + extra)]
    for t in toks:
        if t is not None and t.type == "TYPEID":
            p._scope_stack[0][t.value] = True
    p.clex.input(text, "f.c")
    p._tokens = gx.c_parser._TokenStream(p.clex)
    out: Dict[str, Any] = dict(text=text, n_form=n_form)
    gx.keep_any_inside = True
    try:
        exp = gx.value_of(root)
        if gx.g.nts[root.nt].args.get("apply"):
            exp = exp(*gx.snapshot(tuple(args)), **gx.snapshot(dict(kwargs or {})))
    except Exception as e:
        out.update(kind="spec-error", detail=f"{type(e).__name__}: {e}")
        return out
    finally:
        gx.keep_any_inside = False
    regs: List[Tuple[str, bool]] = []
    for nm, kind in (("_add_identifier", False), ("_add_typedef_name", True)):
        real = getattr(gx.CParser, nm)

        def reg(name, coord, real=real, kind=kind, p=p):
            regs.append((name, kind))
            return real(p, name, coord)
        setattr(p, nm, reg)
    out["registrations"] = regs
    try:
        res = getattr(p, method)(*args, **(kwargs or {}))
    except gx.ParseError as e:
        out.update(kind="parse-error", detail=str(e))
        return out
    except Exception as e:
        out.update(kind="exception", detail=f"{type(e).__name__}: {e}")
        return out
    end = p._tokens._index
    if end != n_form:
        out.update(kind="consumption", detail=f"consumed {end} of {n_form} tokens")
        return out
    out["result"] = res
    remap_coords(gx, res, pos)
    allowed = {("f.c", i + 1, i + 1) for i in range(n_form)}
    for c in _coords_of(gx, list(args) + list((kwargs or {}).values())):
        allowed.add(c)
    d = gx.ast_diff(res, exp, allowed)
    out.update(kind="diff" if d else "agree", detail=d or "")
    return out


def _coords_of(gx, v, depth=0):
    if depth > 6:
        return
    if isinstance(v, gx.Coord):
        yield (v.file, v.line, v.column)
    elif isinstance(v, gx.c_ast.Node):
        c = getattr(v, "coord", None)
        if isinstance(c, gx.Coord):
            yield (c.file, c.line, c.column)
        if not isinstance(v, gx.Opaque):
            for s in type(v).__slots__:
                if s not in ("coord", "__weakref__"):
                    yield from _coords_of(gx, getattr(v, s), depth + 1)
    elif isinstance(v, (list, tuple)):
        for x in v:
            yield from _coords_of(gx, x, depth + 1)
    elif isinstance(v, dict):
        for x in v.values():
            yield from _coords_of(gx, x, depth + 1)


# --------------------------------------------------------------------------------------
# entry points
# --------------------------------------------------------------------------------------
def replay_data(gx, idx, pidx, depth, run) -> Optional[dict]:
    """Serialisable description of the run's form, or None when it has no concrete rendering."""
    if any(isinstance(x, GXM.Mark) and x.variant for x in GXM._walk(run.root)):
        return None
    if concretise(gx, run.root) is None:
        return None
    return dict(idx=idx, pidx=pidx, depth=depth, tree=tree_to_data(gx, run.root), follow=[f for f in (run.follow_used or ()) if f])


def completions(gx, tree, limit=8):
    """The shortest completion of the form, then completions that differ from it in the production chosen for one marker."""
    base = concretise(gx, tree)
    if base is not None:
        yield base
    # the same shortest completion with rotated spellings (stable: salted with the form itself)
    salt = json.dumps(tree_to_data(gx, tree))
    rot = concretise(gx, tree, None, salt)
    if rot is not None:
        yield rot
    marks = [x for x in GXM._walk(tree) if isinstance(x, GXM.Mark) and x.first != ""]
    n = 0
    for k in (1, 2, 3):
        for m in range(len(marks)):
            if n >= limit:
                return
            if k < len(alternatives(gx, marks[m].nt, marks[m].first)):
                t = concretise(gx, tree, (m, k))
                if t is not None:
                    n += 1
                    yield t


def run_data(gx, data, limit=8) -> Dict[str, Any]:
    """Run the real method on up to `limit` concrete completions of the form.  A completion on which the real code returns an
    AST other than the reference AST decides (kind = diff); a ParseError on a completion only means that this completion is
    semantically invalid (e.g. `void ;`) and the next one is tried."""
    from . import gx_obligations as GO

    method, nt_name, fac = GO.method_cases(gx)[data["idx"]]
    p = gx.g.nts[nt_name].prods[data["pidx"]]
    gx.scope_depth = data.get("depth", 1)
    if data.get("long"):
        flat, shape = gx.g.expand_rhs(p.rhs, maxrep=data["reps"])[data["k"]]
        root = concretise(gx, gx.instantiate(p, flat, shape, 0), None, f"long/{p.label}/{data['reps']}/{data['k']}")
        args, kwargs = fac(gx, p) if fac else ((), {})
        out = concrete_run(gx, method, nt_name, root, data["follow"], args, kwargs, 1)
        out["method"] = method
        return out
    tree = data_to_tree(gx, data["tree"])
    last = dict(kind="no-concrete-form", detail="")
    agreed = None
    for root in completions(gx, tree, limit):
        args, kwargs = fac(gx, p) if fac else ((), {})
        out = concrete_run(gx, method, nt_name, root, data["follow"], args, kwargs, data.get("depth", 1))
        out["method"] = method
        if data.get("family") == "scope" and out["kind"] in ("agree", "diff"):
            class _OC:
                result = out.get("result")
            want = GO.expected_registrations(gx, method, _OC, list(data["follow"]))
            got = list(out.get("registrations") or [])
            # names of the typedef tokens pre-registered for the run are not registrations of the method
            if sorted(got) != sorted(want):
                out = dict(out, kind="scope-diff", detail=f"the real method (real callees) registered {got}; C scoping requires {want}")
                return out
            out = dict(out, kind="agree")
        if out["kind"] in ("diff", "exception", "scope-diff"):
            return out
        if out["kind"] == "agree" and agreed is None:
            agreed = out
        last = out
    return agreed or last


def script(data) -> str:
    return ("import sys\nsys.path.insert(0, %r)\nfrom pyvc import gx_replay\n"
            "sys.exit(gx_replay.main(%r))\n" % (GXM.core.VERIF, json.dumps(data)))


def main(data_json: str) -> int:
    from . import gx_obligations as GO

    gx = GO.get_gx()
    out = run_data(gx, json.loads(data_json))
    print("method under test (real code, real callees, real lexer):", out.get("method"))
    print("input text:", repr(out.get("text")))
    print("outcome:", out["kind"], out.get("detail", ""))
    if out["kind"] in ("diff", "parse-error", "exception", "consumption", "scope-diff"):
        print("REPRODUCED")
        return 1
    print("NOT-REPRODUCED")
    return 0
