"""Statements, loops (invariant cuts), exits (ensures + frame) and the function driver."""
from __future__ import annotations

import ast
import time
from typing import Any, Dict, List, Optional, Tuple

import z3

from . import core, smt
from .smt import (
    B, CLASSES, CONTRACTS, Contract, EngineError, FRESH, I, PSeq, S, SV, Schema, SeqV, VC, VBool, VInt, VNone,
    VRef, VStr, Val, bval, cls_of, fresh, is_bool, is_int, is_none, is_ref, is_str, ival,
    lookup_field_type, mk_bool, mk_int, mk_none, mk_py, mk_ref, mk_seq, mk_str, mk_tuple, rval, sval,
)
from .smt_exec import Fork, Raised, State, has_effect_call
from .smt_run import FuncVerifier, RaisedOut

NORMAL, RETURN, BREAK, CONTINUE, RAISE = "normal", "return", "break", "continue", "raise"
FEAS_TIMEOUT_MS = 3000


class Engine(FuncVerifier):
    def __init__(self, *a, **kw):
        super().__init__(*a, **kw)
        self.callees = set()
        self.solver_time = 0.0
        self.declare_ghosts()
        self.catch_stack: List[Tuple[str, ...]] = []

    # ---------------------------------------------------------------- feasibility
    def feasible(self, st: State, extra=None) -> bool:
        s = z3.Solver()
        s.set("timeout", FEAS_TIMEOUT_MS)
        for h in st.pc:
            s.add(h)
        for h in smt.instantiate(st.schemas, st.idx.values()):
            s.add(h)
        if extra is not None:
            s.add(extra)
        t0 = time.time()
        r = s.check()
        self.solver_time += time.time() - t0
        return r != z3.unsat

    # ---------------------------------------------------------------- fork handling
    def with_forks(self, st0: State, fn, decisions=None) -> List[Tuple[State, Any]]:
        st = st0.clone()
        st.decisions = dict(decisions or {})
        st._catch = tuple(x for c in self.catch_stack for x in c)
        mark = len(self.vcs)
        cmark = FRESH.n
        try:
            r = fn(st)
            st.decisions = {}
            return [(st, r)]
        except Raised as e:
            st.decisions = {}
            return [(st, RaisedOut(e.exc))]
        except Fork as f:
            del self.vcs[mark:]
            outs = []
            for val in (True, False):
                FRESH.n = cmark
                d = dict(decisions or {})
                d[f.key] = val
                outs += self._retry(st0, fn, d, f.key, val)
            return outs

    def _retry(self, st0, fn, decisions, key, val):
        # re-run from the pre-statement state; the decided condition is assumed when reached again
        self._pending = getattr(self, "_pending", {})
        st = st0.clone()
        st.decisions = dict(decisions)
        st._catch = tuple(x for c in self.catch_stack for x in c)
        st._assume_on_decide = True
        mark = len(self.vcs)
        cmark = FRESH.n
        try:
            r = fn(st)
        except Raised as e:
            st.decisions = {}
            return [(st, RaisedOut(e.exc))] if self.feasible(st) else []
        except Fork as f:
            del self.vcs[mark:]
            outs = []
            for v2 in (True, False):
                FRESH.n = cmark
                d = dict(decisions)
                d[f.key] = v2
                outs += self._retry(st0, fn, d, f.key, v2)
            return outs
        st.decisions = {}
        if not self.feasible(st):
            del self.vcs[mark:]
            return []
        return [(st, r)]

    def _decide_key(self, st, key, cond) -> bool:
        if key in st.decisions:
            d = st.decisions[key]
            st.pc.append(cond if d else z3.Not(cond))
            return d
        raise Fork(key, cond)

    def decide(self, st, node, cond) -> bool:
        return self._decide_key(st, ("n", id(node)), cond)

    # ================================================================ statements
    def exec_block(self, stmts: List[ast.stmt], st: State) -> List[Tuple[str, State, Any]]:
        outs: List[Tuple[str, State, Any]] = []
        cur = [st]
        for s in stmts:
            nxt = []
            for c in cur:
                for kind, s2, val in self.exec_stmt(s, c):
                    if kind == NORMAL:
                        nxt.append(s2)
                    else:
                        outs.append((kind, s2, val))
            cur = nxt
            if not cur:
                break
        outs += [(NORMAL, c, None) for c in cur]
        return outs

    def exec_stmt(self, s: ast.stmt, st: State) -> List[Tuple[str, State, Any]]:
        m = getattr(self, "st_" + type(s).__name__, None)
        if m is None:
            raise EngineError(f"statement {type(s).__name__} at line {s.lineno}")
        return m(s, st)

    def simple(self, st: State, fn) -> List[Tuple[str, State, Any]]:
        outs = []
        for st2, r in self.with_forks(st, fn):
            if isinstance(r, RaisedOut):
                outs.append((RAISE, st2, r.exc))
            else:
                outs.append((NORMAL, st2, None))
        return outs

    def st_Pass(self, s, st):
        return [(NORMAL, st, None)]

    def st_Expr(self, s, st):
        if isinstance(s.value, ast.Constant):
            return [(NORMAL, st, None)]
        if isinstance(s.value, ast.Yield):
            def go(x):
                v = self.ev(s.value.value, x) if s.value.value is not None else mk_none()
                x.locals["__yield"] = mk_seq(x.locals["__yield"].items.append(self.to_val(x, v)))
            return self.simple(st, go)
        return self.simple(st, lambda x: self.ev(s.value, x))

    def st_Assign(self, s, st):
        def go(x):
            v = self.ev(s.value, x)
            for t in s.targets:
                self.assign(x, t, v, s)
        return self.simple(st, go)

    def st_AnnAssign(self, s, st):
        if s.value is None:
            return [(NORMAL, st, None)]
        def go(x):
            self.assign(x, s.target, self.ev(s.value, x), s)
        return self.simple(st, go)

    def st_AugAssign(self, s, st):
        def go(x):
            load = ast.copy_location(ast.BinOp(left=self._as_load(s.target), op=s.op, right=s.value), s)
            ast.fix_missing_locations(load)
            self.assign(x, s.target, self.ev(load, x), s)
        return self.simple(st, go)

    @staticmethod
    def _as_load(t):
        import copy

        t2 = copy.deepcopy(t)
        for n in ast.walk(t2):
            if hasattr(n, "ctx"):
                n.ctx = ast.Load()
        return t2

    def assign(self, st: State, target, v: SV, node):
        if isinstance(target, ast.Name):
            fr = st
            # nonlocal assignment inside a closure frame
            if target.id in getattr(st, "_nonlocals", ()):
                fr = st.parent
                while fr is not None and target.id not in fr.locals:
                    fr = fr.parent
                if fr is None:
                    raise EngineError(f"nonlocal {target.id} unbound")
            fr.locals[target.id] = v
            return
        if isinstance(target, ast.Attribute):
            obj = self.ev(target.value, st)
            if obj.kind != "ref":
                self.need_kind(st, obj, "ref", node, "AttributeError")
            cn = self.static_class(obj)
            if cn is None:
                r = rval(obj.v)
                ok = z3.Or([cls_of(r) == CLASSES.ids[c] for c in self.classes_with_attr(target.attr)] or [z3.BoolVal(False)])
                self.oblige(st, ok, "rte-AttributeError", node, "store-" + target.attr)
                st.assume(ok)
            self.store_field(st, obj, target.attr, v, node)
            return
        if isinstance(target, (ast.Tuple, ast.List)):
            if v.kind == "tuple":
                if len(v.items) != len(target.elts):
                    raise EngineError("tuple unpack arity")
                for t, x in zip(target.elts, v.items):
                    self.assign(st, t, x, node)
                return
            if v.kind == "ref" and v.ty and v.ty[0] in ("tuple", "list"):
                seq = st.heap.lseq(rval(v.v))
                self.oblige(st, seq.n == len(target.elts), "rte-ValueError", node, "unpack")
                st.assume(seq.n == len(target.elts))
                for k, t in enumerate(target.elts):
                    ety = v.ty[1][k] if v.ty[0] == "tuple" else v.ty[1]
                    st.ld_elem(rval(v.v), z3.IntVal(k))
                    self.assign(st, t, self.assume_type(st, seq.at(k), ety), node)
                return
            raise EngineError(f"unpack of {v} at line {node.lineno}")
        if isinstance(target, ast.Subscript):
            base = self.ev(target.value, st)
            if isinstance(target.slice, ast.Slice):
                raise EngineError("slice assignment")
            idx = self.ev(target.slice, st)
            r = st.regref(rval(base.v))
            if base.kind == "ref" and base.ty and base.ty[0] == "dict":
                self.need_kind(st, idx, "str", node)
                k = sval(idx.v)
                t = self.to_val(st, v)
                self.check_elem(st, t, base.ty[1], node)
                st.heap.DK = z3.Store(st.heap.DK, r, z3.Store(st.heap.DK[r], k, True))
                st.heap.DV = z3.Store(st.heap.DV, r, z3.Store(st.heap.DV[r], k, t))
                return
            if base.kind == "ref" and base.ty and base.ty[0] == "list":
                self.need_kind(st, idx, "int", node)
                seq = st.heap.lseq(r)
                n = seq.n
                i = self.norm_index(ival(idx.v), n)
                self.oblige(st, z3.And(i >= 0, i < n), "rte-IndexError", node, "store")
                st.assume(z3.And(i >= 0, i < n))
                t = self.to_val(st, v)
                self.check_elem(st, t, base.ty[1], node)
                st.reg(i)
                st.heap.set_lseq(r, seq.set_at(i, t))
                return
            raise EngineError(f"subscript store on {base} at line {node.lineno}")
        raise EngineError(f"assignment target {type(target).__name__}")

    def st_Delete(self, s, st):
        def go(x):
            for t in s.targets:
                if isinstance(t, ast.Subscript) and not isinstance(t.slice, ast.Slice):
                    base = self.ev(t.value, x)
                    idx = self.ev(t.slice, x)
                    if base.kind == "ref" and base.ty and base.ty[0] == "list":
                        r = x.regref(rval(base.v))
                        seq = x.heap.lseq(r)
                        n = seq.n
                        i = self.norm_index(ival(idx.v), n)
                        self.oblige(x, z3.And(i >= 0, i < n), "rte-IndexError", s, "del")
                        x.assume(z3.And(i >= 0, i < n))
                        if z3.is_true(z3.simplify(i == n - 1)):
                            x.heap.set_lseq(r, PSeq(seq.arr, n - 1))
                        else:
                            left = self.seq_slice(x, seq, z3.IntVal(0), i)
                            right = self.seq_slice(x, seq, i + 1, n - i - 1)
                            x.heap.set_lseq(r, self.seq_concat(x, left, right))
                        continue
                if isinstance(t, ast.Subscript) and isinstance(t.slice, ast.Slice) and t.slice.step is None:
                    base = self.ev(t.value, x)
                    if base.kind == "ref" and base.ty and base.ty[0] == "list":
                        r = x.regref(rval(base.v))
                        seq = x.heap.lseq(r)
                        n = seq.n

                        def clamp(v):
                            return z3.If(v < 0, 0, z3.If(v > n, n, v))
                        lo = clamp(self.norm_index(ival(self.ev(t.slice.lower, x).v), n)) if t.slice.lower is not None else z3.IntVal(0)
                        hi = clamp(self.norm_index(ival(self.ev(t.slice.upper, x).v), n)) if t.slice.upper is not None else n
                        cut = z3.If(hi > lo, hi - lo, 0)
                        left = self.seq_slice(x, seq, z3.IntVal(0), lo)
                        right = self.seq_slice(x, seq, lo + cut, n - lo - cut)
                        x.heap.set_lseq(r, self.seq_concat(x, left, right))
                        continue
                raise EngineError("del of unsupported target")
        return self.simple(st, go)

    def st_Return(self, s, st):
        outs = []
        def go(x):
            return self.ev(s.value, x) if s.value is not None else mk_none()
        for st2, r in self.with_forks(st, go):
            if isinstance(r, RaisedOut):
                outs.append((RAISE, st2, r.exc))
            else:
                outs.append((RETURN, st2, r))
        return outs

    def st_Raise(self, s, st):
        exc = "Exception"
        e = s.exc
        if isinstance(e, ast.Call):
            if len(e.args) == 1 and not e.keywords:
                try:
                    m = self.ev(e.args[0], st)
                    if m.kind == "str":
                        st.locals["exc_msg"] = m
                except (Fork, Raised):
                    pass
            e = e.func
        if isinstance(e, ast.Name):
            exc = e.id
        elif isinstance(e, ast.Attribute):
            exc = e.attr
        return [(RAISE, st, exc)]

    def st_Assert(self, s, st):
        outs = []
        for st2, c in self.cond_paths(st, s.test):
            if c is True:
                outs.append((NORMAL, st2, None))
            elif c is False:
                if "AssertionError" in self.con.raises:
                    outs.append((RAISE, st2, "AssertionError"))
                else:
                    self.oblige(st2, z3.BoolVal(False), "rte-AssertionError", s)
            else:
                outs.append((RAISE, st2, c.exc))
        return outs

    def cond_paths(self, st: State, test) -> List[Tuple[State, Any]]:
        """Evaluate a branch condition; returns [(state, True|False|RaisedOut)] with the condition assumed."""
        outs = []
        for st2, c in self.with_forks(st, lambda x: self.truthy(x, self.ev(test, x), test)):
            if isinstance(c, RaisedOut):
                outs.append((st2, c))
                continue
            sc = z3.simplify(c)
            for val in (True, False):
                if (z3.is_true(sc) and not val) or (z3.is_false(sc) and val):
                    continue
                s3 = st2.clone()
                s3.pc.append(c if val else z3.Not(c))
                if z3.is_true(sc) or z3.is_false(sc) or self.feasible(s3):
                    outs.append((s3, val))
        return outs

    def st_If(self, s, st):
        outs = []
        for st2, c in self.cond_paths(st, s.test):
            if isinstance(c, RaisedOut):
                outs.append((RAISE, st2, c.exc))
            elif c:
                outs += self.exec_block(s.body, st2)
            else:
                outs += self.exec_block(s.orelse, st2) if s.orelse else [(NORMAL, st2, None)]
        return outs

    def st_FunctionDef(self, s, st):
        st.locals[s.name] = SV(None, "closure", None, py=s)
        return [(NORMAL, st, None)]

    def st_Nonlocal(self, s, st):
        st._nonlocals = tuple(getattr(st, "_nonlocals", ())) + tuple(s.names)
        return [(NORMAL, st, None)]

    # ---- match
    def st_Match(self, s, st):
        outs = []
        for st1, subj in self.with_forks(st, lambda x: self.ev(s.subject, x)):
            if isinstance(subj, RaisedOut):
                outs.append((RAISE, st1, subj.exc))
                continue
            pending = [st1]
            for case in s.cases:
                nxt = []
                for p in pending:
                    c, binds = self.pattern(p, case.pattern, subj)
                    # taken
                    t = p.clone()
                    t.pc.append(c)
                    for k, v in binds.items():
                        t.locals[k] = v
                    if case.guard is not None:
                        for t2, g in self.cond_paths(t, case.guard):
                            if g is True:
                                outs += self.exec_block(case.body, t2)
                            elif g is False:
                                nxt.append(t2)  # guard failed: falls to next case (pattern cond stays assumed)
                            else:
                                outs.append((RAISE, t2, g.exc))
                    elif z3.is_false(z3.simplify(c)) or not self.feasible(t):
                        pass
                    else:
                        outs += self.exec_block(case.body, t)
                    n = p.clone()
                    n.pc.append(z3.Not(c))
                    if not z3.is_true(z3.simplify(c)) and self.feasible(n):
                        nxt.append(n)
                pending = nxt
            outs += [(NORMAL, p, None) for p in pending]
        return outs

    def pattern(self, st, pat, subj: SV):
        if isinstance(pat, ast.MatchValue):
            return self.equal(st, subj, self.ev(pat.value, st), False), {}
        if isinstance(pat, ast.MatchSingleton):
            return self.equal(st, subj, self.from_py(pat.value), True), {}
        if isinstance(pat, ast.MatchOr):
            cs = [self.pattern(st, p, subj)[0] for p in pat.patterns]
            return z3.Or(cs), {}
        if isinstance(pat, ast.MatchAs):
            if pat.pattern is None:
                return z3.BoolVal(True), ({pat.name: subj} if pat.name else {})
            c, b = self.pattern(st, pat.pattern, subj)
            if pat.name:
                b[pat.name] = subj
            return c, b
        if isinstance(pat, ast.MatchClass) and not pat.patterns and not pat.kwd_patterns:
            return self.inst_pred(st, subj, self.ev(pat.cls, st)), {}
        raise EngineError(f"match pattern {type(pat).__name__}")

    # ---- try / except (only around primitives)
    def st_Try(self, s, st):
        if s.finalbody or s.orelse:
            raise EngineError("try/finally/else")
        names = []
        for h in s.handlers:
            if h.type is None or not isinstance(h.type, ast.Name) or h.name:
                raise EngineError("except clause form")
            names.append(h.type.id)
        self.catch_stack.append(tuple(names))
        try:
            body = self.exec_block(s.body, st)
        finally:
            self.catch_stack.pop()
        outs = []
        for kind, s2, val in body:
            if kind == RAISE and val in names:
                h = s.handlers[names.index(val)]
                outs += self.exec_block(h.body, s2)
            else:
                outs.append((kind, s2, val))
        return outs

    # ================================================================ loops
    def loop_contract(self, node) -> dict:
        if id(node) not in self.loop_ordinals:
            raise EngineError(f"loop at line {getattr(node, 'lineno', '?')} of an inlined helper has no invariant (helpers without a contract are inlined)")
        k = self.loop_ordinals[id(node)]
        lc = self.con.loops.get(k)
        if lc is None:
            raise EngineError(f"loop #{k} of {self.con.name} (line {node.lineno}) has no invariant")
        return lc

    def assigned_names(self, body: List[ast.stmt]) -> List[str]:
        out = []
        if any(isinstance(n, ast.Yield) for st in body for n in ast.walk(st)):
            out.append("__yield")
        for st in body:
            for n in ast.walk(st):
                if isinstance(n, ast.Name) and isinstance(n.ctx, ast.Store) and n.id not in out:
                    out.append(n.id)
        return out

    def loop_frame(self, node, lc, st: State):
        """Havoc what the loop body may modify."""
        body = node.body
        a2 = fresh("A", I)
        st.pc.append(a2 >= st.heap.A)
        st.heap.A = a2
        for name in self.assigned_names(body):
            cur = self.lookup_name(name, st)
            if cur is None:
                continue
            nv = fresh("lv!" + name, Val)
            if cur.kind == "tuple":
                raise EngineError("loop modifies a tuple-valued local")
            if cur.kind == "seq":
                fr = st
                while fr is not None and name not in fr.locals:
                    fr = fr.parent
                nn = fresh("lvn!" + name, I)
                st.pc.append(nn >= 0)
                fr.locals[name] = mk_seq(PSeq(fresh("lv!" + name, smt.ArrV), nn))
                continue
            ty = lc.get("types", {}).get(name)
            ty = smt.parse_ty(ty) if ty else cur.ty
            fr = st
            while fr is not None and name not in fr.locals:
                fr = fr.parent
            fr.locals[name] = self.assume_type(st, nv, ty)
        mods = lc.get("modifies")
        if mods is None:
            mods = self.scan_effects(body)
        ctx = self.spec_view(st, dict(self._all_locals(st)), None)
        for loc in mods:
            self.havoc_loc(st, loc, ctx)
        st.snap()
        # callbacks made by earlier iterations: an unknown number
        for nm in [k for k, c in smt.CONTRACTS.items() if k.startswith("cb.") or "logged" in c.props]:
            n0 = len([x for x in st.calllog if x[0] == nm])
            cur = (st.callbase[nm] + n0) if nm in st.callbase else z3.IntVal(n0)
            c = fresh("ncalls", I)
            st.pc.append(c >= cur)  # counters only grow
            st.callbase[nm] = c
        st.calllog = []

    def _all_locals(self, st):
        chain = []
        s = st
        while s is not None:
            chain.append(s.locals)
            s = s.parent
        out = {}
        for d in reversed(chain):
            out.update(d)
        return out

    def scan_effects(self, body) -> List[str]:
        locs = []
        for st in body:
            for n in ast.walk(st):
                tgt = None
                if isinstance(n, (ast.Assign,)):
                    for t in n.targets:
                        if isinstance(t, ast.Attribute):
                            tgt = t
                elif isinstance(n, ast.AugAssign) and isinstance(n.target, ast.Attribute):
                    tgt = n.target
                if tgt is not None:
                    if isinstance(tgt.value, ast.Name):
                        locs.append(ast.unparse(tgt))
                    else:
                        locs.append("field:" + tgt.attr)
                if isinstance(n, ast.Call) and isinstance(n.func, ast.Attribute):
                    if n.func.attr in ("append", "extend", "insert", "pop"):
                        if isinstance(n.func.value, ast.Name):
                            locs.append(f"elems({n.func.value.id})")
                        else:
                            locs.append("lists:*")
                    elif isinstance(n.func.value, ast.Name) and n.func.value.id == "self":
                        q = self._method_qual(n.func.attr)
                        if q and q in CONTRACTS:
                            for m in CONTRACTS[q].modifies:
                                locs.append(m)
                        elif q:
                            raise EngineError(f"loop calls {q} without contract")
        out = []
        for l in locs:
            if l not in out:
                out.append(l)
        return out

    def _method_qual(self, name) -> Optional[str]:
        if self.cls_name is None:
            return None
        pc = CLASSES.pyclass.get(self.cls_name)
        if pc is None or not hasattr(pc, name):
            return None
        return self.method_owner(self.cls_name, name) + "." + name

    def inv_formulas(self, lc, st: State, mode, ghost) -> List[Any]:
        out = []
        view = self.spec_view(st, self._all_locals(st), self.entry, ghost)
        for clause in lc.get("inv", []):
            out.append((clause, self.formulas(clause, view, mode)))
        return out

    def run_loop(self, node, st: State, lc, ghost_of, guard_paths, pre_body=None):
        """Generic invariant cut.  ghost_of(state)->ghost dict; guard_paths(state)->[(state, True/False/RaisedOut)]."""
        outs = []
        # 1. invariant holds on entry
        for clause, fs in self.inv_formulas(lc, st, "assert", ghost_of(st)):
            for f in fs:
                self.oblige(st, f, "inv-entry", node, self._lab(lc, clause))
        # 2. arbitrary iteration
        h = st.clone()
        self.loop_frame(node, lc, h)
        h = self.post_havoc(h)
        for clause, fs in self.inv_formulas(lc, h, "assume", ghost_of(h)):
            for f in fs:
                self.add_hyp(h, f)
        if not self.feasible(h):
            raise EngineError(f"loop invariant of {self.con.name} loop at line {node.lineno} is unsatisfiable (vacuous)")
        dec0 = None
        if lc.get("dec"):
            view = self.spec_view(h, self._all_locals(h), self.entry, ghost_of(h))
            dec0 = ival(self.ev(ast.parse(lc["dec"], mode="eval").body, view).v)
        for g_st, g in guard_paths(h):
            if isinstance(g, RaisedOut):
                outs.append((RAISE, g_st, g.exc))
                continue
            if g is False:
                outs.append((NORMAL, g_st, None))
                continue
            if dec0 is not None:
                self.oblige(g_st, dec0 >= 0, "dec-bounded", node)
            b_st = g_st
            if pre_body is not None:
                pre_body(b_st)
            for kind, e_st, val in self.exec_block(node.body, b_st):
                if kind in (NORMAL, CONTINUE):
                    e_st = self.end_iter(e_st)
                    for clause, fs in self.inv_formulas(lc, e_st, "assert", ghost_of(e_st)):
                        for f in fs:
                            self.oblige(e_st, f, "inv-preserved", node, self._lab(lc, clause))
                    if dec0 is not None:
                        view = self.spec_view(e_st, self._all_locals(e_st), self.entry, ghost_of(e_st))
                        d1 = ival(self.ev(ast.parse(lc["dec"], mode="eval").body, view).v)
                        self.oblige(e_st, d1 < dec0, "dec-decreases", node)
                elif kind == BREAK:
                    outs.append((NORMAL, e_st, None))
                else:
                    outs.append((kind, e_st, val))
        return outs

    def post_havoc(self, st):
        return st

    def end_iter(self, st):
        return st

    @staticmethod
    def _lab(lc, clause):
        labs = lc.get("labels", {})
        if clause in labs:
            return labs[clause]
        return "i%d" % (lc.get("inv", []).index(clause))

    def st_While(self, s, st):
        if s.orelse:
            raise EngineError("while/else")
        lc = self.loop_contract(s)
        infinite = isinstance(s.test, ast.Constant) and s.test.value is True

        def guards(h):
            if infinite:
                return [(h, True)]
            return self.cond_paths(h, s.test)

        return self.run_loop(s, st, lc, lambda x: {}, guards)

    def st_For(self, s, st):
        if s.orelse:
            raise EngineError("for/else")
        outs = []
        for st1, it in self.with_forks(st, lambda x: self.iter_view(x, s.iter, s)):
            if isinstance(it, RaisedOut):
                outs.append((RAISE, st1, it.exc))
                continue
            n, elem_at, static_items = it
            if static_items is not None and self.loop_ordinals.get(id(s), -1) not in self.con.loops:
                # statically known length: unroll completely
                cur = [st1]
                for item in static_items:
                    nxt = []
                    for c in cur:
                        self.assign(c, s.target, item, s)
                        for kind, e, val in self.exec_block(s.body, c):
                            if kind in (NORMAL, CONTINUE):
                                nxt.append(e)
                            elif kind == BREAK:
                                outs.append((NORMAL, e, None))
                            else:
                                outs.append((kind, e, val))
                    cur = nxt
                outs += [(NORMAL, c, None) for c in cur]
                continue
            lc = self.loop_contract(s)
            ivar = f"__i{self.loop_ordinals.get(id(s), 'x')}"
            st1.locals[ivar] = mk_int(0)
            st1.pc.append(n >= 0)

            def ghost_of(x, ivar=ivar, n=n):
                return {"_i": x.locals[ivar], "_n": mk_int(n)}

            def guards(h, ivar=ivar, n=n):
                i = ival(h.locals[ivar].v)
                h.pc.append(z3.And(i >= 0, i <= n))
                res = []
                for val in (True, False):
                    h2 = h.clone()
                    h2.pc.append(i < n if val else i >= n)
                    if self.feasible(h2):
                        res.append((h2, val))
                return res

            def pre_body(b, ivar=ivar, elem_at=elem_at):
                i = ival(b.locals[ivar].v)
                b.reg(i)
                self.assign(b, s.target, elem_at(b, i), s)
                b.locals[ivar + "_cur"] = b.locals[ivar]

            saved_end = self.end_iter

            def end_iter(e, ivar=ivar):
                e.locals[ivar] = mk_int(ival(e.locals[ivar].v) + 1)
                return e

            self.end_iter = end_iter
            old_assigned = self.assigned_names
            self.assigned_names = lambda body, ivar=ivar, f=old_assigned: f(body) + [ivar]
            try:
                outs += self.run_loop(s, st1, lc, ghost_of, guards, pre_body)
            finally:
                self.end_iter = saved_end
                self.assigned_names = old_assigned
        return outs

    def iter_view(self, st, node, loopnode):
        """Returns (length term, elem_at(state, i) -> SV, static item list or None)."""
        if isinstance(node, ast.Call) and isinstance(node.func, ast.Name) and node.func.id in ("reversed", "enumerate") \
                and self.lookup_name(node.func.id, st) is None:
            n, inner, static = self.iter_view(st, node.args[0], loopnode)
            if node.func.id == "reversed":
                return n, (lambda b, i: inner(b, n - 1 - i)), (list(reversed(static)) if static is not None else None)
            return n, (lambda b, i: mk_tuple([mk_int(i), inner(b, i)])), \
                ([mk_tuple([mk_int(k), x]) for k, x in enumerate(static)] if static is not None else None)
        v = self.ev(node, st)
        if v.kind == "tuple":
            return z3.IntVal(len(v.items)), None, list(v.items)
        if v.kind == "py" and isinstance(v.py, (tuple, list)):
            return z3.IntVal(len(v.py)), None, [self.from_py(x) for x in v.py]
        if v.kind == "str":
            s_ = sval(v.v)
            return z3.Length(s_), (lambda b, i: mk_str(z3.SubString(s_, i, 1))), None
        if v.kind == "ref" and v.ty and v.ty[0] == "list":
            seq = st.heap.lseq(st.regref(rval(v.v)))  # snapshot: the list must not change during iteration
            ety = v.ty[1]

            robj = rval(v.v)

            def at(b, i, seq=seq, ety=ety, robj=robj):
                b.reg(i)
                b.ld_elem(robj, i)
                t = seq.at(i)
                x = self.assume_type(b, t, ety)
                b.assume(z3.Implies(is_ref(t), rval(t) < b.heap.A))
                return x
            return seq.n, at, None
        raise EngineError(f"iteration over {v} at line {loopnode.lineno}")

    def st_Break(self, s, st):
        return [(BREAK, st, None)]

    def st_Continue(self, s, st):
        return [(CONTINUE, st, None)]

    # ================================================================ closures
    def inline_closure(self, st, fv: SV, args, kwargs, node, isolated=False) -> SV:
        fn: ast.FunctionDef = fv.py
        frame = State()
        frame.heap, frame.pc, frame.schemas, frame.idx, frame.ctx = st.heap, st.pc, st.schemas, st.idx, st.ctx
        frame.events, frame.loads, frame.calllog, frame.callbase = st.events, st.loads, st.calllog, st.callbase
        frame.parent = None if isolated else st
        frame.old = st.old
        frame.decisions = st.decisions
        frame._catch = getattr(st, "_catch", ())
        names = [a.arg for a in fn.args.args]
        for n, a in zip(names, args):
            frame.locals[n] = a
        for k, v in kwargs.items():
            frame.locals[k] = v
        outs = self.exec_block(fn.body, frame)
        live = [(k, s2, v) for (k, s2, v) in outs]
        if not live:
            raise ClosureFork(fn, args, kwargs, node)
        if len(live) > 1:
            # several outcomes of a call inside an expression: pick one per re-execution of the enclosing statement
            # (decision keys are stable: the body is re-inlined deterministically from the same pre-state)
            pick = None
            for i in range(len(live) - 1):
                sel = z3.Bool(f"inl!{getattr(node, 'lineno', 0)}!{getattr(node, 'col_offset', 0)}!{i}")
                if self._decide_key(st, ("inl", id(node), i), sel):
                    pick = i
                    break
            if pick is None:
                pick = len(live) - 1
            live = [live[pick]]
        kind, s2, val = live[0]
        if kind == RAISE:
            raise Raised(val)
        # propagate state changes (heap object is shared only if no clone happened)
        st.heap, st.pc, st.schemas, st.idx = s2.heap, s2.pc, s2.schemas, s2.idx
        p = s2.parent
        if p is not None and p is not st:
            st.locals.update(p.locals)
        return val if kind == RETURN and val is not None else mk_none()

    def inline_function(self, st, qual: str, args, kwargs, node) -> Optional[SV]:
        """A repository function / method without a contract of its own (typically a helper extracted by a refactoring):
        its body is executed in place, like a closure without access to the caller's locals."""
        depth = getattr(self, "_inline_depth", 0)
        if depth >= 3:
            return None
        src = core.Source.get(self.con.file) if self.con.file else None
        if src is None or not src.has(qual) or qual == (self.con.variant_of or self.con.name):
            return None
        fn = src.func(qual).node
        if fn.args.vararg or fn.args.kwarg or fn.args.kwonlyargs or any(isinstance(n, (ast.Yield, ast.YieldFrom)) for n in ast.walk(fn)):
            return None
        names = [a.arg for a in fn.args.args]
        defaults = fn.args.defaults
        full = list(args)
        kw = dict(kwargs)
        for i in range(len(full), len(names)):
            nm = names[i]
            if nm in kw:
                full.append(kw.pop(nm))
                continue
            di = i - (len(names) - len(defaults))
            if di < 0:
                return None
            full.append(self.ev(defaults[di], st))
        if kw or len(full) != len(names):
            return None
        self._inline_depth = depth + 1
        try:
            fv = SV(None, "closure", None, py=fn)
            saved_parent = st.parent
            return self.inline_closure(st, fv, full, {}, node, isolated=True)
        finally:
            self._inline_depth = depth

    # ================================================================ function driver
    def run(self) -> None:
        con = self.con
        st = State()
        fn = self.node
        params = [a.arg for a in fn.args.args]
        if fn.args.vararg or fn.args.kwarg or fn.args.kwonlyargs:
            raise EngineError("varargs")
        st.pc.append(st.heap.A >= 0)
        for p in params:
            ty = con.params.get(p)
            if ty is None:
                if p == "self" and self.cls_name:
                    ty = ("obj", self.cls_name)
                else:
                    ty = ("any",)
            t = z3.Const(f"p!{p}", Val)
            st.locals[p] = self.assume_type(st, t, ty)
            st.pc.append(z3.Implies(is_ref(t), z3.And(rval(t) >= 0, rval(t) < st.heap.A)))
        st.snap()
        # callbacks made before this activation: an unknown number (absolute counters)
        for nm in [k for k, c in smt.CONTRACTS.items() if k.startswith("cb.") or "logged" in c.props]:
            c0 = fresh("ncalls0", I)
            st.pc.append(c0 >= 0)
            st.callbase[nm] = c0
        self.entry = self.snapshot(st, st.locals)
        view = self.spec_view(st, st.locals, None)
        for clause in con.requires:
            for f in self.formulas(clause, view, "assume"):
                self.add_hyp(st, f)
        for ax in con.axioms:
            for f in self.formulas(ax, view, "assume"):
                self.add_hyp(st, f)
        if not self.feasible(st):
            raise EngineError(f"precondition of {con.name} is unsatisfiable (vacuous contract)")
        self.entry = self.snapshot(st, st.locals)
        self.is_generator = any(isinstance(n, (ast.Yield, ast.YieldFrom)) for n in ast.walk(fn))
        if self.is_generator:
            st.locals["__yield"] = mk_seq(PSeq.empty())
        body = fn.body
        if con.body_slice is not None:
            body = [b for b in body if not (isinstance(b, ast.Expr) and isinstance(b.value, ast.Constant))]
            body = body[con.body_slice[0]:con.body_slice[1]]
        outs = self.exec_block(body, st)
        for kind, s2, val in outs:
            if kind == NORMAL:
                kind, val = RETURN, mk_none()
            if kind == RETURN:
                self.n_paths += 1
                if self.is_generator:
                    val = s2.locals["__yield"]
                self.check_exit(s2, val)
            elif kind == RAISE:
                if val not in con.raises and "*" not in con.raises:
                    self.oblige(s2, z3.BoolVal(False), "raises", None, val)
                else:
                    self.check_exc_exit(s2, val)
            else:
                raise EngineError(f"{kind} outside loop")

    def check_exit(self, st: State, val: SV):
        con = self.con
        if con.returns[0] == "tuple" and val.kind == "tuple":
            for k, (item, ety) in enumerate(zip(val.items, con.returns[1])):
                if ety[0] != "any":
                    self.oblige(st, self.type_pred(st, self.to_val(st, item), ety), "post", None, f"result-type[{k}]")
        elif con.returns[0] != "any":
            self.oblige(st, self.type_pred(st, self.to_val(st, val), con.returns), "post", None, "result-type")
            if val.ty is None or val.kind is None:
                val = SV(self.to_val(st, val), self._kind_of(con.returns), con.returns)
        if con.calls is not None:
            want = con.calls
            got = st.calllog
            ok = all(st.callbase.get(k) is self.entry.callbase.get(k) for k in st.callbase) and len(got) == len(want) and \
                all(g[0] == w[0] for g, w in zip(got, want))
            self.oblige(st, z3.BoolVal(ok), "post", None, "callback-calls")
            if ok:
                ev0 = self.spec_view(self.entry, dict(self.entry.locals), None)
                ev0.pc, ev0.schemas, ev0.idx, ev0.ctx = st.pc, st.schemas, st.idx, st.ctx
                for k, (g, w) in enumerate(zip(got, want)):
                    for j, e in enumerate(w[1]):
                        exp = self.ev(ast.parse(e, mode="eval").body, ev0)
                        self.oblige(st, self.to_val(st, g[1][j]) == self.to_val(st, exp), "post", None, f"callback-arg[{k}][{j}]")
        view = self.spec_view(st, dict(self.entry.locals, result=val), self.entry)
        for k, clause in enumerate(con.ensures):
            for f in self.formulas(clause, view, "assert"):
                self.oblige(st, f, "post", None, con.labels.get(clause, str(k)))
        self.check_frame(st)

    def check_exc_exit(self, st: State, exc: str):
        loc = dict(self.entry.locals)
        if "exc_msg" in st.locals:
            loc["exc_msg"] = st.locals["exc_msg"]
        view = self.spec_view(st, loc, self.entry)
        for k, clause in enumerate(self.con.ensures_exc.get(exc, [])):
            for f in self.formulas(clause, view, "assert"):
                self.oblige(st, f, "post-exc", None, f"{exc}:{k}")

    def check_frame(self, st: State):
        """modifies clause: every location not listed keeps its entry value (for pre-existing objects)."""
        con = self.con
        e = self.entry
        decl_fields: Dict[str, List[Any]] = {}
        whole = set()
        decl_lists: List[Any] = []
        decl_dicts: List[Any] = []
        all_lists = all_dicts = False
        ctx = self.spec_view(e, dict(e.locals), None)
        ctx.heap = e.heap
        ctx.pc, ctx.idx, ctx.schemas, ctx.ctx = [], {}, [], []
        for loc in con.modifies:
            loc = loc.strip()
            if loc == "fresh":
                continue
            if loc.startswith("field:"):
                whole.add(loc[6:])
                continue
            if loc == "lists:*":
                all_lists = True
                continue
            if loc == "dicts:*":
                all_dicts = True
                continue
            ex = ast.parse(loc, mode="eval").body
            if isinstance(ex, ast.Call) and ex.func.id == "elems":
                decl_lists.append(rval(self.ev(ex.args[0], ctx).v))
            elif isinstance(ex, ast.Call) and ex.func.id == "items":
                decl_dicts.append(rval(self.ev(ex.args[0], ctx).v))
            elif isinstance(ex, ast.Call) and ex.func.id == "fields":
                o = rval(self.ev(ex.args[0], ctx).v)
                for a in ex.args[1:]:
                    decl_fields.setdefault(a.id if isinstance(a, ast.Name) else a.value, []).append(o)
            elif isinstance(ex, ast.Attribute):
                decl_fields.setdefault(ex.attr, []).append(rval(self.ev(ex.value, ctx).v))
            else:
                raise EngineError(f"modifies clause {loc!r}")
        side = list(ctx.pc)
        r0 = fresh("fr", I)
        base = [r0 >= 0, r0 < e.heap.A] + side
        for f, arr in st.heap.fields.items():
            if f in whole:
                continue
            old = e.heap.fields.get(f)
            if old is None or old.eq(arr):
                continue
            hyp = base + [r0 != o for o in decl_fields.get(f, [])]
            self.oblige(st, z3.Implies(z3.And(hyp), arr[r0] == old[r0]), "frame", None, f"field-{f}")
        if not all_lists and not (st.heap.LA.eq(e.heap.LA) and st.heap.LN.eq(e.heap.LN)):
            hyp = base + [r0 != o for o in decl_lists]
            k0 = fresh("fk", I)
            same_elems = z3.Implies(z3.And(k0 >= 0, k0 < e.heap.LN[r0]), st.heap.LA[r0][k0] == e.heap.LA[r0][k0])
            self.oblige(st, z3.Implies(z3.And(hyp), z3.And(st.heap.LN[r0] == e.heap.LN[r0], same_elems)),
                        "frame", None, "lists")
        if not all_dicts and (not st.heap.DK.eq(e.heap.DK) or not st.heap.DV.eq(e.heap.DV)):
            hyp = base + [r0 != o for o in decl_dicts]
            self.oblige(st, z3.Implies(z3.And(hyp), z3.And(st.heap.DK[r0] == e.heap.DK[r0], st.heap.DV[r0] == e.heap.DV[r0])),
                        "frame", None, "dicts")


class ClosureFork(EngineError):
    def __init__(self, *a):
        super().__init__("closure with several outcomes must be called at statement level")
        self.info = a


# --------------------------------------------------------------------------------------
# running a set of contracts
# --------------------------------------------------------------------------------------
def _solve_one(args):
    idx, timeout = args
    vc = _VCS[idx]
    try:
        return smt.solve_vc(vc, timeout)[:2] + (None,) + (smt.solve_vc.__defaults__ and 0.0,)
    except Exception as e:  # pragma: no cover
        return (core.UNDECIDED, f"solver error {e!r}", None, 0.0)


_VCS: List[VC] = []


CROSSCHECK = True   # proved contracts are also evaluated at run time on the corpus (bounded cross-check)


def verify_function(qual: str, prefix: str, timeout_ms: int = 10000):
    """Generate and discharge the VCs of one function.  Returns (list[Ob], FuncInfo|None, Engine|None)."""
    con = CONTRACTS[qual]
    src = core.Source.get(con.file)
    t0 = time.time()
    cname = qual
    qual = con.variant_of or qual
    if not src.has(qual):
        return [core.Ob(f"{prefix}/{qual}/bind", core.UNDECIDED, "z3", 0.0,
                        f"function {qual} not found in {con.file} (contract unbound)", functions=[qual])], None, None
    finfo = src.func(qual)
    modname = con.file[:-3].replace("/", ".")
    pymod = core.repo_import(modname)
    cls_name = qual.split(".")[0] if "." in qual else None
    if cls_name and cls_name not in CLASSES.ids:
        cls_name = None
    qual = cname
    eng = Engine(con, finfo, pymod, prefix, cls_name)
    try:
        eng.run()
    except EngineError as e:
        # the function has left the subset the engine translates: fall back to evaluating its contract at run time on the
        # real function over a fixed corpus (BOUNDED stand-in, pyvc/rtcheck.py); a clause found false is a real counterexample
        try:
            from . import rtcheck
            rt = rtcheck.runtime_check(con, qual, prefix, str(e))
        except Exception as e2:  # the fallback itself failed: undecided as before
            rt = []
            e = EngineError(f"{e} (run-time fallback failed: {type(e2).__name__}: {e2})")
        if rt:
            return rt, finfo, eng
        return [core.Ob(f"{prefix}/{qual}/translate", core.UNDECIDED, "z3", time.time() - t0,
                        f"outside the supported subset or unbound contract: {e}", functions=[qual])], finfo, eng
    obs = []
    if eng.n_paths == 0 and "noreturn" not in con.props:
        obs.append(core.Ob(f"{prefix}/{qual}/cover", core.UNDECIDED, "z3", 0.0,
                           "no feasible path reaches a normal exit (vacuity check)", functions=[qual]))
    # VCs of the same name (same obligation on several paths) form one obligation
    groups: Dict[str, dict] = {}
    for vc, st_, det, dt in smt.solve_all(eng.vcs, timeout_ms):
        g = groups.setdefault(vc.name, dict(status=core.DISCHARGED, details=[], t=0.0, n=0))
        g["n"] += 1
        g["t"] += dt
        if st_ == core.REFUTED and g["status"] != core.REFUTED:
            g["status"] = core.REFUTED
            g["details"] = [f"line {vc.lineno}: {det}"]
        elif st_ == core.UNDECIDED and g["status"] == core.DISCHARGED:
            g["status"] = core.UNDECIDED
            g["details"].append(f"line {vc.lineno}: {det}")
    refuted_names = [n for n, g in groups.items() if g["status"] == core.REFUTED]
    if refuted_names and getattr(eng, "unmodelled", None):
        # a counter-model over uninterpreted library functions (str.lstrip, str.join, ...) is not a counterexample: decide the
        # function by evaluating its contract at run time instead (bounded); only a clause found false there is a violation
        why = f"the VCs of {qual} mention unmodelled library functions {sorted(eng.unmodelled)}; z3 models over them are not verdicts"
        try:
            from . import rtcheck
            rt = rtcheck.runtime_check(con, qual, prefix, why)
        except Exception:
            rt = []
        if rt:
            return rt, finfo, eng
        for n in refuted_names:
            groups[n]["status"] = core.UNDECIDED
            groups[n]["details"] = [why] + groups[n]["details"]
    bounded_names = set()
    undecided_names = [n for n, g in groups.items() if g["status"] == core.UNDECIDED]
    if undecided_names and con.file is not None and con.body_slice is None:
        # both solvers gave up on some VC: evaluate the contract at run time (bounded).  A clause found false there is a
        # violation with a concrete call; otherwise the undecided VCs are reported as bounded stand-ins.
        try:
            from . import rtcheck
            rt = rtcheck.runtime_check(con, qual, prefix, "solver gave no answer on " + ", ".join(x.rsplit("/", 2)[-2] + "/" + x.rsplit("/", 1)[-1] for x in undecided_names[:3]))
        except Exception:
            rt = []
        if any(o.status == core.REFUTED for o in rt):
            return rt, finfo, eng
        if rt and all(o.status == core.DISCHARGED for o in rt):
            for n in undecided_names:
                groups[n]["status"] = core.DISCHARGED
                groups[n]["details"] = ["BOUNDED: " + rt[0].detail] + groups[n]["details"]
                bounded_names.add(n)
    for name, g in groups.items():
        obs.append(core.Ob(name, g["status"], "z3" if name not in bounded_names else "runtime", g["t"],
                           "\n".join(g["details"]) or f"{g['n']} path(s): unsat",
                           functions=[qual], sample=f"{g['n']} path VC(s) of {qual}", bounded=name in bounded_names))
        eng.solver_time += g["t"]
    has_assumed_callee = any((CONTRACTS.get(c) is not None and CONTRACTS[c].trusted and
                              c.split("#")[0].split(".")[0] in ("CParser", "CLexer", "_TokenStream", "CGenerator")) for c in eng.callees)
    if (CROSSCHECK == "all" or (CROSSCHECK and has_assumed_callee)) and con.file is not None and con.body_slice is None \
            and all(o.status == core.DISCHARGED for o in obs):
        # thorough tier: CPython cross-check of the encoding -- the proved contract is also evaluated at run time on the real
        # function over the corpus (bounded); a clause that is proved but false at run time means the ENCODING is wrong
        try:
            from . import rtcheck
            rt = rtcheck.runtime_check(con, qual, prefix, "cross-check of a proved contract")
            for o in rt:
                if o.status == core.REFUTED:
                    # proved modularly (callees by contract) and yet false on a concrete call of the real code: a callee under an
                    # ASSUMED contract does not keep it (or the encoding is wrong) -- the concrete call decides
                    o.name = o.name.replace("/runtime-contract/", "/runtime-crosscheck/")
                    o.detail = ("the clause is discharged by the SMT engine relative to the callee contracts, but it is FALSE on a concrete call of the real "
                                "code (an assumed callee contract is broken, or the encoding is wrong):\n" + o.detail)
                    obs.append(o)
                elif o.status == core.DISCHARGED:
                    o.name = f"{prefix}/{qual}/runtime-crosscheck"
                    obs.append(o)
        except Exception:
            pass
    return obs, finfo, eng
