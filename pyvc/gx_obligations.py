"""Obligation families produced by the GX engine (grammar-mode execution of the real parse methods).

For every (method, reference production) pair one obligation per family:
  accept/<method>/<production>   the real body, callees by contract, returns normally having consumed exactly the
                                 production, for every look-ahead the code can distinguish           (C01)
  term/<method>/<production>     the node returned equals the AST the production must yield             (C02/C03/C05)
  coord/<method>/<production>    every coordinate is that of a token consumed / value returned inside   (C11)
  rte/<method>/<production>      no exception other than ParseError escapes                             (C06)
"""
from __future__ import annotations

import multiprocessing as mp
import time
from typing import Any, Dict, List, Optional, Tuple

from . import core
from . import gx as GXM
from . import gx_replay as GR

_GX: Optional[GXM.GX] = None


def get_gx() -> GXM.GX:
    global _GX
    if _GX is None:
        from spec.grammar import make_grammar
        import os as _os

        # (unrolling repetitions 0..3 in the thorough tier was tried: C04 alone then needs ~45 min on a busy machine; the
        # long-repetition native runs and the SMT proof of the operator chain cover the third and fourth iteration instead)
        if _os.environ.get("VERIF_MAXREP"):
            GXM.Grammar.MAXREP = int(_os.environ["VERIF_MAXREP"])
        _GX = GXM.GX(make_grammar)
    return _GX


def method_cases(gx: GXM.GX) -> List[Tuple[str, str, Any]]:
    """(method, nonterminal, args factory) for every method the reference grammar maps."""
    A = gx.c_ast
    cases = []
    variants = getattr(gx.g, "variants", {})
    for name, nt in gx.g.nts.items():
        if not nt.method:
            continue
        if nt.method in variants:
            continue
        cases.append((nt.method, name, None))
    for method, lst in variants.items():
        for nt_name, fac in lst:
            cases.append((method, nt_name, fac))
    return cases


def follows_for(gx, method, nt_name, prod) -> List[tuple]:
    base = nt_name.split("[typedef-name]")[0] if nt_name.endswith("[typedef-name]") else nt_name
    f2 = {t for t in gx.g.follow2[base] if t[0] not in prod.no_follow}
    reps = gx.method_follow_reps(method, f2)
    if not reps or nt_name in getattr(gx.g, "eof_ok", ()):
        reps = reps + [()]
    return reps


BUDGET = {"quick": 8000, "thorough": 150000}
CONCRETE_SAMPLES = {"quick": 40, "thorough": 400}
LIMIT_SAMPLES = {"quick": 60, "thorough": 600}    # forms at the expansion depth limit continued natively (same family)   # completed runs per flat production re-run natively (bounded family `concrete`)
_TIER = "quick"


def _fresh_signature(rec, run) -> bool:
    """Sample forms for the concrete cross-check so that every combination of first tokens chosen for the markers is
    represented once (instead of the first few runs, which differ only in the follow context)."""
    sig = tuple((x.nt, x.first) for x in GXM._walk(run.root) if isinstance(x, GXM.Mark)) + (len(run.toks),)
    seen = rec.setdefault("_sigs", set())
    if sig in seen:
        return False
    seen.add(sig)
    return True


def _max_star(shape) -> int:
    m = 0
    for st in shape if isinstance(shape, list) else []:
        if isinstance(st, list):
            if st and all(isinstance(x, list) for x in st):
                m = max(m, len(st))
            m = max(m, _max_star(st))
            for x in st:
                if isinstance(x, list):
                    m = max(m, _max_star(x))
    return m


def _long_repetitions(gx, idx, pidx, method, nt_name, p, fac, fols, rec):
    """Bounded: the repetitions of the production (comma lists, suffix chains, specifier sequences, block items) unrolled 3 and 4
    times -- beyond the 0..2 of the abstract exploration -- as complete derivations run natively against the reference AST
    (a loop body that carries state from one iteration to the next shows on the third or fourth iteration)."""
    if not any(isinstance(x, (GXM.Star, GXM.Opt)) for x in p.rhs):
        return
    done = 0
    for reps in (3, 4):
        try:
            alts = gx.g.expand_rhs(p.rhs, maxrep=reps)
        except Exception:
            return
        if len(alts) > 20000:
            continue
        cands = [(len(fl), k) for k, (fl, sh) in enumerate(alts) if _max_star(sh) == reps]
        cands.sort()
        for _, k in cands[:3]:
            flat, shape = alts[k]
            root = gx.instantiate(p, flat, shape, 0)
            fol = next((list(f) for f in fols if f), [])

            class _R:
                follow_used = fol
            _R.root = root
            try:
                croot = GR.concretise(gx, root, None, f"long/{p.label}/{reps}/{k}")
                if croot is None:
                    continue
                args, kwargs = fac(gx, p) if fac else ((), {})
                gx.scope_depth = 1
                cr = GR.concrete_run(gx, method, nt_name, croot, fol, args, kwargs, 1)
            except Exception as e:
                rec["notes"].append(f"long-repetition run failed to execute: {type(e).__name__}: {e}")
                continue
            done += 1
            rec["limit_n"] += 1
            if cr["kind"] in ("diff", "exception"):
                rec["concrete"].append((f"{cr['kind']}: {cr['detail']}\nconcrete input ({reps} repetitions): {cr.get('text')!r}", cr.get("text") or "", fol,
                                        dict(long=True, idx=idx, pidx=pidx, reps=reps, k=k, follow=fol)))


def run_case(item, _retry=False) -> dict:
    """One production of one (method, nonterminal): returns plain data (picklable)."""
    gx = get_gx()
    idx, pidx = item
    ckey = f"{_TIER}/{idx}/{pidx}"
    if not _retry:
        hit = core.cache_get("gx", ckey)
        if hit is not None:
            return hit
    method, nt_name, fac = method_cases(gx)[idx]
    nt = gx.g.nts[nt_name]
    out = dict(method=method, nt=nt_name, prods=[], runs=0, time=0.0)
    t0 = time.time()
    if method not in gx.parse_methods:
        out["missing"] = True
        return out
    for p in nt.prods[pidx:pidx + 1]:
        rec = dict(label=p.label, note=p.note, runs=0, ok=0, fails=[], term=[], coord=[], scope=[], cost=[], attrs=[], rescan=[], notes=[], samples=[],
                   concrete=[], concrete_n=0, fresh=[], limit_n=0)
        fols = {id(fs): follows_for(gx, method, nt_name, p) for fs in [p]}[id(p)]
        per = max(600 if _TIER == "quick" else 6000, BUDGET[_TIER] // max(1, len(p.flat) * len(fols))) * (12 if _retry else 1)
        depths = (1, 2) if method in SCOPE_SENSITIVE else (1,)
        per = max(600 if _TIER == "quick" else 6000, BUDGET[_TIER] // max(1, len(p.flat))) * (12 if _retry else 1)
        per *= getattr(p, "budget_x", 1)   # productions whose interesting forms combine two callee result shapes
        for flat, shape in p.flat:
          for depth in depths:
            gx.scope_depth = depth   # file scope / inside a block: registration must not depend on it
            for fol in [None]:
                args, kwargs = fac(gx, p) if fac else ((), {})
                outs: List[GXM.Outcome] = []

                def at_limit(tree, fol_, rec=rec, depth=depth):
                    # where the lazy expansion gives up (nesting deeper than MAXDEPTH), go on with complete shortest
                    # derivations of the form reached so far, run natively against the reference AST (bounded)
                    if rec["limit_n"] >= LIMIT_SAMPLES[_TIER]:
                        return

                    class _R:
                        root = tree
                        follow_used = fol_ if isinstance(fol_, (tuple, list)) else ()
                        toks = ()
                    if not _fresh_signature(rec, _R):
                        return
                    try:
                        rd = GR.replay_data(gx, idx, pidx, depth, _R)
                        if rd is None:
                            return
                        rec["limit_n"] += 1
                        cr = GR.run_data(gx, rd, limit=3)
                        if cr["kind"] in ("diff", "exception"):
                            rec["concrete"].append((f"{cr['kind']}: {cr['detail']}\nconcrete input: {cr.get('text')!r}",
                                                    " ".join(v for v in [cr.get("text") or ""]), list(_R.follow_used), rd))
                    except Exception as e:
                        rec["notes"].append(f"concrete continuation failed to run: {type(e).__name__}: {e}")
                try:
                    runs, notes = GXM.explore(gx, method, nt_name, p, flat, shape, [tuple(f) for f in fols], args, kwargs, on_done=outs.append,
                                              budget=per, on_limit=at_limit)
                except RecursionError:
                    rec["notes"].append("RecursionError in the checker")
                    continue
                rec["runs"] += runs
                rec["notes"] += notes
                inv = getattr(gx.g, "invalid_context", None)
                for oc in outs:
                    fol = list(oc.run.follow_used or ())
                    if inv and inv(oc.run, fol):
                        continue
                    text = oc.run.text()
                    nondefault = any(isinstance(x, GXM.Mark) and x.variant for x in GXM._walk(oc.run.root))
                    if nondefault and oc.kind in ("parse-error", "consumption", "stub-mismatch", "refuted"):
                        # a non-default result shape of a callee may make the form semantically invalid: such runs count
                        # for run-time-error freedom and (when they complete) for the term obligations, not for acceptance
                        continue
                    if oc.kind == "ok":
                        rec["ok"] += 1
                        if len(rec["samples"]) < 2:
                            rec["samples"].append(text)
                        try:
                            exp = gx.expected_of(oc.run)
                            d = gx.ast_diff(oc.result, exp, oc.run.allowed_coords())
                        except (GXM.NeedChoice, GXM.NeedExpand, GXM.NeedVariant):
                            d = None
                        except Exception as e:  # spec-side failure: undecided, not a violation
                            rec["notes"].append(f"spec build failed on `{text}`: {type(e).__name__}: {e}")
                            d = None
                        fd = shared_node_diff(gx, oc)
                        if fd:
                            rec["fresh"].append((fd, text, list(fol)))
                        if not d:
                            d = fd
                        if d:
                            lst = rec["coord"] if ".coord" in d.split(":")[0] else rec["term"]
                            rd = None
                            if sum(1 for x in lst if len(x) > 3 and x[3]) < 3:
                                try:
                                    rd = GR.replay_data(gx, idx, pidx, depth, oc.run)
                                except Exception:
                                    rd = None
                            lst.append((d, text, list(fol), rd))
                        elif (rec["concrete_n"] < CONCRETE_SAMPLES[_TIER] and not nondefault
                              and _fresh_signature(rec, oc.run)):
                            # bounded end-to-end cross-check: the same form, completed to a full derivation, through the real
                            # lexer and the real callees, must give the reference AST as well
                            try:
                                rd = GR.replay_data(gx, idx, pidx, depth, oc.run)
                                if rd is not None:
                                    rec["concrete_n"] += 1
                                    cr = GR.run_data(gx, rd, limit=3)
                                    if cr["kind"] in ("diff", "exception"):
                                        rec["concrete"].append((f"{cr['kind']}: {cr['detail']}\nconcrete input: {cr.get('text')!r}", text, list(fol), rd))
                            except Exception as e:
                                rec["notes"].append(f"concrete cross-check failed to run on `{text}`: {type(e).__name__}: {e}")
                        ad = attr_node_diff(gx, oc)
                        if ad:
                            rec["attrs"].append((ad, text, list(fol)))
                        rs = rescan_diff(gx, oc)
                        if rs:
                            rec["rescan"].append((rs, text, list(fol)))
                        cd = cost_diff(gx, method, oc)
                        if cd:
                            rec["cost"].append((cd, text, list(fol)))
                        sd = scope_diff(gx, method, oc, list(fol))
                        if sd:
                            rd = None
                            if sum(1 for x in rec["scope"] if len(x) > 3 and x[3]) < 2:
                                try:
                                    rd = GR.replay_data(gx, idx, pidx, depth, oc.run)
                                    if rd is not None:
                                        rd["family"] = "scope"
                                except Exception:
                                    rd = None
                            rec["scope"].append((sd, text, list(fol), rd))
                    else:
                        rec["fails"].append((oc.kind, oc.detail, text, list(fol), witness_text(gx, oc.run)))
        if rec["ok"] == 0 and not rec["fails"] and not _retry:
            # nothing completed within the budget: give this production a much larger one before calling it undecided
            return run_case(item, _retry=True)
        if p.note != "superset":
            _long_repetitions(gx, idx, pidx, method, nt_name, p, fac, fols, rec)
        rec.pop("_sigs", None)
        out["prods"].append(rec)
        out["runs"] += rec["runs"]
    out["time"] = time.time() - t0
    core.cache_put("gx", ckey, out)
    return out


# --------------------------------------------------------------------------------------
# C04: which names a production must enter into the scope stack (C 6.2.1: ordinary identifiers only)
# --------------------------------------------------------------------------------------
SCOPE_SENSITIVE = {"_parse_declaration", "_parse_decl_body", "_parse_decl_body_with_spec", "_parse_external_declaration",
                   "_parse_enumerator", "_parse_function_decl", "_parse_struct_declaration", "_parse_parameter_declaration"}
DECLARING = {"_parse_declaration", "_parse_decl_body", "_parse_decl_body_with_spec", "_parse_external_declaration"}


def expected_registrations(gx, method, oc, follow):
    """[(name, is_typedef)] that the invocation must register, in order; derived from the returned AST, whose shape the
    term obligations tie to the grammar.  Members, tags, labels and prototype-only parameters never register."""
    A = gx.c_ast
    res = oc.result
    if method in DECLARING:
        out = []
        for d in res if isinstance(res, list) else []:
            if isinstance(d, A.Typedef) and d.name:
                out.append((d.name, True))
            elif isinstance(d, A.Decl) and d.name:
                out.append((d.name, False))
            elif isinstance(d, A.FuncDef) and d.decl.name:
                # C99 6.9.1p5/p9: the parameters of the function being defined are those of the declarator part nearest the name
                # (the outermost node of pycparser's declarator chain); they are ordinary identifiers of the body's scope, entered
                # before the body is read.  The function's own name follows (pycparser builds the declaration after the body).
                ft = d.decl.type
                if isinstance(ft, A.FuncDecl) and ft.args is not None:
                    for prm in ft.args.params:
                        if isinstance(prm, A.EllipsisParam):
                            break
                        nm = getattr(prm, "name", None)
                        if nm:
                            out.append((nm, False))
                out.append((d.decl.name, False))
        return out
    if method == "_parse_enumerator":
        return [(res.name, False)]
    # a function declarator alone registers nothing: whether its parameters are those of a function being defined is known only
    # to the definition (`int (*f(int a))(int b) {`: a, not b) -- see DECLARING above
    return []


_SEEN_NODES = {}


def static_nodes(gx) -> Dict[int, str]:
    """id -> where, for every AST node reachable from module-level or class-level data of the pycparser modules."""
    if getattr(gx, "_static_nodes", None) is not None:
        return gx._static_nodes
    A = gx.c_ast
    out: Dict[int, str] = {}
    seen = set()

    def walk(v, where, depth=0):
        if depth > 6 or id(v) in seen:
            return
        seen.add(id(v))
        if isinstance(v, A.Node):
            out[id(v)] = where
            for s_ in type(v).__slots__:
                if s_ != "__weakref__":
                    walk(getattr(v, s_, None), where, depth + 1)
        elif isinstance(v, (list, tuple, set, frozenset)):
            for x in v:
                walk(x, where, depth + 1)
        elif isinstance(v, dict):
            for x in v.values():
                walk(x, where, depth + 1)
    import types
    mods = [gx.c_parser, gx.c_lexer, gx.c_ast] + [core.repo_import(m) for m in ("pycparser.ast_transforms", "pycparser.c_generator")]
    for mod in mods:
        for name, val in list(vars(mod).items()):
            if isinstance(val, (types.ModuleType, types.FunctionType)):
                continue
            if isinstance(val, type):
                if getattr(val, "__module__", None) == mod.__name__:
                    for an, av in list(vars(val).items()):
                        if not callable(av):
                            walk(av, f"{mod.__name__}.{name}.{an}")
                continue
            walk(val, f"{mod.__name__}.{name}")
    gx._static_nodes = out
    return out


def shared_node_diff(gx, oc):
    """Every node a parse method builds is fresh: no node of a result may also be part of the result of another
    invocation (C03: each declared entity gets its OWN node; C12: ASTs of different calls share no nodes)."""
    A = gx.c_ast
    given = set()

    def collect(v, acc, depth=0):
        if depth > 12 or id(v) in acc:
            return
        if isinstance(v, A.Node):
            acc[id(v)] = v
            if not isinstance(v, gx.Opaque):
                for s in type(v).__slots__:
                    if s not in ("coord", "__weakref__"):
                        collect(getattr(v, s), acc, depth + 1)
        elif isinstance(v, (list, tuple)):
            for x in v:
                collect(x, acc, depth + 1)
        elif isinstance(v, dict):
            for x in v.values():
                collect(x, acc, depth + 1)
    static = static_nodes(gx)
    handed = {}
    for (_, n, _, _) in oc.run.stub_calls:
        collect(gx.value_of(n), handed)
    for x in oc.run.applied:
        collect(x, handed)
    collect(list(oc.run.args) + list(oc.run.kwargs.values()), handed)
    mine = {}
    collect(oc.result, mine)
    if len(_SEEN_NODES) > 300000:
        _SEEN_NODES.clear()
    for k, v in mine.items():
        if k in handed or isinstance(v, gx.Opaque):
            continue
        if k in static:
            return (f"result: the {type(v).__name__} node is a module-level / class-level object ({static[k]}): every call returns "
                    f"the same node, so the ASTs of different calls are not independent")
        if k in _SEEN_NODES and _SEEN_NODES[k][0] is v and _SEEN_NODES[k][1] is not oc.run:
            return f"result: the {type(v).__name__} node is the very object returned inside the result of an earlier invocation (shared node)"
        _SEEN_NODES[k] = (v, oc.run)
    return None


def rescan_diff(gx, oc):
    """C16: within one invocation every token is looked at speculatively (consumed and given back) at most once; a second
    speculative pass over the same tokens makes the look-ahead quadratic in its own nesting."""
    worst = [(i, c) for i, c in oc.run.spec_count.items() if c > 1]
    if worst:
        i, c = max(worst, key=lambda x: x[1])
        return f"token {i} ({oc.run.describe(i)}) is scanned speculatively {c} times by one invocation"
    return None


def attr_node_diff(gx, oc):
    """C14 (show prints one line per node): a field listed in attr_names holds plain values, never a node or a list
    containing a node - checked on every node the invocation builds."""
    A = gx.c_ast
    seen = set()

    def walk(v, depth=0):
        if depth > 10 or id(v) in seen:
            return None
        seen.add(id(v))
        if isinstance(v, A.Node) and not isinstance(v, gx.Opaque):
            for an in type(v).attr_names:
                x = getattr(v, an)
                items = x if isinstance(x, (list, tuple)) else [x]
                for it in items:
                    if isinstance(it, A.Node):
                        return f"{type(v).__name__}.{an} (an attr_names field) holds a {type(it).__name__} node"
            for s in type(v).__slots__:
                if s not in ("coord", "__weakref__") and s not in type(v).attr_names:
                    r = walk(getattr(v, s), depth + 1)
                    if r:
                        return r
        elif isinstance(v, (list, tuple)):
            for x in v:
                r = walk(x, depth + 1)
                if r:
                    return r
        elif isinstance(v, dict):
            for x in v.values():
                r = walk(x, depth + 1)
                if r:
                    return r
        return None
    return walk(oc.result)


FEATURE_TAGS = [("_Static_assert", "static_assert")]   # (text found in the concrete input, tag appended to the obligation name)
MAX_LOOKAHEAD = 2   # _TokenStream.peek(k) is used with k <= 2 (contract of CParser._peek)
MAX_UNDONE_OWN = 2  # a speculative look-ahead may take back at most this many tokens of its own


def cost_diff(gx, method, oc):
    """C16: speculation must not throw away unbounded work.  A reset may undo a bounded number of the method's own
    tokens, never a construct parsed by a callee (that construct would be parsed again: work doubles per nesting level)
    and never an unbounded scan."""
    worst = None
    if getattr(oc.run, "max_peek", 0) > MAX_LOOKAHEAD:
        worst = (f"looks {oc.run.max_peek} tokens ahead (peek(k) with k > {MAX_LOOKAHEAD}): a look-ahead scan whose length grows with the "
                 f"construct is repeated at every nesting level (quadratic); the parser's look-ahead is bounded by {MAX_LOOKAHEAD} tokens")
    for (m, cur, stubs, own) in oc.run.undone:
        if stubs:
            return (f"reset from token {cur} back to {m} throws away callee work {stubs}: the construct is parsed again "
                    f"(cost doubles with every nesting level)")
        if own > MAX_UNDONE_OWN:
            worst = f"reset from token {cur} back to {m} throws away a scan of {own} tokens (grows with the construct: quadratic under nesting)"
    return worst


def _decl_names(gx, res):
    A = gx.c_ast
    out = []
    for d in res if isinstance(res, list) else []:
        if isinstance(d, A.Typedef) and d.name:
            out.append((d.name, True))
        elif isinstance(d, A.Decl) and d.name:
            out.append((d.name, False))
        elif isinstance(d, A.FuncDef) and d.decl.name:
            out.append((d.decl.name, False))
    return out


def scope_diff(gx, method, oc, follow):
    if getattr(oc.run, "stack_moves", None):
        return oc.run.stack_moves[0]
    want = expected_registrations(gx, method, oc, follow)
    got = list(oc.run.registrations)
    # names whose registration is the duty of a callee under contract (a stubbed declaring method): its own scope
    # obligation covers them
    by_callee = []
    for (name, n, _, _) in oc.run.stub_calls:
        if name in DECLARING:
            v = oc.run.snap.get(id(n))
            if callable(v):
                v = oc.run.applied_by.get(id(n))
            by_callee += _decl_names(gx, v)
    for x in by_callee:
        if x in want:
            want.remove(x)
    if got != want:
        return f"names entered into the scope stack: {got}; C scoping requires {want}" + (f" (callees register {by_callee})" if by_callee else "")
    return None


# --------------------------------------------------------------------------------------
# witnesses: a concrete token string for a (partially expanded) form
# --------------------------------------------------------------------------------------
def min_yield(gx, nt_name, first=None, depth=0, memo=None) -> Optional[List[Tuple[str, str]]]:
    """A shortest terminal string derivable from nt (starting with token type `first` if given)."""
    memo = gx.__dict__.setdefault("_minyield", {})
    key = (nt_name, first)
    if key in memo:
        return memo[key]
    if depth > 12:
        return None
    memo[key] = None
    best = None
    for p in gx.g.nts[nt_name].prods:
        for flat, _ in p.flat_nested:
            fs, nullable = gx.g.first_of_seq(flat)
            if first is not None and first != "" and first not in fs:
                continue
            if first == "" and not nullable:
                continue
            seq: Optional[List[Tuple[str, str]]] = []
            want = first
            for s in flat:
                if isinstance(s, GXM.T):
                    if want not in (None, "") and s.type != want:
                        seq = None
                        break
                    seq.append((s.type, s.value if s.value is not None else gx.spelling(s.type, len(seq))))
                    want = None
                else:
                    w = want
                    if want not in (None, "") and want not in gx.g.first[s.name]:
                        if gx.g.nullable[s.name]:
                            continue
                        seq = None
                        break
                    sub = min_yield(gx, s.name, w if w not in (None,) else None, depth + 1)
                    if first == "":
                        sub = []
                    if sub is None:
                        seq = None
                        break
                    seq += sub
                    if sub:
                        want = None
            if seq is not None and (best is None or len(seq) < len(best)):
                best = seq
    memo[key] = best
    return best


def witness_text(gx, run) -> Optional[str]:
    """Concrete C text for the form of a run (markers replaced by shortest derivations), plus follow tokens."""
    parts = []
    for t in run.toks[: run.n_form]:
        if hasattr(t, "mark"):
            y = min_yield(gx, t.mark.nt, t.mark.first)
            if y is None:
                return None
            parts += [v for _, v in y]
        else:
            parts.append(t.value)
    return " ".join(parts)


# --------------------------------------------------------------------------------------
# turning the records into obligations
# --------------------------------------------------------------------------------------
CONTEXTS = {
    # nonterminal family -> (prefix, suffix) making a translation unit around the witness
    "expr": ("void f(void) {\n", ";\n}\n"),
    "stmt": ("void f(void) {\n", "\n}\n"),
    "switchbody": ("void f(void) { switch (x)\n", "\n}\n"),
    "decl": ("", "\n"),
    "block": ("void f(void) {\n", "\n}\n"),
}


def context_for(gx, nt_name) -> Optional[str]:
    if "expression" in nt_name or nt_name in ("constant", "identifier", "string-literal", "wide-string-literal"):
        return "expr"
    if nt_name in ("labeled-statement",):
        return "stmt"
    if nt_name.endswith("statement") or nt_name in ("block-item", "block-item-list", "pragma-directive", "pragma-directive-list"):
        return "stmt"
    if nt_name in ("declaration", "external-declaration", "translation-unit", "translation-unit-or-empty"):
        return "decl"
    return None


def replay_accept(gx, nt_name, text: Optional[str], typeids: List[str]) -> Optional[str]:
    ctx = context_for(gx, nt_name)
    if text is None or ctx is None:
        return None
    pre, post = CONTEXTS[ctx]
    tds = "".join(f"typedef int {t};\n" for t in sorted(set(typeids)))
    src = tds + pre + text + post
    return (
        "from pycparser import c_parser\n"
        f"SRC = {src!r}\n"
        "print(SRC)\n"
        "try:\n"
        "    ast = c_parser.CParser().parse(SRC, 'w.c')\n"
        "    print('accepted'); print('NOT-REPRODUCED')\n"
        "except c_parser.ParseError as e:\n"
        "    print('valid input rejected:', e); print('REPRODUCED')\n"
        "except Exception as e:\n"
        "    print('exception other than ParseError:', type(e).__name__, e); print('REPRODUCED')\n"
    )


def typeids_in(text: Optional[str]) -> List[str]:
    import re

    return re.findall(r"\bT\d+\b", text or "")


def to_obligations(gx, recs: List[dict], families: List[str], prefix: str) -> core.Result:
    res = core.Result()
    src = core.Source.get("pycparser/c_parser.py")
    total_runs = 0
    for r in recs:
        method, nt_name = r["method"], r["nt"]
        q = f"CParser.{method}"
        if r.get("missing") or not src.has(q):
            res.obs.append(core.Ob(f"{prefix}/bind/{method}", core.UNDECIDED, "GX", 0.0,
                                   f"method {method} named by the reference grammar (nonterminal {nt_name}) not found", functions=[q]))
            continue
        fi = src.func(q)
        if all(f.qualname != q for f in res.functions):
            res.functions.append(fi)
        total_runs += r["runs"]
        for p in r["prods"]:
            base = f"{method}/{p['label']}"
            undec = [n for n in p["notes"] if "budget" in n or "spec build failed" in n or "RecursionError" in n]
            sample = (p["samples"] or [""])[0]
            for fam in families:
                if p["note"] == "superset" and fam != "rte":
                    continue  # forms beyond valid C: only run-time-error freedom is claimed for them
                if fam == "accept":
                    bad = [f for f in p["fails"] if f[0] in ("parse-error", "consumption", "stub-mismatch", "refuted")]
                elif fam == "rte":
                    bad = [f for f in p["fails"] if f[0] in ("exception", "bad-error-location")]
                elif fam == "term":
                    bad = p["term"]
                elif fam == "coord":
                    bad = p["coord"]
                elif fam == "scope":
                    bad = p["scope"]
                elif fam == "cost":
                    bad = p["cost"]
                elif fam == "attrs":
                    bad = p["attrs"]
                elif fam == "rescan":
                    bad = p["rescan"]
                elif fam == "concrete":
                    bad = p.get("concrete", [])
                elif fam == "fresh":
                    bad = p.get("fresh", [])
                else:
                    raise ValueError(fam)
                name = f"{prefix}/{fam}/{base}"
                if bad and fam == "concrete":
                    # failures are grouped by the rare feature their concrete input contains, so that a listed finding about one
                    # feature cannot hide a different failure of the same production
                    groups: Dict[str, list] = {}
                    for x in bad:
                        tag = next((t for needle, t in FEATURE_TAGS if needle in x[0]), "")
                        groups.setdefault(tag, []).append(x)
                    for tag, xs in sorted(groups.items()):
                        withrep = [x for x in xs if len(x) > 3 and x[3]]
                        first = withrep[0] if withrep else xs[0]
                        d, text, fol = first[:3]
                        det = f"{d}\nform: {text}   followed by {fol}\n({len(xs)} differing native runs)"
                        rep = GR.script(first[3]) if len(first) > 3 and first[3] else None
                        res.obs.append(core.Ob(name + (f"/with-{tag}" if tag else ""), core.REFUTED, "GX-concrete", 0.0, det, replay=rep,
                                               functions=[q], sample=text))
                    if "" not in groups:
                        n = p.get("concrete_n", 0) + p.get("limit_n", 0)
                        res.obs.append(core.Ob(name, core.DISCHARGED, "GX-concrete", 0.0,
                                               f"BOUNDED: {n} completed forms re-run natively; all agree with the reference AST except the listed feature(s) {sorted(groups)}",
                                               functions=[q], sample=sample, bounded=True))
                    continue
                if bad and fam == "attrs":
                    name += "/" + bad[0][0].split(" ")[0]   # the (class.field) that holds a node
                if bad:
                    if fam in ("accept", "rte"):
                        kind, detail, text, fol, wit = bad[0]
                        det = f"{kind}: {detail}\nform: {text}   followed by {fol}\n({len(bad)} failing runs of {p['runs']})"
                        full = (wit + " " + " ".join(gx.spelling(t) for t in fol if t)) if wit else None
                        rep = replay_accept(gx, nt_name, wit, typeids_in(wit))
                    else:
                        withrep = [x for x in bad if len(x) > 3 and x[3]]
                        first = withrep[0] if withrep else bad[0]
                        d, text, fol = first[:3]
                        det = f"{d}\nform: {text}   followed by {fol}\n({len(bad)} differing runs of {p['runs']})"
                        rep = GR.script(first[3]) if len(first) > 3 and first[3] else None
                    res.obs.append(core.Ob(name, core.REFUTED, "GX", 0.0, det, replay=rep, functions=[q], sample=text))
                elif fam == "concrete":
                    n = p.get("concrete_n", 0) + p.get("limit_n", 0)
                    if n:
                        res.obs.append(core.Ob(name, core.DISCHARGED, "GX-concrete", 0.0,
                                               f"BOUNDED: {n} completed forms re-run natively (real lexer, real callees) agree with the reference AST",
                                               functions=[q], sample=sample, bounded=True))
                elif p["ok"] == 0 and not p["fails"]:
                    res.obs.append(core.Ob(name, core.UNDECIDED, "GX", 0.0,
                                           "no run completed for this production: " + "; ".join(p["notes"][:3]), functions=[q]))
                elif [n for n in undec if "budget" not in n]:
                    res.obs.append(core.Ob(name, core.UNDECIDED, "GX", 0.0, "; ".join(sorted(set(undec))[:3]), functions=[q], sample=sample))
                elif undec:
                    # exploration budget hit: what was explored held, but this is a bounded stand-in, not a proof
                    res.obs.append(core.Ob(name, core.DISCHARGED, "GX", 0.0,
                                           f"BOUNDED: {p['ok']} completed runs, all held; run budget exhausted (breadth-first over refinements)",
                                           functions=[q], sample=sample, bounded=True))
                else:
                    res.obs.append(core.Ob(name, core.DISCHARGED, "GX", 0.0,
                                           f"{p['ok']} completed runs over all look-ahead classes / lazy expansions", functions=[q],
                                           sample=sample))
    res.extra["gx_runs"] = total_runs
    res.trusted_base += [
        "GX: CPython executes the real parse-method function objects; stubs implement the callee contracts of spec/grammar*.py "
        "(the same contracts the stubbed methods are themselves checked against: induction on derivation height, lemma L2)",
        "reference grammar and AST shapes: spec/grammar.py (sha256 %s), spec/grammar_decl.py (sha256 %s), transcribed from ISO 9899:1999 "
        "Annex A and the property statements" % (core.file_sha("spec/grammar.py"), core.file_sha("spec/grammar_decl.py")),
        "token-type equivalence classes: computed from the module tables and string constants of c_parser.py and the FIRST sets of the grammar",
    ]
    res.assumptions += [
        "repetitions (comma lists, specifier sequences, suffix chains, block items) are run with 0, 1 and 2 repetitions; larger counts "
        "rest on the loop-cut argument (the loop bodies of the parse methods keep no counter: FX control-slice check)",
        "marker expansion depth limited to %d levels of nested productions" % GXM.GX.MAXDEPTH,
    ]
    return res


def run_families(methods: Optional[List[str]], families: List[str], prefix: str, procs: int = 16, tier: str = "quick") -> core.Result:
    global _TIER
    _TIER = tier
    gx = get_gx()
    allc = method_cases(gx)
    cases = [(i, k) for i, c in enumerate(allc) if methods is None or c[0] in methods
             for k in range(len(gx.g.nts[c[1]].prods))]
    if not cases:
        raise RuntimeError("no GX cases selected")
    if procs > 1 and len(cases) > 1:
        ctx = mp.get_context("fork")
        with ctx.Pool(min(procs, len(cases))) as pool:
            recs = pool.map(run_case, cases, chunksize=1)
    else:
        recs = [run_case(c) for c in cases]
    res = to_obligations(gx, recs, families, prefix)
    res.extra["gx_cases"] = len(cases)
    res.extra["gx_time_s"] = round(sum(r["time"] for r in recs), 1)
    return res


# --------------------------------------------------------------------------------------
# may-mode obligations (arbitrary token sequences)
# --------------------------------------------------------------------------------------
MAY_BUDGET = {"quick": 4000, "thorough": 60000}


def run_may_case(idx) -> dict:
    hit = core.cache_get("gxmay", f"{_TIER}/{idx}")
    if hit is not None:
        return hit
    gx = get_gx()
    method, nt_name, fac = method_cases(gx)[idx]
    out = dict(method=method, nt=nt_name, runs=0, counts={}, findings=[], notes=[], time=0.0)
    if method not in gx.parse_methods:
        out["missing"] = True
        return out
    t0 = time.time()
    args, kwargs = fac(gx, gx.g.nts[nt_name].prods[0]) if fac else ((), {})
    runs, counts, findings, notes = GXM.explore_may(gx, method, args, kwargs, budget=MAY_BUDGET[_TIER],
                                                    maxlen=9 if _TIER == "quick" else 11)
    out.update(runs=runs, counts=dict(counts), findings=findings[:50], notes=notes, time=time.time() - t0)
    core.cache_put("gxmay", f"{_TIER}/{idx}", out)
    return out


MAY_FAMILIES = {"bracket": ("unbalanced",), "rte": ("exception",), "errloc": ("bad-error-location",)}


def may_replay(script, kind) -> str:
    gx = get_gx()
    toks = [gx.spelling(t, i) for i, t in enumerate(script) if t is not None]
    tds = "".join(f"typedef int {gx.spelling('TYPEID', i)};\n" for i, t in enumerate(script) if t == "TYPEID")
    body = " ".join(toks)
    return ("from pycparser import c_parser\n"
            f"FRAG = {body!r}\nTDS = {tds!r}\nbad = []\n"
            "for pre, post in (('', ''), ('', ';'), ('void f(void) { ', ' }'), ('void f(void) { ', '; }'), ('int x = ', ';'), ('struct S { ', ' };'),"
            " ('void f(void) { x = ', '; }'), ('void f(', ');'), ('int a[', '];')):\n"
            "    for cut in (False, True):\n"
            "        src = TDS + pre + FRAG + ('' if cut else post)\n"
            "        try:\n            c_parser.CParser().parse(src, 'w.c')\n"
            "            st = []\n            okb = True\n"
            "            for ch in src:\n"
            "                if ch in '([{': st.append(ch)\n"
            "                elif ch in ')]}':\n"
            "                    if not st or '([{'.index(st[-1]) != ')]}'.index(ch): okb = False; break\n"
            "                    st.pop()\n"
            "            if st or not okb: bad.append((src, 'ACCEPTED although its brackets do not balance'))\n"
            "        except c_parser.ParseError as e:\n"
            "            if not (str(e).startswith('w.c:') ): bad.append((src, 'ParseError without location: ' + str(e)))\n"
            "        except RecursionError:\n            pass\n"
            "        except Exception as e:\n            bad.append((src, type(e).__name__ + ': ' + str(e)))\n"
            "for b in bad[:5]: print(b)\n"
            "print('REPRODUCED' if bad else 'NOT-REPRODUCED')\n")


def run_may(methods, families, prefix, tier="quick", procs=16) -> core.Result:
    global _TIER
    _TIER = tier
    gx = get_gx()
    allc = method_cases(gx)
    cases = [i for i, c in enumerate(allc) if methods is None or c[0] in methods]
    ctx = mp.get_context("fork")
    with ctx.Pool(min(procs, len(cases))) as pool:
        recs = pool.map(run_may_case, cases, chunksize=1)
    res = core.Result()
    src = core.Source.get("pycparser/c_parser.py")
    total = 0
    for r in recs:
        q = f"CParser.{r['method']}"
        if r.get("missing") or not src.has(q):
            res.obs.append(core.Ob(f"{prefix}/bind/{r['method']}", core.UNDECIDED, "GX", 0.0, "method not found", functions=[q]))
            continue
        if all(f.qualname != q for f in res.functions):
            res.functions.append(src.func(q))
        total += r["runs"]
        bounded = bool(r["notes"]) or r["counts"].get("cut-length", 0) > 0
        for fam in families:
            kinds = MAY_FAMILIES[fam]
            bad = [f for f in r["findings"] if f[0] in kinds]
            name = f"{prefix}/may-{fam}/{r['method']}/{r['nt']}"
            if bad:
                kind, detail, text, script = bad[0]
                res.obs.append(core.Ob(name, core.REFUTED, "GX", 0.0, f"{detail}\ntoken sequence: {text}\n({len(bad)} such runs of {r['runs']})",
                                       replay=may_replay(script, kind), functions=[q], sample=text))
            else:
                c = r["counts"]
                res.obs.append(core.Ob(name, core.DISCHARGED, "GX", 0.0,
                                       (("BOUNDED (budget/length cut): " if bounded else "") +
                                        f"{r['runs']} token sequences: {c.get('ok', 0)} normal returns, {c.get('parse-error', 0)} ParseErrors"),
                                       functions=[q], sample=f"{r['runs']} arbitrary token sequences of {r['method']}", bounded=bounded))
    res.extra["gx_may_runs"] = total
    res.trusted_base.append("GX may-mode: a callee returns normally only on a token of its nonterminal's FIRST set, consuming one bracket-balanced "
                            "construct (its own may-obligation: induction over the call tree)")
    res.assumptions.append("may-mode explores token sequences breadth-first up to 9 (quick) / 11 (thorough) tokens taken by the method itself; "
                           "methods whose exploration is cut are reported as bounded")
    return res
