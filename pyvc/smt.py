"""SMT engine: ast -> z3 verification-condition generator for the real functions of /repo.

Path-wise symbolic execution of the *real* function bodies (re-read with `ast` on every run):
  * calls to functions under contract are replaced by  assert-pre / havoc-frame / assume-post,
  * loops are cut by sidecar invariants (established, preserved, assumed with the negated guard),
  * every primitive that can raise generates an obligation unless the contract allows it,
  * `modifies` clauses are proved (frame obligations at every normal exit),
  * universally quantified hypotheses are instantiated by the engine over the index terms of
    the path (array-property-fragment style); universally quantified goals are skolemised, so
    every solver query is quantifier free.

Value model: one z3 datatype `Val = VNone | VBool | VInt | VStr | VRef`; heap = one array per
field name (Burstall-Bornat), list contents as Seq(Val) per list object, str-keyed dicts as
(domain, map) arrays.  Mathematical integers.  See DESIGN.md 2.1 for the assumed Python semantics.
"""
from __future__ import annotations

import ast
import itertools
import time
from typing import Any, Callable, Dict, List, Optional, Tuple

import z3

from . import core

# --------------------------------------------------------------------------------------
# sorts
# --------------------------------------------------------------------------------------
_Val = z3.Datatype("Val")
_Val.declare("VNone")
_Val.declare("VBool", ("b", z3.BoolSort()))
_Val.declare("VInt", ("i", z3.IntSort()))
_Val.declare("VStr", ("s", z3.StringSort()))
_Val.declare("VRef", ("r", z3.IntSort()))
Val = _Val.create()
VNone, VBool, VInt, VStr, VRef = Val.VNone, Val.VBool, Val.VInt, Val.VStr, Val.VRef
SeqV = z3.SeqSort(Val)  # (unused: list contents are arrays + length, see PSeq)
ArrV = z3.ArraySort(z3.IntSort(), Val)


class PSeq:
    """A finite sequence of values: array of elements + length (list contents, spec sequences)."""

    __slots__ = ("arr", "n")

    def __init__(self, arr, n):
        self.arr, self.n = arr, n

    @staticmethod
    def empty():
        return PSeq(z3.K(z3.IntSort(), VNone), z3.IntVal(0))

    def append(self, x):
        return PSeq(z3.Store(self.arr, self.n, x), self.n + 1)

    def at(self, i):
        return self.arr[i]

    def set_at(self, i, x):
        return PSeq(z3.Store(self.arr, i, x), self.n)
I = z3.IntSort()
B = z3.BoolSort()
S = z3.StringSort()

cls_of = z3.Function("cls_of", I, I)  # class tag of an object (immutable)


def _is(term, ctor) -> z3.BoolRef:
    return getattr(Val, "is_" + ctor)(term)


def is_none(t):
    return _is(t, "VNone")


def is_bool(t):
    return _is(t, "VBool")


def is_int(t):
    return _is(t, "VInt")


def is_str(t):
    return _is(t, "VStr")


def is_ref(t):
    return _is(t, "VRef")


def _peel(t, ctor, acc):
    if z3.is_app(t) and t.decl().name() == ctor and t.num_args() == 1:
        return t.arg(0)
    return acc(t)


def ival(t):
    return _peel(t, "VInt", Val.i)


def bval(t):
    return _peel(t, "VBool", Val.b)


def sval(t):
    return _peel(t, "VStr", Val.s)


def rval(t):
    return _peel(t, "VRef", Val.r)


class EngineError(Exception):
    """Construct outside the supported subset / unbound contract: obligations undecided."""


class SV:
    """Symbolic value: a Val-sorted term plus what is statically known about it."""

    __slots__ = ("v", "kind", "ty", "py", "items")

    def __init__(self, v, kind=None, ty=None, py=None, items=None):
        self.v = v
        self.kind = kind  # None | 'none' | 'bool' | 'int' | 'str' | 'ref' | 'py' | 'tuple' | 'seq' | 'closure'
        self.ty = ty  # type descriptor (see TY_*), may be None
        self.py = py  # python-level constant (module table, class, enum member, function name)
        self.items = items  # for kind 'tuple': list of SV; for 'seq': a PSeq

    def __repr__(self):
        return f"SV({self.kind},{self.v if self.kind not in ('py','tuple','seq','closure') else (self.py or self.items)})"


def mk_none():
    return SV(VNone, "none", ("none",))


def mk_bool(b):
    if isinstance(b, bool):
        b = z3.BoolVal(b)
    return SV(VBool(b), "bool", ("bool",))


def mk_int(i):
    if isinstance(i, int):
        i = z3.IntVal(i)
    return SV(VInt(i), "int", ("int",))


def mk_str(s):
    if isinstance(s, str):
        s = z3.StringVal(s)
    return SV(VStr(s), "str", ("str",))


def mk_ref(r, ty=None):
    return SV(VRef(r), "ref", ty)


def mk_py(obj):
    return SV(None, "py", None, py=obj)


def mk_tuple(items):
    return SV(None, "tuple", None, items=list(items))


def mk_seq(s, elem_ty=None):
    return SV(None, "seq", ("seq", elem_ty), items=s)


# type descriptors: ('int',) ('bool',) ('str',) ('none',) ('any',) ('obj', Cls) ('opt', T)
# ('list', T) ('dict', T) ('tuple', [T..]) ('callable', contract-name)
def parse_ty(s) -> tuple:
    if isinstance(s, tuple):
        return s
    s = s.strip()
    if s in ("int", "bool", "str", "none", "any"):
        return (s,)
    for k in ("opt", "list", "dict", "callable"):
        if s.startswith(k + "[") and s.endswith("]"):
            inner = s[len(k) + 1 : -1]
            return (k, inner if k == "callable" else parse_ty(inner))
    if s.startswith("tuple[") and s.endswith("]"):
        parts, depth, cur = [], 0, ""
        for ch in s[6:-1]:
            if ch == "," and depth == 0:
                parts.append(cur)
                cur = ""
            else:
                depth += ch == "["
                depth -= ch == "]"
                cur += ch
        parts.append(cur)
        return ("tuple", [parse_ty(p) for p in parts])
    return ("obj", s)


# --------------------------------------------------------------------------------------
# class table (from the real modules)
# --------------------------------------------------------------------------------------
class ClassTable:
    def __init__(self):
        self.ids: Dict[str, int] = {}
        self.bases: Dict[str, List[str]] = {}
        self.pyclass: Dict[str, type] = {}
        for n in ("list", "dict", "tuple", "object", "function"):
            self.add(n, [])

    def add(self, name, bases, pyclass=None):
        if name not in self.ids:
            self.ids[name] = len(self.ids) + 1
            self.bases[name] = list(bases)
            if pyclass is not None:
                self.pyclass[name] = pyclass

    def add_pyclass(self, c: type):
        if c.__name__ in self.ids:
            return
        for b in c.__bases__:
            if b is not object:
                self.add_pyclass(b)
        self.add(c.__name__, [b.__name__ for b in c.__bases__ if b is not object], c)

    def subclasses(self, name) -> List[str]:
        out = []
        for c in self.ids:
            if self.is_sub(c, name):
                out.append(c)
        return out

    def is_sub(self, c, name) -> bool:
        if c == name or name == "object":
            return True
        return any(self.is_sub(b, name) for b in self.bases.get(c, []))

    def inst(self, r, name) -> z3.BoolRef:
        """cls_of(r) is `name` or a subclass."""
        subs = self.subclasses(name)
        if not subs:
            return z3.BoolVal(False)
        return z3.Or([cls_of(r) == self.ids[c] for c in subs])


CLASSES = ClassTable()


def load_repo_classes():
    for m in ("pycparser.c_ast", "pycparser.c_lexer", "pycparser.c_parser", "pycparser.c_generator"):
        mod = core.repo_import(m)
        for k, v in vars(mod).items():
            if isinstance(v, type) and getattr(v, "__module__", "") == m:
                CLASSES.add_pyclass(v)


# --------------------------------------------------------------------------------------
# heap
# --------------------------------------------------------------------------------------
class Heap:
    """Immutable-style heap snapshot: field arrays, list contents, dicts, allocation watermark."""

    def __init__(self, tag="0"):
        self.fields: Dict[str, Any] = {}
        self.LA = z3.Const(f"LA!{tag}", z3.ArraySort(I, ArrV))
        self.LN = z3.Const(f"LN!{tag}", z3.ArraySort(I, I))
        self.DK = z3.Const(f"DK!{tag}", z3.ArraySort(I, z3.ArraySort(S, B)))
        self.DV = z3.Const(f"DV!{tag}", z3.ArraySort(I, z3.ArraySort(S, Val)))
        self.A = z3.Int(f"A!{tag}")
        self.tag = tag

    def copy(self) -> "Heap":
        h = Heap.__new__(Heap)
        h.fields = dict(self.fields)
        h.LA, h.LN, h.DK, h.DV, h.A, h.tag = self.LA, self.LN, self.DK, self.DV, self.A, self.tag
        return h

    def lseq(self, r) -> "PSeq":
        return PSeq(self.LA[r], self.LN[r])

    def set_lseq(self, r, ps: "PSeq"):
        self.LA = z3.Store(self.LA, r, ps.arr)
        self.LN = z3.Store(self.LN, r, ps.n)

    def field(self, f):
        if f not in self.fields:
            self.fields[f] = z3.Const(f"H!{f}!{self.tag}", z3.ArraySort(I, Val))
        return self.fields[f]


class _Fresh:
    n = 0


FRESH = _Fresh()


def fresh(prefix, sort):
    FRESH.n += 1
    return z3.Const(f"{prefix}!{FRESH.n}", sort)


# --------------------------------------------------------------------------------------
# contracts registry (filled by sidecar files in /verif/contracts)
# --------------------------------------------------------------------------------------
class Contract:
    def __init__(self, name, **kw):
        self.name = name
        self.file = kw.pop("file", None)  # repo-relative file holding the function (None: external/trusted)
        self.params: Dict[str, tuple] = {k: parse_ty(v) for k, v in kw.pop("params", {}).items()}
        self.returns = parse_ty(kw.pop("returns", "any"))
        self.requires: List[str] = kw.pop("requires", [])
        self.ensures: List[str] = kw.pop("ensures", [])
        self.modifies: List[str] = kw.pop("modifies", [])
        self.raises: List[str] = kw.pop("raises", [])
        self.ensures_exc: Dict[str, List[str]] = kw.pop("ensures_exc", {})
        self.loops: Dict[int, dict] = kw.pop("loops", {})
        self.trusted: Optional[str] = kw.pop("trusted", None)  # reason text => contract assumed, body not verified
        self.ghost: List[tuple] = kw.pop("ghost", [])  # (name, [arg sorts], ret sort, [reads])
        self.axioms: List[str] = kw.pop("axioms", [])
        self.on_new: Dict[str, List[str]] = kw.pop("on_new", {})
        self.locals_order: List[str] = kw.pop("locals_order", [])
        self.props: List[str] = kw.pop("props", [])
        self.pure_alloc: bool = kw.pop("allocates", True)
        self.decreases: Optional[str] = kw.pop("decreases", None)
        self.labels: Dict[str, str] = kw.pop("labels", {})  # ensures text -> obligation label
        self.inline: bool = kw.pop("inline", False)
        self.variant_of: Optional[str] = kw.pop("variant_of", None)
        self.body_slice: Optional[tuple] = kw.pop("body_slice", None)
        # callback calls made on a normal return, in order: [(callable contract name, [argument expressions])]
        self.calls: Optional[List[tuple]] = kw.pop("calls", None)
        # callee name -> name of the contract to use for it while verifying THIS function (contract views)
        self.use: Dict[str, str] = kw.pop("use", {})
        # executable definitions of ghost functions, used only by the run-time contract monitor (pyvc/rtcheck.py):
        # name -> python lambda source evaluated in the environment of the call (parameters by name)
        self.ghost_impl: Dict[str, str] = kw.pop("ghost_impl", {})
        if kw:
            raise TypeError(f"unknown contract keys {list(kw)}")


CONTRACTS: Dict[str, Contract] = {}
PREDICATES: Dict[str, Tuple[List[str], str]] = {}
FIELD_TYPES: Dict[str, tuple] = {}  # "Class.field" -> type descriptor (data-structure invariant)
CLASS_FIELDS: Dict[str, List[str]] = {}
SPEC_CONSTS: Dict[str, Any] = {}  # names usable in contract clauses (python objects of the real modules)
CLASS_METHODS: Dict[str, Dict[str, str]] = {}  # pseudo-classes (e.g. re.Match): method name -> contract name


def contract(name, **kw) -> Contract:
    c = Contract(name, **kw)
    CONTRACTS[name] = c
    return c


def predicate(name, params, body):
    PREDICATES[name] = (params, body)


def field_types(cls, **kw):
    for f, t in kw.items():
        FIELD_TYPES[f"{cls}.{f}"] = parse_ty(t)
        CLASS_FIELDS.setdefault(cls, [])
        if f not in CLASS_FIELDS[cls]:
            CLASS_FIELDS[cls].append(f)


def lookup_field_type(cls: Optional[str], f: str) -> Optional[tuple]:
    if cls is None:
        return None
    seen = [cls]
    while seen:
        c = seen.pop()
        if f"{c}.{f}" in FIELD_TYPES:
            return FIELD_TYPES[f"{c}.{f}"]
        seen += CLASSES.bases.get(c, [])
    return None


# --------------------------------------------------------------------------------------
# obligations and solving
# --------------------------------------------------------------------------------------
class Schema:
    """A universally quantified hypothesis  forall x:Int. body(x), instantiated by the engine."""

    def __init__(self, fn: Callable[[Any], Any], descr=""):
        self.fn = fn
        self.descr = descr


class VC:
    def __init__(self, name, hyps, schemas, idx_terms, goal, kind, func, lineno=None, cex_vars=None):
        self.name = name
        self.hyps = hyps
        self.schemas = schemas
        self.idx_terms = idx_terms
        self.goal = goal
        self.kind = kind
        self.func = func
        self.lineno = lineno
        self.cex_vars = cex_vars or {}


def instantiate(schemas: List[Schema], idx_terms) -> List[Any]:
    out = []
    terms = list(idx_terms)
    for sc in schemas:
        for t in terms:
            try:
                f = sc.fn(t)
            except z3.Z3Exception:
                continue
            if f is not None:
                out.append(f)
    return out


def solve_vc(vc: VC, timeout_ms=10000):
    """Returns (status, detail, model|None, seconds).  status in discharged/refuted/undecided."""
    t0 = time.time()
    s = z3.Solver()
    s.set("timeout", timeout_ms)
    hyps = list(vc.hyps) + instantiate(vc.schemas, vc.idx_terms)
    for h in hyps:
        s.add(h)
    s.add(z3.Not(vc.goal))
    r = s.check()
    dt = time.time() - t0
    if r == z3.unsat:
        return core.DISCHARGED, "z3: unsat", None, dt
    if r == z3.sat:
        m = s.model()
        lines = []
        for k, t in vc.cex_vars.items():
            try:
                lines.append(f"{k} = {m.eval(t, model_completion=True)}")
            except Exception:
                pass
        return core.REFUTED, "z3: sat (counter-model)\n" + "\n".join(lines), m, dt
    # unknown: try cvc5 on the SMT-LIB text
    detail = f"z3: unknown ({s.reason_unknown()})"
    try:
        import subprocess, tempfile, os

        txt = "(set-logic ALL)\n" + s.to_smt2()
        with tempfile.NamedTemporaryFile("w", suffix=".smt2", delete=False) as f:
            f.write(txt)
            p = f.name
        try:
            out = subprocess.run(
                ["/usr/bin/cvc5", "--strings-exp", f"--tlimit={timeout_ms}", p],
                capture_output=True,
                text=True,
                timeout=timeout_ms / 1000 + 5,
            ).stdout.strip()
        finally:
            os.unlink(p)
        if out.startswith("unsat"):
            return core.DISCHARGED, detail + "; cvc5: unsat", None, time.time() - t0
        if out.startswith("sat"):
            return core.UNDECIDED, detail + "; cvc5: sat (no model decoded)", None, time.time() - t0
        detail += f"; cvc5: {out[:80]}"
    except Exception as e:  # pragma: no cover
        detail += f"; cvc5 failed: {e!r}"
    return core.UNDECIDED, detail, None, time.time() - t0


def solve_all(vcs: List[VC], timeout_ms=10000):
    """Solve VCs in generation order with one incremental solver: consecutive VCs of a path share a growing
    prefix of hypotheses.  Yields (vc, status, detail, seconds)."""
    s = z3.Solver()
    s.set("timeout", timeout_ms)
    cur: List[int] = []
    for vc in vcs:
        t0 = time.time()
        ids = [h.get_id() for h in vc.hyps]
        if ids[: len(cur)] != cur:
            s = z3.Solver()
            s.set("timeout", timeout_ms)
            cur = []
        for h in vc.hyps[len(cur):]:
            s.add(h)
        cur = ids
        g = z3.simplify(vc.goal)
        if z3.is_true(g):
            yield vc, core.DISCHARGED, "trivial", time.time() - t0
            continue
        s.push()
        for h in instantiate(vc.schemas, vc.idx_terms):
            s.add(h)
        s.add(z3.Not(vc.goal))
        r = s.check()
        if r == z3.unsat:
            s.pop()
            yield vc, core.DISCHARGED, "z3: unsat", time.time() - t0
            continue
        s.pop()
        # not settled incrementally: decide it on its own (model / second solver)
        st, det, m, dt = solve_vc(vc, timeout_ms)
        yield vc, st, det, time.time() - t0
