"""FX -- frame / effect / dependency analysis over the `ast` of the CURRENT repository tree.

Purely static and modular.  Nothing from the repository is restated here: the six modules are
re-read through `core.Source` on every run.  The analysis consists of

  * a program model (modules, classes, functions, nested functions, name resolution);
  * a generic forward flow engine over structured Python statements (`Flow`);
  * the EFFECTS pass: flow-sensitive function-local may-points-to from names/expressions to
    abstract roots, write sites, call resolution (incl. callbacks wired by constructor keyword
    arguments and `getattr(self, "visit_"+..., default)`), per-function summaries
    (modifies / returns / stores-into-parameters) computed by a fixpoint over the call graph;
  * the DEF/USE pass (definitely-assigned and may-read-before-assign instance fields);
  * the INDENT pass (net change of an integer field along every normally returning path);
  * the TAINT pass (coordinate non-interference; also reused for lexer position state).

Abstract roots (tuples):
  ('self', f|None)      the receiver / an object reached from it through first field f
  ('foot',)             an object of the same owner footprint (callback receiver, ctor argument)
  ('param', p, f|None)  parameter object p / an object reached from it through first field f
  ('ext',)              an argument supplied by a caller outside the analysed modules
  ('fresh',)            allocated in this activation or returned fresh by a callee
  ('imm',)              immutable value (None, numbers, strings, code objects)
  ('global', m, n)      the object bound to module-level name m.n or reachable from it
  ('class', C, a)       the object bound to class attribute C.a or reachable from it
  ('default', f, p)     the mutable default-argument object of parameter p of function f
  ('module', m) ('clsobj', C)   module / class objects themselves (attribute stores on them are
                        global / class writes)
  ('lamarg', x)         a lambda parameter (unknown caller-chosen object)
  ('unknown', why)      could not be resolved
"""
from __future__ import annotations

import ast
import os
from typing import Any, Dict, FrozenSet, List, Optional, Set, Tuple

from . import core

MODULE_FILES = {
    "c_parser": "pycparser/c_parser.py",
    "c_lexer": "pycparser/c_lexer.py",
    "c_generator": "pycparser/c_generator.py",
    "c_ast": "pycparser/c_ast.py",
    "ast_transforms": "pycparser/ast_transforms.py",
    "__init__": "pycparser/__init__.py",
}

MUTATORS = {
    "append", "extend", "insert", "pop", "remove", "clear", "sort", "reverse",
    "update", "setdefault", "add", "discard", "popitem", "appendleft", "popleft",
    "__setitem__", "__delitem__", "__setattr__", "__delattr__",
}
# mutators whose positional arguments are stored into the receiver
STORING_MUTATORS = {"append", "extend", "insert", "update", "setdefault", "add", "appendleft",
                    "__setitem__", "__setattr__"}

PURE_BUILTINS = {
    "len", "isinstance", "issubclass", "repr", "str", "int", "float", "bool", "max", "min",
    "abs", "ord", "chr", "hash", "id", "callable", "print", "format", "any", "all", "sum",
    "hasattr", "type", "range", "round", "divmod", "bytes",
}
CONTAINER_BUILTINS = {"list", "tuple", "dict", "set", "frozenset", "sorted", "reversed",
                      "enumerate", "zip", "iter", "next", "map", "filter"}
FORBIDDEN_CALLS = {"exec", "eval", "setattr", "delattr", "globals", "locals", "vars",
                   "__import__", "compile"}
FORBIDDEN_DEFS = {"__setattr__", "__getattr__", "__getattribute__", "__delattr__",
                  "__set__", "__init_subclass__", "__class_getitem__"}
FORBIDDEN_IMPORTS = {"threading", "_thread", "multiprocessing", "concurrent", "asyncio",
                     "importlib", "ctypes", "gc", "inspect", "weakref", "atexit", "signal"}
FORBIDDEN_DECORATORS = {"cache", "lru_cache", "cached_property", "singledispatch"}


def src_of(node: ast.AST) -> str:
    try:
        s = ast.unparse(node)
    except Exception:  # pragma: no cover
        s = "<expr>"
    s = " ".join(s.split())
    return s if len(s) <= 110 else s[:107] + "..."


# ======================================================================================
# program model
# ======================================================================================
class Func:
    def __init__(self, key, module, cls, qual, node, parent=None):
        self.key: str = key            # 'c_parser.CParser.parse'
        self.module: "Module" = module
        self.cls: Optional["Class"] = cls   # class whose method this is (also for nested functions)
        self.qual: str = qual          # 'CParser.parse' (name in core.Source index)
        self.node = node
        self.parent: Optional[Func] = parent
        self.nested: Dict[str, Func] = {}
        self.is_module = isinstance(node, ast.Module)
        a = getattr(node, "args", None)
        self.params: List[str] = []
        self.defaults: Dict[str, ast.AST] = {}
        self.annotations: Dict[str, ast.AST] = {}
        self.vararg = self.kwarg = None
        self.decorators: List[str] = []
        if a is not None:
            pos = list(a.posonlyargs) + list(a.args)
            self.params = [x.arg for x in pos] + [x.arg for x in a.kwonlyargs]
            for x, d in zip(pos[len(pos) - len(a.defaults):], a.defaults):
                self.defaults[x.arg] = d
            for x, d in zip(a.kwonlyargs, a.kw_defaults):
                if d is not None:
                    self.defaults[x.arg] = d
            for x in pos + list(a.kwonlyargs):
                if x.annotation is not None:
                    self.annotations[x.arg] = x.annotation
            self.n_positional = len(pos)
            self.vararg = a.vararg.arg if a.vararg else None
            self.kwarg = a.kwarg.arg if a.kwarg else None
            for d in node.decorator_list:
                self.decorators.append(src_of(d))
        self.is_method = (cls is not None and parent is None and not self.is_module
                          and "staticmethod" not in self.decorators)
        self.is_property = "property" in self.decorators
        self.self_name: Optional[str] = self.params[0] if (self.is_method and self.params) else None
        if parent is not None and parent.self_name and parent.self_name not in self.params:
            self.self_name = parent.self_name   # closure over the enclosing method's receiver

    @property
    def name(self) -> str:
        return self.qual.rsplit(".", 1)[-1]

    @property
    def file(self) -> str:
        return self.module.rel

    def where(self, node) -> str:
        return f"{self.module.rel}:{getattr(node, 'lineno', '?')}"

    def __repr__(self):
        return f"<Func {self.key}>"


class Class:
    def __init__(self, key, module, node):
        self.key: str = key
        self.module: Module = module
        self.name: str = node.name
        self.node = node
        self.base_exprs = node.bases
        self.bases: List[Class] = []
        self.methods: Dict[str, Func] = {}
        self.attrs: Dict[str, ast.AST] = {}       # class-level bindings with a value
        self.decorators = [src_of(d) for d in node.decorator_list]
        self.is_dataclass = any(d.split("(")[0].endswith("dataclass") for d in self.decorators)
        self.dc_fields: List[str] = []            # annotated names (dataclass fields, in order)

    def mro(self) -> List["Class"]:
        out, todo = [], [self]
        while todo:
            c = todo.pop(0)
            if c not in out:
                out.append(c)
                todo += c.bases
        return out

    def find_method(self, name) -> Optional[Func]:
        for c in self.mro():
            if name in c.methods:
                return c.methods[name]
        return None

    def find_attr(self, name) -> Optional[Tuple["Class", ast.AST]]:
        for c in self.mro():
            if name in c.attrs:
                return c, c.attrs[name]
        return None

    def is_subclass_of(self, key: str) -> bool:
        return any(c.key == key for c in self.mro())


class Module:
    def __init__(self, name, rel):
        self.name = name
        self.rel = rel
        self.source = core.Source.get(rel)
        self.tree = self.source.tree
        self.funcs: Dict[str, Func] = {}
        self.classes: Dict[str, Class] = {}
        self.data: Dict[str, List[ast.AST]] = {}        # module-level data names -> value exprs
        self.imports: Dict[str, Tuple[str, Optional[str]]] = {}  # local name -> (module, name|None)
        self.body_func: Optional[Func] = None


class Program:
    """The six modules of the current tree."""

    def __init__(self):
        self.modules: Dict[str, Module] = {}
        self.funcs: Dict[str, Func] = {}
        self.classes: Dict[str, Class] = {}
        self.missing: List[str] = []
        for name, rel in MODULE_FILES.items():
            if not os.path.exists(os.path.join(core.REPO, rel)):
                self.missing.append(rel)
                continue
            m = Module(name, rel)
            self.modules[name] = m
            self._index_module(m)
        for c in self.classes.values():
            for b in c.base_exprs:
                t = self.resolve_static(c.module, b)
                if t and t[0] == "class":
                    c.bases.append(t[1])
        self.node_base = self.classes.get("c_ast.Node")

    # ---- indexing -----------------------------------------------------------------
    def _index_module(self, m: Module):
        m.body_func = Func(f"{m.name}.<module>", m, None, "<module>", m.tree)
        self.funcs[m.body_func.key] = m.body_func
        self._index_body(m, m.tree.body, None, "", None)

    def _index_body(self, m, body, cls, prefix, parent):
        for st in body:
            if isinstance(st, (ast.FunctionDef, ast.AsyncFunctionDef)):
                q = prefix + st.name
                f = Func(f"{m.name}.{q}", m, cls, q, st, parent)
                self.funcs.setdefault(f.key, f)
                if parent is not None:
                    parent.nested[st.name] = f
                elif cls is not None:
                    cls.methods.setdefault(st.name, f)
                else:
                    m.funcs.setdefault(st.name, f)
                self._index_nested(m, st.body, cls, q + ".", f)
            elif isinstance(st, ast.ClassDef) and parent is None:
                q = prefix + st.name
                c = Class(f"{m.name}.{q}", m, st)
                self.classes[c.key] = c
                if cls is None:
                    m.classes[st.name] = c
                self._index_body(m, st.body, c, q + ".", None)
            elif isinstance(st, (ast.Import, ast.ImportFrom)) and cls is None and parent is None:
                self._index_import(m, st)
            elif isinstance(st, (ast.Assign, ast.AnnAssign, ast.AugAssign)) and parent is None:
                targets = st.targets if isinstance(st, ast.Assign) else [st.target]
                value = st.value
                for t in targets:
                    for nm in _target_names(t):
                        if cls is not None:
                            if value is not None:
                                cls.attrs[nm] = value
                            if isinstance(st, ast.AnnAssign):
                                cls.dc_fields.append(nm)
                        elif value is not None:
                            m.data.setdefault(nm, []).append(value)
            elif isinstance(st, (ast.If, ast.For, ast.While, ast.With, ast.Try)) and parent is None:
                if cls is None:
                    for t in _stored_names(st):
                        m.data.setdefault(t, [])
                for blk in _blocks(st):
                    self._index_body(m, blk, cls, prefix, parent)

    def _index_nested(self, m, body, cls, prefix, parent):
        for st in body:
            if isinstance(st, (ast.FunctionDef, ast.AsyncFunctionDef)):
                q = prefix + st.name
                f = Func(f"{m.name}.{q}", m, cls, q, st, parent)
                self.funcs.setdefault(f.key, f)
                parent.nested[st.name] = f
                self._index_nested(m, st.body, cls, q + ".", f)
            else:
                for blk in _blocks(st):
                    self._index_nested(m, blk, cls, prefix, parent)

    def _index_import(self, m, st):
        if isinstance(st, ast.Import):
            for a in st.names:
                m.imports[(a.asname or a.name).split(".")[0]] = ("ext:" + a.name, None)
        else:
            base = st.module or ""
            for a in st.names:
                local = a.asname or a.name
                if st.level and st.level > 0:
                    if base == "":
                        m.imports[local] = (a.name, None)            # from . import c_ast
                    else:
                        m.imports[local] = (base, a.name)            # from .c_lexer import CLexer
                else:
                    m.imports[local] = ("ext:" + base, a.name)

    # ---- static resolution of a Name/Attribute chain to module/class/func/data ------
    def lookup_global(self, m: Module, name: str):
        """-> ('func',Func)|('class',Class)|('data',Module,name)|('module',name)|('ext',desc)|None"""
        if name in m.funcs:
            return ("func", m.funcs[name])
        if name in m.classes:
            return ("class", m.classes[name])
        if name in m.data:
            return ("data", m, name)
        if name in m.imports:
            mod, nm = m.imports[name]
            if mod.startswith("ext:"):
                return ("ext", mod[4:] + ("." + nm if nm else ""))
            if nm is None:
                if mod in self.modules:
                    return ("module", mod)
                return ("ext", mod)
            if mod in self.modules:
                return self.lookup_global(self.modules[mod], nm) or ("ext", f"{mod}.{nm}")
            return ("ext", f"{mod}.{nm}")
        return None

    def resolve_static(self, m: Module, e: ast.AST):
        if isinstance(e, ast.Name):
            return self.lookup_global(m, e.id)
        if isinstance(e, ast.Attribute):
            b = self.resolve_static(m, e.value)
            if b and b[0] == "module":
                return self.lookup_global(self.modules[b[1]], e.attr)
        return None

    # ---- helpers --------------------------------------------------------------------
    def real_functions(self) -> List[Func]:
        return [f for f in self.funcs.values() if not f.is_module]

    def funcinfo(self, f: Func) -> Optional[core.FuncInfo]:
        if f.is_module:
            return None
        if f.module.source.has(f.qual):
            return f.module.source.func(f.qual)
        return None

    def is_node_class(self, c: Class) -> bool:
        return c.module.name == "c_ast" and c.is_subclass_of("c_ast.Node")


def _target_names(t) -> List[str]:
    if isinstance(t, ast.Name):
        return [t.id]
    if isinstance(t, (ast.Tuple, ast.List)):
        out = []
        for e in t.elts:
            out += _target_names(e)
        return out
    if isinstance(t, ast.Starred):
        return _target_names(t.value)
    return []


def _blocks(st) -> List[List[ast.stmt]]:
    out = []
    for fld in ("body", "orelse", "finalbody"):
        b = getattr(st, fld, None)
        if isinstance(b, list) and b and isinstance(b[0], ast.stmt):
            out.append(b)
    for h in getattr(st, "handlers", []) or []:
        out.append(h.body)
    for c in getattr(st, "cases", []) or []:
        out.append(c.body)
    return out


def _stored_names(st) -> Set[str]:
    out = set()
    for n in ast.walk(st):
        if isinstance(n, ast.Name) and isinstance(n.ctx, ast.Store):
            out.add(n.id)
    return out


def local_names(fn_node) -> Set[str]:
    """Names bound in the function's own scope (not descending into nested defs/lambdas/classes;
    comprehension variables have their own scope and are handled where they occur)."""
    out: Set[str] = set()
    nonlocal_: Set[str] = set()

    def walk(n):
        for ch in ast.iter_child_nodes(n):
            if isinstance(ch, (ast.FunctionDef, ast.AsyncFunctionDef, ast.ClassDef)):
                out.add(ch.name)
                continue
            if isinstance(ch, (ast.Lambda, ast.ListComp, ast.SetComp, ast.DictComp, ast.GeneratorExp)):
                # walrus targets inside comprehensions bind in the enclosing scope
                for x in ast.walk(ch):
                    if isinstance(x, ast.NamedExpr) and isinstance(x.target, ast.Name):
                        out.add(x.target.id)
                continue
            if isinstance(ch, ast.Name) and isinstance(ch.ctx, (ast.Store, ast.Del)):
                out.add(ch.id)
            elif isinstance(ch, (ast.Nonlocal, ast.Global)):
                nonlocal_.update(ch.names)
            elif isinstance(ch, ast.ExceptHandler) and ch.name:
                out.add(ch.name)
            elif isinstance(ch, (ast.Import, ast.ImportFrom)):
                for a in ch.names:
                    out.add((a.asname or a.name).split(".")[0])
            elif isinstance(ch, (ast.MatchAs, ast.MatchStar)) and ch.name:
                out.add(ch.name)
            elif isinstance(ch, ast.MatchMapping) and ch.rest:
                out.add(ch.rest)
            walk(ch)

    walk(fn_node)
    return out - nonlocal_


def declared_nonlocals(fn_node) -> Set[str]:
    out: Set[str] = set()
    for n in ast.walk(fn_node):
        if isinstance(n, ast.Nonlocal):
            out.update(n.names)
    return out


# ======================================================================================
# forbidden constructs (the subset for which the analysis is complete)
# ======================================================================================
def forbidden_constructs(prog: Program) -> List[Tuple[str, str]]:
    """[(file:line, description)] of constructs that would defeat the analysis."""
    found = []
    for m in prog.modules.values():
        for n in ast.walk(m.tree):
            w = f"{m.rel}:{getattr(n, 'lineno', '?')}"
            if isinstance(n, ast.Global):
                found.append((w, f"`global {', '.join(n.names)}` statement"))
            elif isinstance(n, ast.Call):
                f = n.func
                nm = f.id if isinstance(f, ast.Name) else (f.attr if isinstance(f, ast.Attribute) else None)
                if nm in FORBIDDEN_CALLS and (isinstance(f, ast.Name) or nm in ("__import__",)):
                    found.append((w, f"call of `{nm}`: {src_of(n)}"))
                if isinstance(f, ast.Attribute) and f.attr in ("__setattr__", "__dict__", "__setitem__") \
                        and f.attr != "__setitem__":
                    found.append((w, f"reflective write `{src_of(n)}`"))
            elif isinstance(n, ast.Attribute) and n.attr in ("__dict__", "__globals__", "__builtins__",
                                                              "__code__", "__closure__"):
                found.append((w, f"reflective attribute `{src_of(n)}`"))
            elif isinstance(n, (ast.Import, ast.ImportFrom)):
                names = [a.name for a in n.names] if isinstance(n, ast.Import) else [n.module or ""]
                for x in names:
                    if x.split(".")[0] in FORBIDDEN_IMPORTS:
                        found.append((w, f"import of `{x}`"))
                if isinstance(n, ast.ImportFrom) and (n.module or "") == "functools":
                    for a in n.names:
                        if a.name in FORBIDDEN_DECORATORS:
                            found.append((w, f"import of functools.{a.name}"))
            elif isinstance(n, (ast.FunctionDef, ast.AsyncFunctionDef)):
                if n.name in FORBIDDEN_DEFS:
                    found.append((w, f"definition of `{n.name}`"))
                for d in n.decorator_list:
                    s = src_of(d)
                    if s.split("(")[0].split(".")[-1] in FORBIDDEN_DECORATORS:
                        found.append((w, f"memoising decorator `@{s}` on {n.name}"))
            elif isinstance(n, ast.AsyncFunctionDef):
                found.append((w, "async function"))
            elif isinstance(n, ast.ClassDef):
                for k in n.keywords:
                    if k.arg == "metaclass":
                        found.append((w, f"metaclass on class {n.name}"))
    return found


# ======================================================================================
# generic forward flow engine over structured statements
# ======================================================================================
class Flow:
    """Abstract interpreter skeleton.  A state of None means 'unreachable'.  Sub-classes provide
    join/same and the transfer hooks.  Hooks may be called several times for one statement
    (loop fixpoints); anything they record must be idempotent."""

    MAX_ITERS = 16

    def __init__(self):
        self.returns: List[Tuple[ast.AST, Any]] = []
        self.raises: List[Tuple[ast.AST, Any]] = []
        self._breaks: List[List[Any]] = []
        self._conts: List[List[Any]] = []
        self._try_acc: List[Any] = []
        self.fell_off_end = None
        self.diverged: List[str] = []

    # ---- to be provided -------------------------------------------------------------
    def join(self, a, b):
        raise NotImplementedError

    def same(self, a, b) -> bool:
        return a == b

    def do_simple(self, node, st):
        return st

    def do_test(self, expr, st):
        return st, st

    def do_iter(self, node, st):
        return st

    def do_bind_iter(self, node, st):
        return st

    def do_return(self, node, st):
        return st

    def do_raise(self, node, st):
        return st

    def do_subject(self, node, st):
        return st

    def do_case(self, node, case, st):
        return st, st

    def do_with(self, node, st):
        return st

    def do_handler(self, handler, st):
        return st

    # ---- engine -----------------------------------------------------------------------
    def join_all(self, states):
        out = None
        for s in states:
            if s is None:
                continue
            out = s if out is None else self.join(out, s)
        return out

    def run(self, body: List[ast.stmt], st):
        out = self.block(body, st)
        self.fell_off_end = out
        return out

    def block(self, stmts, st):
        for s in stmts:
            if st is None:
                break
            st = self.stmt(s, st)
            if self._try_acc and st is not None:
                self._try_acc[-1] = self.join_all([self._try_acc[-1], st])
        return st

    @staticmethod
    def const_truth(e) -> Optional[bool]:
        if isinstance(e, ast.Constant):
            return bool(e.value)
        return None

    def test(self, e, st):
        if st is None:
            return None, None
        t, f = self.do_test(e, st)
        c = self.const_truth(e)
        if c is True:
            f = None
        elif c is False:
            t = None
        return t, f

    def stmt(self, s, st):
        if isinstance(s, ast.If):
            t, f = self.test(s.test, st)
            a = self.block(s.body, t) if t is not None else None
            b = self.block(s.orelse, f) if f is not None else None
            return self.join_all([a, b])
        if isinstance(s, ast.While):
            return self._loop(s, st, is_for=False)
        if isinstance(s, (ast.For, ast.AsyncFor)):
            st = self.do_iter(s, st)
            return self._loop(s, st, is_for=True)
        if isinstance(s, ast.Return):
            st = self.do_return(s, st)
            self.returns.append((s, st))
            return None
        if isinstance(s, ast.Raise):
            st = self.do_raise(s, st)
            self.raises.append((s, st))
            return None
        if isinstance(s, ast.Break):
            if self._breaks:
                self._breaks[-1].append(st)
            return None
        if isinstance(s, ast.Continue):
            if self._conts:
                self._conts[-1].append(st)
            return None
        if isinstance(s, ast.Match):
            st = self.do_subject(s, st)
            outs = []
            rem = st
            for c in s.cases:
                if rem is None:
                    break
                m, nm = self.do_case(s, c, rem)
                if c.guard is not None and m is not None:
                    m, gf = self.test(c.guard, m)
                    nm = self.join_all([nm, gf])
                elif _irrefutable(c.pattern):
                    nm = None
                if m is not None:
                    outs.append(self.block(c.body, m))
                rem = nm
            outs.append(rem)
            return self.join_all(outs)
        if isinstance(s, (ast.With, ast.AsyncWith)):
            st = self.do_with(s, st)
            return self.block(s.body, st)
        if isinstance(s, ast.Try) or s.__class__.__name__ == "TryStar":
            self._try_acc.append(st)
            b = self.block(s.body, st)
            anywhere = self._try_acc.pop()
            if self._try_acc:
                self._try_acc[-1] = self.join_all([self._try_acc[-1], anywhere])
            outs = []
            if b is not None:
                outs.append(self.block(s.orelse, b))
            for h in s.handlers:
                hs = self.do_handler(h, anywhere)
                outs.append(self.block(h.body, hs))
            out = self.join_all(outs)
            if s.finalbody:
                out = self.block(s.finalbody, out if out is not None else anywhere)
            return out
        return self.do_simple(s, st)

    def _loop(self, s, st, is_for):
        head = st
        f = None
        br: List[Any] = []
        for it in range(self.MAX_ITERS + 1):
            if is_for:
                t, f = (self.do_bind_iter(s, head), head) if head is not None else (None, None)
            else:
                t, f = self.test(s.test, head)
            self._breaks.append([])
            self._conts.append([])
            out = self.block(s.body, t) if t is not None else None
            br = self._breaks.pop()
            co = self._conts.pop()
            new_head = self.join_all([head, out] + co)
            if self.same(new_head, head):
                break
            head = new_head
        else:
            self.diverged.append(f"loop at line {s.lineno} did not stabilise")
        o = self.block(s.orelse, f) if (s.orelse and f is not None) else f
        return self.join_all([o] + br)


def _irrefutable(p) -> bool:
    if isinstance(p, ast.MatchAs):
        return p.pattern is None or _irrefutable(p.pattern)
    if isinstance(p, ast.MatchOr):
        return any(_irrefutable(x) for x in p.patterns)
    return False


# ======================================================================================
# abstract values
# ======================================================================================
E: FrozenSet = frozenset()
IMM = ("imm",)
IMM_TAGS = {"str", "int", "bool", "float", "none", "callable", "class", "module", "bytes", "ext-imm"}
SHARED_KINDS = {"global", "class", "default", "unknown", "module", "clsobj", "lamarg"}
# standard-library calls that change interpreter-wide / process-wide state (a write to shared state like any other)
PROCESS_GLOBAL_MUTATORS = {
    "sys.setrecursionlimit", "sys.settrace", "sys.setprofile", "sys.setswitchinterval", "sys.set_int_max_str_digits",
    "os.chdir", "os.putenv", "os.unsetenv", "os.umask", "locale.setlocale", "random.seed", "warnings.simplefilter",
    "warnings.filterwarnings", "warnings.resetwarnings", "signal.signal", "gc.disable", "gc.enable", "gc.set_threshold",
    "threading.setprofile", "threading.settrace", "decimal.setcontext", "re.purge", "faulthandler.enable", "atexit.register",
    "logging.basicConfig", "logging.disable", "socket.setdefaulttimeout", "tracemalloc.start",
}


def is_fresh(r) -> bool:
    return r[0] == "fresh"


def is_shared(r) -> bool:
    return r[0] in SHARED_KINDS


class Val:
    """May-abstraction of a Python value: roots (what object it may be), reach (what its contents
    may refer to), tags (coarse type), elem (tags of anything contained), fns (what it may call),
    items (element-wise values of a tuple literal), prefix (known string prefix)."""

    __slots__ = ("roots", "reach", "tags", "elem", "fns", "items", "prefix")

    def __init__(self, roots=E, reach=E, tags=E, elem=E, fns=E, items=None, prefix=None):
        self.roots = roots if isinstance(roots, frozenset) else frozenset(roots)
        self.reach = reach if isinstance(reach, frozenset) else frozenset(reach)
        self.tags = tags if isinstance(tags, frozenset) else frozenset(tags)
        self.elem = elem if isinstance(elem, frozenset) else frozenset(elem)
        self.fns = fns if isinstance(fns, frozenset) else frozenset(fns)
        self.items = items
        self.prefix = prefix

    def key(self):
        return (self.roots, self.reach, self.tags, self.elem, self.fns,
                None if self.items is None else tuple(i.key() for i in self.items), self.prefix)

    def __eq__(self, o):
        return isinstance(o, Val) and self.key() == o.key()

    def __hash__(self):
        return hash(self.key())

    def join(self, o: "Val") -> "Val":
        if self is o:
            return self
        items = None
        if self.items is not None and o.items is not None and len(self.items) == len(o.items):
            items = tuple(a.join(b) for a, b in zip(self.items, o.items))
        elif self.items is None and self.tags == {"none"}:
            items = o.items          # None cannot be destructured: the other side decides
        elif o.items is None and o.tags == {"none"}:
            items = self.items
        return Val(self.roots | o.roots, self.reach | o.reach, self.tags | o.tags,
                   self.elem | o.elem, self.fns | o.fns, items,
                   self.prefix if self.prefix == o.prefix else None)

    def with_(self, **kw) -> "Val":
        d = dict(roots=self.roots, reach=self.reach, tags=self.tags, elem=self.elem,
                 fns=self.fns, items=self.items, prefix=self.prefix)
        d.update(kw)
        return Val(**d)

    def all_tags(self):
        """tags of the value and of everything it may contain (any depth), without depth marks"""
        return self.tags | frozenset(t[3:] if t.startswith("in:") else t for t in self.elem)

    def as_elem(self):
        """what this value contributes to the `elem` of a container it is put into"""
        return self.tags | frozenset(t if t.startswith("in:") else "in:" + t for t in self.elem)

    def everything(self):
        """roots and reach that are not immutable"""
        return frozenset(r for r in (self.roots | self.reach) if r != IMM)

    def __repr__(self):
        return f"Val(roots={sorted(map(str, self.roots))}, reach={sorted(map(str, self.reach))}, tags={sorted(self.tags)}, elem={sorted(self.elem)}, fns={len(self.fns)})"


V_NONE = Val({IMM}, tags={"none"})
V_STR = Val({IMM}, tags={"str"})
V_INT = Val({IMM}, tags={"int"})
V_BOOL = Val({IMM}, tags={"bool"})
V_FLOAT = Val({IMM}, tags={"float"})
V_EMPTY = Val()


def v_unknown(why: str) -> Val:
    return Val({("unknown", why)}, tags={"unknown"})


def imm_norm(v: Val) -> Val:
    """A value that is definitely immutable cannot be written through: forget what it aliases."""
    if v.tags and v.tags <= IMM_TAGS and not (v.roots <= {IMM} and not v.reach):
        if any(r[0] in ("clsobj", "module") for r in v.roots):
            return v
        return Val({IMM}, E, v.tags, v.elem, v.fns, v.items, v.prefix)
    return v


def join_vals(vs) -> Val:
    out = None
    for v in vs:
        out = v if out is None else out.join(v)
    return out if out is not None else V_EMPTY


def deepen(r, fld: str):
    k = r[0]
    if k == "self":
        return r if r[1] is not None else ("self", fld)
    if k == "param":
        return r if r[2] is not None else ("param", r[1], fld)
    if k in ("module", "clsobj"):
        return ("unknown", "contents of module/class object")
    return r


_EMPTY_SHARED = [lambda r: False]


def contents(v: Val, fld: str = "[]") -> FrozenSet:
    """Roots of what may be loaded out of v.  A mutable default-argument object that is created
    empty and into which no analysed code ever stores anything has no contents."""
    return frozenset(deepen(r, fld) for r in v.roots
                     if not is_fresh(r) and r != IMM and not (r[0] == "default" and _EMPTY_SHARED[0](r))) | v.reach


def strip_fresh(v: Val) -> Val:
    """Normal form used in summaries: allocation sites are forgotten."""
    def nr(rs):
        return frozenset(("fresh",) if is_fresh(r) else r for r in rs)
    fns = frozenset((t[0], t[1], nr(t[2])) if (t[0] == "func" and t[2] is not None) else t for t in v.fns)
    items = None if v.items is None else tuple(strip_fresh(i) for i in v.items)
    return Val(nr(v.roots), nr(v.reach), v.tags, v.elem, fns, items, v.prefix)


class Site:
    """One write.  `unc` (uncertain): the written object was only partly resolved (the same access
    may also hit an unknown object), so the location is a may-guess rather than a finding."""
    __slots__ = ("where", "expr", "loc", "how", "lineno", "unc")

    def __init__(self, where, expr, loc, how, lineno, unc=False):
        self.where, self.expr, self.loc, self.how, self.lineno, self.unc = where, expr, loc, how, lineno, unc

    def key(self):
        return (self.where, self.expr, self.loc, self.how)

    def __repr__(self):
        return f"{self.where}: `{self.expr}` writes {self.loc} ({self.how})"


class CallTarget:
    """One resolved target of a call expression."""
    __slots__ = ("kind", "func", "cls", "recv", "recv_kind", "argmap", "desc")

    def __init__(self, kind, func=None, cls=None, recv=None, recv_kind="none", argmap=None, desc=""):
        self.kind = kind            # 'func' | 'ctor' | 'ext' | 'builtin' | 'mutator' | 'lambda' | 'paramcall' | 'unknown'
        self.func: Optional[Func] = func
        self.cls: Optional[Class] = cls
        self.recv = recv
        self.recv_kind = recv_kind  # 'self' | 'field' | 'foot' | 'other' | 'none'
        self.argmap = argmap or {}  # param name -> arg expr (ast) for func/ctor targets
        self.desc = desc


class Summary:
    def __init__(self):
        self.mod: Dict[str, Dict[Tuple, Site]] = {}
        self.ret: Val = V_EMPTY
        self.param_reach: Dict[str, FrozenSet] = {}
        self.reads: Set[str] = set()

    def sig(self):
        return (frozenset(self.mod), self.ret.key(),
                frozenset((k, v) for k, v in self.param_reach.items()))


class FieldStore:
    __slots__ = ("cls", "field", "val", "func", "node", "kind", "expr")

    def __init__(self, cls, field, val, func, node, kind, expr):
        self.cls, self.field, self.val, self.func, self.node, self.kind, self.expr = \
            cls, field, val, func, node, kind, expr   # kind: 'bind' | 'content'


def parse_loc(loc: str):
    """'self:C.f' -> ('self','C',['f']) ; 'param:p.g.*' -> ('param','p',['g','*'])"""
    kind, _, rest = loc.partition(":")
    parts = rest.split(".")
    return kind, parts[0], parts[1:]


# ======================================================================================
# declared frames (data lives in contracts/frames.py)
# ======================================================================================
import fnmatch as _fnmatch


class FrameSpec:
    def __init__(self, frames_module):
        self.m = frames_module
        self.frames = list(frames_module.FRAMES)
        self.forbidden = list(frames_module.FORBIDDEN_LOCS)
        self._cache: Dict[str, List[str]] = {}

    def declared(self, funckey: str) -> List[str]:
        if funckey not in self._cache:
            out = None
            for pat, locs in self.frames:
                if _fnmatch.fnmatchcase(funckey, pat):
                    out = list(locs)
                    break
            self._cache[funckey] = out if out is not None else []
        return self._cache[funckey]

    def is_forbidden(self, loc: str) -> bool:
        return any(_fnmatch.fnmatchcase(loc, g) for g in self.forbidden)

    def allows(self, funckey: str, loc: str) -> bool:
        if self.is_forbidden(loc):
            return False
        return any(_fnmatch.fnmatchcase(loc, g) for g in self.declared(funckey))


# ======================================================================================
# the whole-program effect analysis (fixpoint driver and global tables)
# ======================================================================================
class Analysis:
    def __init__(self, prog: Program, frames: FrameSpec):
        self.prog = prog
        self.frames = frames
        self.summ: Dict[str, Summary] = {}
        self.fieldvals: Dict[Tuple[str, str], Val] = {}
        self.paramvals: Dict[Tuple[str, str], Val] = {}
        self.modvals: Dict[Tuple[str, str], Val] = {}
        self.anyenv: Dict[str, Dict[str, Val]] = {}
        # tables of the previous phase (read) -- the ones above are (re)written in the current phase
        self.r_fieldvals = self.fieldvals
        self.r_paramvals = self.paramvals
        self.r_modvals = self.modvals
        self.entry_params: Set[Tuple[str, str]] = set()   # parameters nothing analysed ever passes a value to
        self.phases = 0
        self.results: Dict[str, "Effects"] = {}
        self.changed = False
        self.iterations = 0
        self.stored_into: Set[Tuple] = set()      # shared roots into which some site stores a value
        self.r_stored_into = self.stored_into
        _EMPTY_SHARED[0] = self.is_empty_shared
        self.subclasses: Dict[str, List[Class]] = {}
        for c in prog.classes.values():
            for b in c.mro()[1:]:
                self.subclasses.setdefault(b.key, []).append(c)
        self.methods_by_name: Dict[str, List[Func]] = {}
        for c in prog.classes.values():
            for n, f in c.methods.items():
                self.methods_by_name.setdefault(n, []).append(f)
        # syntactic: instance fields = attribute stores on the receiver name
        self.inst_fields: Dict[str, Dict[str, List[Tuple[Func, ast.AST]]]] = {}
        for f in prog.real_functions():
            if f.cls is None or f.self_name is None:
                continue
            own = _own_nodes(f.node)
            for n in own:
                if isinstance(n, ast.Attribute) and isinstance(n.ctx, (ast.Store, ast.Del)) \
                        and isinstance(n.value, ast.Name) and n.value.id == f.self_name:
                    self.inst_fields.setdefault(f.cls.key, {}).setdefault(n.attr, []).append((f, n))

    # ---- tables ---------------------------------------------------------------------
    def merge(self, table: Dict, key, val: Val):
        old = table.get(key)
        if old is None:
            table[key] = val
            self.changed = True
        else:
            new = old.join(val)
            if new != old:
                table[key] = new
                self.changed = True

    def is_empty_shared(self, r) -> bool:
        if r in self.r_stored_into or r[0] != "default":
            return False
        f = self.prog.funcs.get(r[1])
        e = f.defaults.get(r[2]) if f is not None else None
        if isinstance(e, (ast.List, ast.Set, ast.Tuple)):
            return not e.elts
        if isinstance(e, ast.Dict):
            return not e.keys
        if isinstance(e, ast.Call) and isinstance(e.func, ast.Name) and e.func.id in ("list", "dict", "set") \
                and not e.args and not e.keywords:
            return True
        return False

    def family(self, cls: Class) -> List[Class]:
        return cls.mro() + self.subclasses.get(cls.key, [])

    def field_sites(self, cls: Class, fld: str):
        out = []
        for c in self.family(cls):
            out += self.inst_fields.get(c.key, {}).get(fld, [])
        return out

    def field_val(self, cls: Class, fld: str) -> Optional[Val]:
        out = None
        for c in self.family(cls):
            v = self.r_fieldvals.get((c.key, fld))
            if v is not None:
                out = v if out is None else out.join(v)
        return out

    # ---- driver ---------------------------------------------------------------------
    def run(self, max_rounds: int = 80):
        """Phased chaotic iteration.

        Within a phase the per-function summaries start from bottom and are accumulated (monotone,
        hence terminating) over the call graph, while the inter-procedural tables (values of fields,
        parameters, module globals; entry parameters) accumulate across phases.  A value whose type
        is not known YET (parameter nothing has been passed to so far, callee without summary) is
        bottom and yields bottom.  Facts derived in a phase while the tables were still incomplete
        could survive in recursive cycles; therefore a phase whose tables changed is followed by
        another one that recomputes all summaries from bottom under the now complete tables.  The
        result is the least fixpoint of the summaries under the final tables."""
        order = sorted(self.prog.funcs.values(), key=lambda f: (f.module.name, f.node.lineno if not f.is_module else 0, f.key))
        total = 0
        for phase in range(12):
            self.phases = phase + 1
            self.summ, self.results = {}, {}
            before = (self._tkey(self.fieldvals), self._tkey(self.paramvals), self._tkey(self.modvals),
                      set(self.stored_into), set(self.entry_params),
                      {k: {n: v.key() for n, v in d.items()} for k, d in self.anyenv.items()})
            for rnd in range(max_rounds):
                self.changed = False
                total += 1
                for f in order:
                    e = Effects(self, f)
                    e.analyse()
                    self.results[f.key] = e
                    s = self.summ.get(f.key)
                    new = e.summary()
                    if s is not None:
                        for loc, sites in s.mod.items():
                            d = new.mod.setdefault(loc, {})
                            for k, v in sites.items():
                                d.setdefault(k, v)
                        new.ret = s.ret.join(new.ret)
                        for p, r in s.param_reach.items():
                            new.param_reach[p] = new.param_reach.get(p, E) | r
                    if s is None or s.sig() != new.sig():
                        self.changed = True
                    self.summ[f.key] = new
                if rnd == 0 and phase == 0:
                    order = self._callee_first_order(order)
                if not self.changed:
                    break
            else:
                raise RuntimeError("FX effect fixpoint did not converge")
            for f in self.prog.real_functions():
                e = self.results.get(f.key)
                for p in (e.bottom_params if e is not None else ()):
                    self.entry_params.add((f.key, p))
            after = (self._tkey(self.fieldvals), self._tkey(self.paramvals), self._tkey(self.modvals),
                     set(self.stored_into), set(self.entry_params),
                     {k: {n: v.key() for n, v in d.items()} for k, d in self.anyenv.items()})
            if after == before:
                break
        else:
            raise RuntimeError("FX effect fixpoint did not converge (tables)")
        # the sites reported for a function are those of its last analysis under the final summaries
        self.iterations = total
        return self

    @staticmethod
    def _tkey(t: Dict) -> Dict:
        return {k: v.key() for k, v in t.items()}

    def _callee_first_order(self, order: List[Func]) -> List[Func]:
        """Strongly connected components of the call graph seen in the last phase, callees first."""
        edges: Dict[str, List[str]] = {}
        for f in order:
            e = self.results.get(f.key)
            out = []
            if e is not None:
                for ts in e.calls.values():
                    for t in ts:
                        if t.func is not None:
                            out.append(t.func.key)
            for n in f.nested.values():
                out.append(n.key)
            edges[f.key] = sorted(set(out))
        index, low, onstack, stack, comps = {}, {}, set(), [], []
        counter = [0]
        for root in [f.key for f in order]:
            if root in index:
                continue
            work = [(root, 0)]
            while work:
                v, i = work.pop()
                if i == 0:
                    index[v] = low[v] = counter[0]
                    counter[0] += 1
                    stack.append(v)
                    onstack.add(v)
                succ = edges.get(v, [])
                recurse = False
                while i < len(succ):
                    w = succ[i]
                    i += 1
                    if w not in index:
                        work.append((v, i))
                        work.append((w, 0))
                        recurse = True
                        break
                    if w in onstack:
                        low[v] = min(low[v], index[w])
                if recurse:
                    continue
                if low[v] == index[v]:
                    comp = []
                    while True:
                        w = stack.pop()
                        onstack.discard(w)
                        comp.append(w)
                        if w == v:
                            break
                    comps.append(sorted(comp))
                if work:
                    p = work[-1][0]
                    low[p] = min(low[p], low[v])
        pos = {f.key: i for i, f in enumerate(order)}
        out = []
        for comp in comps:            # Tarjan emits callees before callers
            for k in sorted(comp, key=lambda k: pos.get(k, 0)):
                if k in self.prog.funcs:
                    out.append(self.prog.funcs[k])
        mods = [f for f in out if f.is_module]
        return mods + [f for f in out if not f.is_module]


def _own_nodes(fn_node):
    """All AST nodes of a function body, not descending into nested function/class definitions
    (lambdas and comprehensions are included)."""
    out = []
    todo = list(ast.iter_child_nodes(fn_node))
    while todo:
        n = todo.pop()
        out.append(n)
        if isinstance(n, (ast.FunctionDef, ast.AsyncFunctionDef, ast.ClassDef)):
            continue
        todo.extend(ast.iter_child_nodes(n))
    return out


class St:
    __slots__ = ("env", "assigned")

    def __init__(self, env=None, assigned=E):
        self.env: Dict[str, Val] = env if env is not None else {}
        self.assigned = assigned

    def copy(self):
        return St(dict(self.env), self.assigned)


# ======================================================================================
# EFFECTS pass: one function
# ======================================================================================
class Effects(Flow):
    def __init__(self, A: Analysis, f: Func):
        super().__init__()
        self.A = A
        self.prog = A.prog
        self.f = f
        self.cls = f.cls
        self.m = f.module
        self.locals: Set[str] = set() if f.is_module else (local_names(f.node) | set(f.params))
        if f.vararg:
            self.locals.add(f.vararg)
        if f.kwarg:
            self.locals.add(f.kwarg)
        self.nonlocals = set() if f.is_module else declared_nonlocals(f.node)
        self.sites: Dict[Tuple, Site] = {}
        self.reads: Set[str] = set()
        self.ret: Optional[Val] = None
        self.calls: Dict[int, List[CallTarget]] = {}
        self.call_nodes: Dict[int, ast.Call] = {}
        self.stores: Dict[Tuple, FieldStore] = {}
        self.param_reach: Dict[str, FrozenSet] = {}
        self.any: Dict[str, Val] = {}
        self.unresolved: Dict[Tuple, str] = {}
        self.is_generator = False
        self.bottom_params: Set[str] = set()
        self._subject: Dict[int, Val] = {}
        self._iters: Dict[int, Val] = {}
        self._cur_stmt = None

    # ---- entry ---------------------------------------------------------------------------
    def analyse(self):
        f = self.f
        st = St()
        if not f.is_module:
            for p in f.params + [x for x in (f.vararg, f.kwarg) if x]:
                if f.is_method and p == f.self_name:
                    st.env[p] = self.self_val()
                else:
                    st.env[p] = self.param_val(p)
        for k, v in st.env.items():
            self.any[k] = v
        body = f.node.body
        self.run(body, st)
        if self.fell_off_end is not None and not f.is_module:
            self.ret = V_NONE if self.ret is None else self.ret.join(V_NONE)
        if f.is_module:
            for k, v in self.any.items():
                self.A.merge(self.A.modvals, (self.m.name, k), strip_fresh(v))
        old = self.A.anyenv.get(f.key)
        new = {k: strip_fresh(v) for k, v in self.any.items()}
        if old is None or any(old.get(k) != v for k, v in new.items()):
            self.A.anyenv[f.key] = new
            if f.nested:
                self.A.changed = True
        for fs in self.stores.values():
            v = strip_fresh(fs.val)
            extra = set()
            for r in v.roots | v.reach:
                if r[0] == "param":
                    pv = self.A.r_paramvals.get((self.f.key, r[1]))
                    if pv is not None:
                        extra |= {x for x in pv.roots | pv.reach if is_shared(x) or x[0] in ("foot", "ext")}
            if extra:
                v = v.with_(roots=v.roots | frozenset(extra))
            if fs.kind == "bind":
                self.A.merge(self.A.fieldvals, (fs.cls, fs.field), v)
            else:
                cur = Val(reach=v.everything(), elem=v.as_elem())
                self.A.merge(self.A.fieldvals, (fs.cls, fs.field), cur)

    def summary(self) -> Summary:
        s = Summary()
        for site in self.sites.values():
            s.mod.setdefault(site.loc, {})[site.key()] = site
        s.ret = strip_fresh(self.ret) if self.ret is not None else V_EMPTY
        s.param_reach = dict(self.param_reach)
        s.reads = set(self.reads)
        return s

    # ---- state plumbing ------------------------------------------------------------------
    def join(self, a: St, b: St) -> St:
        env = dict(a.env)
        for k, v in b.env.items():
            o = env.get(k)
            env[k] = v if o is None else (o if o is v else o.join(v))
        return St(env, a.assigned & b.assigned)

    def same(self, a, b) -> bool:
        if a is None or b is None:
            return a is b
        if a.assigned != b.assigned or a.env.keys() != b.env.keys():
            return False
        for k, v in a.env.items():
            w = b.env[k]
            if v is not w and v != w:
                return False
        return True

    # ---- values of parameters / receiver ------------------------------------------------------
    def inst_tags(self, c: Class) -> FrozenSet:
        for k in c.mro():
            for b in k.base_exprs:
                if src_of(b).split(".")[-1] in ("Enum", "IntEnum", "Flag", "IntFlag", "StrEnum"):
                    return frozenset({"ext-imm"})      # enum members are immutable singletons
        t = {"inst:" + c.key}
        if self.prog.is_node_class(c):
            t.add("node")
        alias = getattr(self.A.frames.m, "TAG_ALIASES", {})
        for k in c.mro():
            if k.key in alias:
                t.add(alias[k.key])
        return frozenset(t)

    def self_val(self) -> Val:
        return Val({("self", None)}, tags=self.inst_tags(self.cls) if self.cls else E)

    def ann_val(self, e, depth=0) -> Optional[Val]:
        """Value described by an annotation expression (None = says nothing)."""
        if e is None or depth > 6:
            return None
        if isinstance(e, ast.Constant):
            if e.value is None:
                return V_NONE
            if isinstance(e.value, str):
                try:
                    return self.ann_val(ast.parse(e.value, mode="eval").body, depth + 1)
                except SyntaxError:
                    return None
            return None
        if isinstance(e, ast.BinOp) and isinstance(e.op, ast.BitOr):
            a, b = self.ann_val(e.left, depth + 1), self.ann_val(e.right, depth + 1)
            return None if a is None or b is None else a.join(b)
        if isinstance(e, (ast.Name, ast.Attribute)):
            nm = e.id if isinstance(e, ast.Name) else e.attr
            prim = {"str": V_STR, "int": V_INT, "bool": V_BOOL, "float": V_FLOAT, "None": V_NONE}
            if isinstance(e, ast.Name) and nm in prim:
                return prim[nm]
            g = self.prog.resolve_static(self.m, e)
            if g and g[0] == "class":
                return Val(tags=self.inst_tags(g[1]))
            if nm in ("List", "list", "Sequence"):
                return Val(tags={"list"})
            if nm in ("Dict", "dict", "Mapping"):
                return Val(tags={"dict"})
            if nm in ("Tuple", "tuple"):
                return Val(tags={"tuple"})
            if nm in ("Set", "set", "FrozenSet"):
                return Val(tags={"set"})
            if nm == "Callable":
                return Val(tags={"callable"})
            return None
        if isinstance(e, ast.Subscript):
            head = e.value
            nm = head.id if isinstance(head, ast.Name) else getattr(head, "attr", "")
            if nm == "Optional":
                a = self.ann_val(e.slice, depth + 1)
                return None if a is None else a.join(V_NONE)
            if nm == "Union":
                parts = e.slice.elts if isinstance(e.slice, ast.Tuple) else [e.slice]
                vs = [self.ann_val(p, depth + 1) for p in parts]
                return None if any(v is None for v in vs) else join_vals(vs)
            if nm in ("type", "Type"):
                a = self.ann_val(e.slice, depth + 1)
                if a is not None:
                    ks = [t[5:] for t in a.tags if t.startswith("inst:")]
                    return Val(tags={"class"}, fns={("cls", k) for k in ks})
                return Val(tags={"class"})
            if nm in ("List", "list", "Sequence", "Dict", "dict", "Tuple", "tuple", "Set", "set"):
                base = self.ann_val(head, depth + 1)
                parts = e.slice.elts if isinstance(e.slice, ast.Tuple) else [e.slice]
                inner = [self.ann_val(p, depth + 1) for p in parts]
                if any(v is None for v in inner):
                    return base.with_(elem={"unknown"})
                return base.with_(elem=frozenset().union(*[v.as_elem() for v in inner]) if inner else E)
            if nm in ("Callable",):
                return Val(tags={"callable"})
            if nm in ("ClassVar", "Final"):
                return self.ann_val(e.slice, depth + 1)
            return None
        return None

    def default_val(self, callee: Func, p: str) -> Val:
        e = callee.defaults[p]
        if isinstance(e, ast.Constant):
            return self.const_val(e)
        if isinstance(e, (ast.Name, ast.Attribute)):
            g = self.prog.resolve_static(callee.module, e)
            if g is not None:
                return self.global_val(g, record=False)
            if isinstance(e, ast.Attribute):
                return Val({IMM}, tags={"ext"})
            return Val({IMM}, tags={"callable"}, fns={("builtin", e.id)})
        if isinstance(e, ast.UnaryOp) and isinstance(e.operand, ast.Constant):
            return self.const_val(e.operand)
        if isinstance(e, ast.Tuple) and all(isinstance(x, ast.Constant) for x in e.elts):
            return Val({IMM}, tags={"tuple"})
        tag = {"List": "list", "Dict": "dict", "Set": "set", "ListComp": "list", "DictComp": "dict"}.get(type(e).__name__, "unknown")
        return Val({("default", callee.key, p)}, tags={tag})

    def param_val(self, p: str) -> Val:
        f = self.f
        v = Val({("param", p, None)})
        known = self.ann_val(f.annotations.get(p))
        pv = self.A.r_paramvals.get((f.key, p))
        dv = self.default_val(f, p) if p in f.defaults else None
        tags, elem, fns = E, E, E
        if known is not None:
            tags, elem, fns = known.tags, known.elem, known.fns
        if pv is not None:
            fns |= pv.fns
            if known is None:
                tags |= pv.tags
            elem |= pv.elem
            # what callers pass is represented by the ('param', p, ..) roots and translated back at
            # every call site; nothing of it needs to be known here
        if dv is not None:
            fns |= dv.fns
            if known is None:
                tags |= dv.tags
            v = v.with_(roots=v.roots | frozenset(r for r in dv.roots if r != IMM))
        if not tags:
            if (f.key, p) in self.A.entry_params or f.parent is not None:
                tags = frozenset({"unknown"})
            else:
                self.bottom_params.add(p)       # nothing known yet: bottom
        if tags and tags <= IMM_TAGS:
            v = v.with_(reach=E)
        return v.with_(tags=tags, elem=elem, fns=fns)

    # ---- recording -----------------------------------------------------------------------
    def where(self, node) -> str:
        return f"{self.m.rel}:{getattr(node, 'lineno', getattr(self._cur_stmt, 'lineno', '?'))}"

    def cls_name(self) -> str:
        return self.cls.name if self.cls is not None else "?"

    def loc_of(self, r, attr: Optional[str], kind: str) -> Optional[str]:
        k = r[0]
        if k == "self":
            c = self.cls_name()
            if r[1] is None:
                return f"self:{c}.{attr}" if (kind == "attr" and attr) else f"self:{c}.*"
            return f"self:{c}.{r[1]}.*"
        if k == "foot":
            return "self:<owner>.*"
        if k == "param":
            if r[2] is None:
                return f"param:{r[1]}.{attr}" if (kind == "attr" and attr) else f"param:{r[1]}.*"
            return f"param:{r[1]}.{r[2]}.*"
        if k == "ext":
            return "param:<external>.*"
        if k in ("fresh", "imm"):
            return None
        if k == "global":
            return f"global:{r[1]}.{r[2]}"
        if k == "module":
            return f"global:{r[1]}.{attr or '*'}"
        if k == "class":
            return f"class:{r[1].split('.', 1)[-1]}.{r[2]}"
        if k == "clsobj":
            return f"class:{r[1].split('.', 1)[-1]}.{attr or '*'}"
        if k == "default":
            return f"default:{r[1].split('.', 1)[-1]}.{r[2]}"
        if k == "lamarg":
            return f"unknown:lambda parameter {r[1]}"
        if k == "unknown":
            return f"unknown:{r[1]}"
        return f"unknown:{r!r}"

    def record(self, loc: str, node, how: str, unc: bool = False):
        anchor = node if hasattr(node, "lineno") else self._cur_stmt
        expr = src_of(anchor) if anchor is not None else "?"
        s = Site(self.where(anchor), expr, loc, how, getattr(anchor, "lineno", 0), unc)
        old = self.sites.setdefault(s.key(), s)
        if not unc:
            old.unc = False

    def add_reach(self, st: St, roots: FrozenSet, stored: Val):
        # the target may be the container itself or (roots are collapsed) something inside it
        ev, tags = stored.everything(), stored.as_elem() | frozenset("in:" + t for t in stored.tags)
        rs = frozenset(r for r in roots if r != IMM)
        if not rs or (not ev and not tags):
            return
        for name, val in list(st.env.items()):
            if val.roots & rs:
                nv = val.with_(reach=val.reach | ev, elem=val.elem | tags)
                if nv != val:
                    st.env[name] = nv
                    self.any[name] = self.any[name].join(nv) if name in self.any else nv

    def write(self, st: St, base: Val, node, kind: str, attr: Optional[str] = None,
              stored: Optional[Val] = None, how: str = "direct"):
        unc = any(r[0] in ("unknown", "lamarg") for r in base.roots)
        for r in sorted(base.roots, key=str):
            loc = self.loc_of(r, attr, kind)
            if loc is not None:
                self.record(loc, node, how, unc and r[0] not in ("unknown", "lamarg"))
        if stored is not None:
            for r in base.roots:
                if r[0] == "default" and r not in self.A.stored_into:
                    self.A.stored_into.add(r)
                    self.A.changed = True
            self.add_reach(st, base.roots, stored)
            shared = frozenset(r for r in stored.everything() if is_shared(r))
            for r in base.roots:
                if r[0] == "self" and self.cls is not None:
                    if r[1] is None and kind == "attr" and attr:
                        self.field_store(attr, stored, node, "bind")
                    elif r[1] is not None:
                        self.field_store(r[1], stored, node, "content")
                elif r[0] == "param" and shared:
                    self.param_reach[r[1]] = self.param_reach.get(r[1], E) | shared

    def field_store(self, fld: str, v: Val, node, kind: str):
        anchor = node if hasattr(node, "lineno") else self._cur_stmt
        k = (self.cls.key, fld, kind, getattr(anchor, "lineno", 0), getattr(anchor, "col_offset", 0))
        old = self.stores.get(k)
        if old is None:
            self.stores[k] = FieldStore(self.cls.key, fld, v, self.f, anchor, kind, src_of(self._cur_stmt or anchor))
        else:
            old.val = old.val.join(v)

    def fresh(self, node, **kw) -> Val:
        site = getattr(node, "lineno", 0) * 1000 + getattr(node, "col_offset", 0)
        return Val({("fresh", site)}, **kw)

    # ---- name resolution -----------------------------------------------------------------
    def const_val(self, e: ast.Constant) -> Val:
        v = e.value
        if v is None:
            return V_NONE
        if isinstance(v, bool):
            return V_BOOL
        if isinstance(v, int):
            return V_INT
        if isinstance(v, float):
            return V_FLOAT
        if isinstance(v, str):
            return Val({IMM}, tags={"str"}, prefix=v)
        if isinstance(v, bytes):
            return Val({IMM}, tags={"bytes"})
        return Val({IMM}, tags={"ext-imm"})

    def global_val(self, g, record=True) -> Val:
        k = g[0]
        if k == "func":
            return Val({IMM}, tags={"callable"}, fns={("func", g[1].key, None)})
        if k == "class":
            return Val({("clsobj", g[1].key)}, tags={"class"}, fns={("cls", g[1].key)})
        if k == "module":
            return Val({("module", g[1])}, tags={"module"})
        if k == "ext":
            return Val({IMM}, tags={"ext-imm"}, fns={("ext", g[1])})
        if k == "data":
            m, name = g[1], g[2]
            if record:
                self.reads.add(f"global:{m.name}.{name}")
            mv = self.A.r_modvals.get((m.name, name))
            root = ("global", m.name, name)
            if mv is None:
                return Val({root}, tags={"unknown"})
            imm_only = bool(mv.roots) and mv.roots <= {IMM} and mv.tags <= IMM_TAGS
            roots = set() if imm_only else {root}
            roots |= {r for r in mv.roots if r[0] in ("clsobj", "module") or (imm_only and r == IMM)}
            return Val(roots or {root}, frozenset(r for r in mv.everything() if is_shared(r)),
                       mv.tags or {"unknown"}, mv.elem, mv.fns, None, mv.prefix)
        return v_unknown("global " + str(g))

    def lookup(self, name: str, st: St, node=None) -> Val:
        f = self.f
        if f.is_module:
            if name in st.env:
                v = st.env[name]
                if name in self.m.data:
                    self.reads.add(f"global:{self.m.name}.{name}")
                    if not (v.roots <= {IMM} and v.tags <= IMM_TAGS) and not v.fns:
                        return v.with_(roots=v.roots | {("global", self.m.name, name)})
                return v
        elif name in self.locals and name not in self.nonlocals:
            v = st.env.get(name)
            return v if v is not None else Val({IMM}, tags={"none"})
        else:
            p = f.parent
            while p is not None:
                env = self.A.anyenv.get(p.key, {})
                if name in env:
                    if p.self_name == name and p.is_method:
                        return self.self_val()
                    if name in st.env and name in self.nonlocals:
                        return env[name].join(st.env[name])
                    return env[name]
                p = p.parent
        g = self.prog.lookup_global(self.m, name)
        if g is not None:
            return self.global_val(g)
        return Val({IMM}, tags={"callable"}, fns={("builtin", name)})

    def bind(self, st: St, name: str, v: Val):
        if self.f.is_module and name in self.m.data and not (v.roots <= {IMM} and v.tags <= IMM_TAGS) \
                and not v.fns and not any(r[0] in ("clsobj", "module") for r in v.roots):
            v = v.with_(roots=v.roots | {("global", self.m.name, name)})
        st.env[name] = v
        self.any[name] = self.any[name].join(v) if name in self.any else v
        if self.f.is_module and name in self.m.data:
            pass  # a rebinding of a module-level name at import time

    # ---- attribute loads -----------------------------------------------------------------
    def class_attr_val(self, c: Class, a: str, record=True) -> Val:
        owner, e = c.find_attr(a)
        cname = owner.key
        if record:
            self.reads.add(f"class:{owner.name}.{a}")
        if isinstance(e, ast.Constant):
            return self.const_val(e)
        if isinstance(e, ast.Tuple) and all(isinstance(x, ast.Constant) for x in e.elts):
            return Val({IMM}, tags={"tuple"}, elem={"str"})
        tag = {"Dict": "dict", "List": "list", "Set": "set", "Tuple": "tuple"}.get(type(e).__name__, "unknown")
        return Val({("class", cname, a)}, tags={tag})

    def bound(self, fn: Func, recv: FrozenSet) -> Val:
        return Val({IMM}, tags={"callable"}, fns={("func", fn.key, recv)})

    def self_field(self, a: str, st: St, node) -> Val:
        c = self.cls
        m = c.find_method(a)
        if m is not None:
            if m.is_property:
                return self.apply_callee(st, m, frozenset({("self", None)}), [], {}, node)
            return self.bound(m, frozenset({("self", None)}))
        for sub in self.A.subclasses.get(c.key, []):
            if a in sub.methods:
                return self.bound(sub.methods[a], frozenset({("self", None)}))
        has_inst = bool(self.A.field_sites(c, a))
        has_cls = c.find_attr(a) is not None
        outs = []
        if has_inst:
            fv = self.A.field_val(c, a)
            if fv is None:
                outs.append(Val({("self", a)}))
            else:
                shared = frozenset(r for r in (fv.roots | fv.reach) if is_shared(r))
                outs.append(Val({("self", a)} | shared, fv.reach, fv.tags, fv.elem, fv.fns, None, None))
            if has_cls and a not in st.assigned:
                outs.append(self.class_attr_val(c, a))
        elif has_cls:
            outs.append(self.class_attr_val(c, a))
        else:
            if a == "__class__":
                return Val({("clsobj", c.key)}, tags={"class"}, fns={("cls", c.key)})
            outs.append(Val({("self", a)}, tags={"unknown"}))
        return join_vals([imm_norm(o) for o in outs])

    def inst_classes(self, v: Val) -> List[Class]:
        out = []
        for t in sorted(v.tags):
            if t.startswith("inst:") and t[5:] in self.prog.classes:
                out.append(self.prog.classes[t[5:]])
        return out

    def attr_val(self, base: Val, a: str, st: St, node) -> Val:
        if not (base.tags - {"none"}) and not base.fns and not any(r[0] in ("module", "clsobj", "self") for r in base.roots):
            return V_EMPTY          # bottom: the type of the object is not known yet (None has no attributes)
        outs: List[Val] = []
        others = set()
        for r in sorted(base.roots, key=str):
            k = r[0]
            if k == "module" and r[1] in self.prog.modules:
                g = self.prog.lookup_global(self.prog.modules[r[1]], a)
                outs.append(self.global_val(g) if g is not None else v_unknown(f"{r[1]}.{a}"))
            elif k == "clsobj" and r[1] in self.prog.classes:
                c = self.prog.classes[r[1]]
                m = c.find_method(a)
                if m is not None:
                    outs.append(Val({IMM}, tags={"callable"}, fns={("func", m.key, None)}))
                elif c.find_attr(a) is not None:
                    outs.append(self.class_attr_val(c, a))
                elif a == "__name__":
                    outs.append(V_STR)
                else:
                    outs.append(Val({IMM}, tags={"ext-imm"}))
            elif k == "self" and r[1] is None and self.cls is not None:
                outs.append(self.self_field(a, st, node))
            else:
                others.add(r)
        if others or not base.roots:
            oth = frozenset(others)
            if base.fns and all(t[0] == "ext" for t in base.fns) and oth <= {IMM}:
                outs.append(Val({IMM}, tags={"ext-imm"}, fns={("ext", sorted(base.fns)[0][1] + "." + a)}))
                return join_vals(outs)
            classes = self.inst_classes(base)
            if "node" in base.tags and self.prog.node_base is not None:
                for c in self.A.subclasses.get(self.prog.node_base.key, []):
                    if c not in classes and a in c.methods:
                        classes.append(c)
            tags, elem, fns, found, only_methods = set(), set(), set(), False, bool(classes)
            for c in classes:
                if not any(k.find_method(a) is not None for k in [c] + self.A.subclasses.get(c.key, [])):
                    only_methods = False
                for k in [c] + [s for s in self.A.subclasses.get(c.key, []) if a in s.methods]:
                    m = k.find_method(a)
                    if m is not None:
                        found = True
                        if m.is_property:
                            outs.append(self.apply_callee(st, m, oth, [], {}, node))
                        else:
                            fns.add(("func", m.key, oth))
                fv = self.A.field_val(c, a)
                if fv is not None:
                    found = True
                    tags |= fv.tags
                    elem |= fv.elem
                    fns |= fv.fns
                elif c.find_attr(a) is not None and not c.find_method(a):
                    found = True
                    outs.append(self.class_attr_val(c, a))
                if c.is_dataclass and a in c.dc_fields:
                    for s in c.node.body:
                        if isinstance(s, ast.AnnAssign) and isinstance(s.target, ast.Name) and s.target.id == a:
                            av = self.ann_val(s.annotation)
                            if av is not None:
                                found = True
                                tags |= av.tags
                                elem |= av.elem
            if a == "__class__":
                ks = [c.key for c in classes]
                outs.append(Val({("clsobj", k) for k in ks} or {("unknown", "class of object")},
                                tags={"class"}, fns={("cls", k) for k in ks}))
                return join_vals(outs)
            if a in ("__name__", "__doc__", "__module__", "__qualname__"):
                outs.append(V_STR)
                return join_vals(outs)
            if not classes and a in self.A.methods_by_name and not (base.tags and base.tags <= (IMM_TAGS | {"list", "dict", "set", "tuple", "ext"})):
                for m in self.A.methods_by_name[a]:     # duck typing on an untyped receiver
                    if not m.is_property:
                        fns.add(("func", m.key, oth))
            roots = frozenset(deepen(r, a) for r in oth if not is_fresh(r) and r != IMM
                              and not (r[0] == "default" and _EMPTY_SHARED[0](r))) | base.reach
            if only_methods:
                # every possible class of the receiver defines `a` as a method/property
                if fns:
                    outs.append(Val({IMM}, tags={"callable"}, fns=fns))
                return join_vals(outs)
            if classes and not found and not fns:
                return join_vals(outs)      # class known, nothing stored into that field (yet): bottom
            if not tags:
                tags = {"unknown"}
            outs.append(imm_norm(Val(roots or {IMM}, base.reach, tags, elem, fns)))
        return join_vals(outs)

    # ---- expressions -----------------------------------------------------------------------
    def elem_val(self, it: Val) -> Val:
        if it.items:
            return join_vals(it.items)
        tags = frozenset(t for t in it.elem if not t.startswith("in:"))
        deeper = frozenset(t for t in it.elem if t.startswith("in:"))
        if not tags:
            if it.tags and it.tags <= {"str"}:
                tags = frozenset({"str"})
            elif not it.tags:
                return V_EMPTY                 # bottom
            elif it.tags <= {"list", "dict", "set", "tuple", "none"}:
                # a container into which nothing has been put (so far)
                return Val(contents(it), it.reach)
            else:
                tags = frozenset({"unknown"})
        return imm_norm(Val(contents(it) or {IMM}, it.reach, tags, deeper | frozenset(t[3:] for t in deeper)))

    def container(self, node, parts: List[Val], tag: str, items=None) -> Val:
        reach, elem = set(), set()
        for p in parts:
            reach |= p.everything()
            elem |= p.as_elem()
        return self.fresh(node, reach=frozenset(reach), tags={tag}, elem=frozenset(elem), items=items)

    def ev(self, e, st: St) -> Val:
        if e is None:
            return V_NONE
        t = type(e)
        if t is ast.Constant:
            return self.const_val(e)
        if t is ast.Name:
            return self.lookup(e.id, st, e)
        if t is ast.Attribute:
            return self.attr_val(self.ev(e.value, st), e.attr, st, e)
        if t is ast.Call:
            return self.ev_call(e, st)
        if t is ast.Subscript:
            base = self.ev(e.value, st)
            if isinstance(e.slice, ast.Slice):
                for x in (e.slice.lower, e.slice.upper, e.slice.step):
                    if x is not None:
                        self.ev(x, st)
                if base.tags and base.tags <= {"str"}:
                    return V_STR
                tags = base.tags - {"unknown"} if base.tags - {"unknown"} else frozenset({"list"})
                return self.fresh(e, reach=contents(base), tags=tags, elem=base.elem)
            self.ev(e.slice, st)
            if base.items and isinstance(e.slice, ast.Constant) and isinstance(e.slice.value, int) \
                    and -len(base.items) <= e.slice.value < len(base.items):
                return base.items[e.slice.value]
            return self.elem_val(base)
        if t is ast.JoinedStr:
            for v in e.values:
                self.ev(v, st)
            return V_STR
        if t is ast.FormattedValue:
            self.ev(e.value, st)
            return V_STR
        if t is ast.BinOp:
            l, r = self.ev(e.left, st), self.ev(e.right, st)
            return self.binop(e, l, r)
        if t is ast.UnaryOp:
            v = self.ev(e.operand, st)
            return V_BOOL if isinstance(e.op, ast.Not) else Val({IMM}, tags=(v.tags & IMM_TAGS) or {"int"})
        if t is ast.BoolOp:
            return join_vals([self.ev(v, st) for v in e.values])
        if t is ast.Compare:
            self.ev(e.left, st)
            for c in e.comparators:
                self.ev(c, st)
            return V_BOOL
        if t is ast.IfExp:
            self.ev(e.test, st)
            return self.ev(e.body, st).join(self.ev(e.orelse, st))
        if t is ast.Tuple:
            if any(isinstance(x, ast.Starred) for x in e.elts):
                return self.container(e, [self.ev(x, st) for x in e.elts], "tuple")
            parts = [self.ev(x, st) for x in e.elts]
            if all(p.roots <= {IMM} and p.tags <= IMM_TAGS and not p.fns for p in parts):
                return Val({IMM}, tags={"tuple"}, elem=frozenset().union(*[p.tags for p in parts]) if parts else E,
                           items=tuple(parts))
            return self.container(e, parts, "tuple", items=tuple(parts))
        if t in (ast.List, ast.Set):
            return self.container(e, [self.ev(x, st) for x in e.elts], "list" if t is ast.List else "set")
        if t is ast.Dict:
            parts = [self.ev(x, st) for x in e.keys if x is not None] + [self.ev(x, st) for x in e.values]
            return self.container(e, parts, "dict")
        if t in (ast.ListComp, ast.SetComp, ast.GeneratorExp, ast.DictComp):
            saved = {}
            names = set()
            for g in e.generators:
                it = self.ev(g.iter, st)
                names |= set(_target_names(g.target))
                for n in names:
                    if n in st.env and n not in saved:
                        saved[n] = st.env[n]
                self.assign(st, g.target, self.elem_val(it), g, comp=True)
                for c in g.ifs:
                    self.ev(c, st)
            if t is ast.DictComp:
                parts = [self.ev(e.key, st), self.ev(e.value, st)]
            else:
                parts = [self.ev(e.elt, st)]
            for n in names:
                st.env.pop(n, None)
            st.env.update(saved)
            return self.container(e, parts, "dict" if t is ast.DictComp else ("set" if t is ast.SetComp else "list"))
        if t is ast.Lambda:
            saved = {}
            a = e.args
            ps = [x.arg for x in a.posonlyargs + a.args + a.kwonlyargs]
            for p in ps:
                if p in st.env:
                    saved[p] = st.env[p]
                st.env[p] = Val({("lamarg", p)}, tags={"unknown"})
            self.ev(e.body, st)
            for p in ps:
                st.env.pop(p, None)
            st.env.update(saved)
            return Val({IMM}, tags={"callable"}, fns={("lambda", e.lineno * 1000 + e.col_offset)})
        if t is ast.NamedExpr:
            v = self.ev(e.value, st)
            self.assign(st, e.target, v, e)
            return v
        if t is ast.Starred:
            return self.elem_val(self.ev(e.value, st))
        if t in (ast.Yield, ast.YieldFrom, ast.Await):
            self.is_generator = self.is_generator or t is not ast.Await
            if e.value is not None:
                self.ev(e.value, st)
            return V_NONE
        if t is ast.Slice:
            for x in (e.lower, e.upper, e.step):
                if x is not None:
                    self.ev(x, st)
            return V_INT
        return v_unknown(f"expression kind {t.__name__}")

    def binop(self, e, l: Val, r: Val) -> Val:
        lt, rt = l.tags, r.tags
        if not lt and not rt:
            return V_EMPTY
        strs = (lt and lt <= {"str"}) or (rt and rt <= {"str"})
        if strs and isinstance(e.op, (ast.Add, ast.Mod, ast.Mult)):
            pre = l.prefix if isinstance(e.op, ast.Add) and lt <= {"str"} else None
            return Val({IMM}, tags={"str"}, prefix=pre)
        nums = {"int", "bool", "float"}
        if lt and rt and lt <= nums and rt <= nums:
            return Val({IMM}, tags={"float"} if "float" in (lt | rt) else {"int"})
        if lt <= IMM_TAGS and rt <= IMM_TAGS and lt and rt:
            return Val({IMM}, tags=(lt | rt) - {"none"})
        tags = ((lt | rt) - IMM_TAGS) or {"unknown"}
        if "list" in tags:
            tags = {"list"}
        return self.fresh(e, reach=contents(l) | contents(r), tags=tags, elem=l.elem | r.elem)

    # ---- calls ------------------------------------------------------------------------------
    def note_call(self, node, target: CallTarget):
        lst = self.calls.setdefault(id(node), [])
        self.call_nodes[id(node)] = node
        for t in lst:
            if t.kind == target.kind and t.func is target.func and t.cls is target.cls and t.desc == target.desc:
                if target.recv_kind != t.recv_kind and t.recv_kind != "other":
                    t.recv_kind = target.recv_kind if t.recv_kind == "none" else t.recv_kind
                return
        lst.append(target)

    @staticmethod
    def recv_kind(recv: Optional[FrozenSet]) -> str:
        if recv is None:
            return "none"
        rs = [r for r in recv if r != IMM]
        if not rs:
            return "other"
        if all(r[0] == "self" and r[1] is None for r in rs):
            return "self"
        if all(r[0] in ("self", "foot") for r in rs):
            return "foot" if any(r[0] == "foot" for r in rs) else "field"
        return "other"

    def ev_call(self, node: ast.Call, st: St) -> Val:
        f = node.func
        base = None
        if isinstance(f, ast.Attribute):
            base = self.ev(f.value, st)
            fv = self.attr_val(base, f.attr, st, f)
        else:
            fv = self.ev(f, st)
        pos: List[Tuple[Val, ast.AST]] = []
        star: List[Val] = []
        for a in node.args:
            if isinstance(a, ast.Starred):
                star.append(self.elem_val(self.ev(a.value, st)))
            else:
                pos.append((self.ev(a, st), a))
        kw: Dict[str, Tuple[Val, ast.AST]] = {}
        for k in node.keywords:
            v = self.ev(k.value, st)
            if k.arg is None:
                star.append(self.elem_val(v))
            else:
                kw[k.arg] = (v, k.value)
        outs: List[Val] = []
        handled = False
        if base is not None and f.attr in MUTATORS:
            defined = any(c.find_method(f.attr) for c in self.inst_classes(base))
            if not defined or (base.tags - {t for t in base.tags if t.startswith("inst:")} - {"node"}):
                outs.append(self.do_mutator(st, base, f.attr, pos, kw, node))
                handled = True
                if not defined:
                    fv = fv.with_(fns=E)
        for t in sorted(fv.fns, key=str):
            k = t[0]
            handled = True
            if k == "func":
                callee = self.prog.funcs.get(t[1])
                if callee is None:
                    outs.append(v_unknown("missing function " + t[1]))
                    continue
                recv = t[2]
                p2 = list(pos)
                if recv is None and callee.is_method and callee.self_name in callee.params:
                    if p2:
                        recv = frozenset(p2[0][0].roots)
                        p2 = p2[1:]
                    else:
                        recv = frozenset({("unknown", "unbound method call without receiver")})
                outs.append(self.apply_callee(st, callee, recv, p2, kw, node, star))
            elif k == "cls":
                outs.append(self.construct(st, self.prog.classes[t[1]], pos, kw, node, star))
            elif k == "ext":
                outs.append(self.ext_call(st, t[1], base, pos, kw, node, star))
            elif k == "builtin":
                outs.append(self.builtin_call(st, t[1], pos, kw, node, star))
            elif k == "lambda":
                self.note_call(node, CallTarget("lambda", desc="lambda (effects charged where it is written)"))
                outs.append(Val({("unknown", "result of a lambda")}, tags={"unknown"}))
        if not handled:
            if base is not None:
                outs.append(self.ext_method(st, base, f.attr, pos, kw, node))
            else:
                self.note_call(node, CallTarget("paramcall", desc=src_of(f)))
                outs.append(Val({("unknown", "result of calling a callable parameter/value")}, tags={"unknown"}))
        return join_vals(outs)

    def do_mutator(self, st, base: Val, name: str, pos, kw, node) -> Val:
        stored = None
        if name in STORING_MUTATORS:
            vals = [v for v, _ in pos] + [v for v, _ in kw.values()]
            if name in ("extend", "update"):
                vals = [self.elem_val(v) for v in vals]
            if name in ("insert", "setdefault", "__setitem__") and len(vals) > 1:
                vals = vals[1:]
            stored = join_vals(vals) if vals else None
        self.write(st, base, node, "mut", stored=stored)
        self.note_call(node, CallTarget("mutator", desc=name))
        if name in ("pop", "popitem", "popleft"):
            return self.elem_val(base)
        if name == "setdefault":
            r = self.elem_val(base)
            if len(pos) > 1:
                r = r.join(pos[1][0])
            return r
        return V_NONE

    def ext_method(self, st, base: Val, name: str, pos, kw, node) -> Val:
        self.note_call(node, CallTarget("ext", desc="method ." + name))
        args = [v for v, _ in pos] + [v for v, _ in kw.values()]
        if base.tags and base.tags <= {"str"}:
            if name in ("split", "rsplit", "splitlines", "partition", "rpartition"):
                return self.fresh(node, tags={"list"}, elem={"str"})
            if name in ("startswith", "endswith") or name.startswith("is"):
                return V_BOOL
            if name in ("find", "rfind", "index", "rindex", "count"):
                return V_INT
            return V_STR
        if name == "get":
            r = self.elem_val(base)
            if len(pos) > 1:
                r = r.join(pos[1][0])
            else:
                r = r.join(V_NONE)
            return r
        if name in ("values", "items", "keys", "copy", "__iter__"):
            return self.fresh(node, reach=contents(base), tags={"list"}, elem=base.elem)
        # any other method of an object that is not an instance of an analysed class: assumed to
        # return a value / a fresh object that does not expose mutable internals of the receiver
        dirty = any(("node" in v.all_tags() or "unknown" in v.all_tags()) for v in [base] + args)
        return self.fresh(node, tags={"unknown"} if dirty else {"ext"})

    def ext_call(self, st, desc, base, pos, kw, node, star) -> Val:
        self.note_call(node, CallTarget("ext", desc=desc))
        tail = desc.split(".")[-2:] if "." in desc else [desc]
        if ".".join(tail) in PROCESS_GLOBAL_MUTATORS:
            # interpreter- or process-wide settings: state shared by every instance and every thread
            self.record(f"global:<process>.{'.'.join(tail)}", node, "direct", False)
        if desc.endswith("typing.cast") or desc == "typing.cast":
            return pos[1][0] if len(pos) > 1 else v_unknown("cast")
        args = [v for v, _ in pos] + [v for v, _ in kw.values()] + star
        dirty = any(("node" in v.all_tags() or "unknown" in v.all_tags()) for v in args)
        return self.fresh(node, tags={"unknown"} if dirty else {"ext"})

    def builtin_call(self, st, name, pos, kw, node, star) -> Val:
        self.note_call(node, CallTarget("builtin", desc=name))
        args = [v for v, _ in pos] + star
        if name == "getattr" and pos:
            obj = pos[0][0]
            nm = pos[1][1] if len(pos) > 1 else None
            dflt = pos[2][0] if len(pos) > 2 else None
            if isinstance(nm, ast.Constant) and isinstance(nm.value, str):
                r = self.attr_val(obj, nm.value, st, node)
            else:
                nmv = pos[1][0] if len(pos) > 1 else V_EMPTY
                fns = set()
                classes = self.inst_classes(obj)
                for c in classes:
                    for k in self.A.family(c):
                        for mn, m in k.methods.items():
                            if nmv.prefix is None or mn.startswith(nmv.prefix):
                                if not m.is_property:
                                    fns.add(("func", m.key, frozenset(obj.roots)))
                if classes:
                    r = Val({IMM}, tags={"callable"}, fns=fns)
                    # data attributes the computed name could denote
                    for c in classes:
                        names = set()
                        for k in self.A.family(c):
                            names |= set(self.A.inst_fields.get(k.key, {})) | set(k.attrs)
                        for nm_ in sorted(names):
                            if nmv.prefix is None or nm_.startswith(nmv.prefix):
                                r = r.join(self.attr_val(obj, nm_, st, node))
                    if nmv.prefix is None:
                        r = r.join(v_unknown("getattr with a computed attribute name"))
                else:
                    r = v_unknown("getattr with a computed name on an object of unknown class")
            return r.join(dflt) if dflt is not None else r
        if name in ("setattr", "delattr") and pos:
            self.write(st, pos[0][0], node, "attr", attr="<computed>", stored=pos[2][0] if len(pos) > 2 else None)
            return V_NONE
        if name == "super":
            if self.cls is not None and self.cls.bases:
                t = frozenset().union(*[self.inst_tags(b) for b in self.cls.bases])
                return Val({("self", None)}, tags=t)
            return Val({("self", None)}, tags={"ext"})
        if name == "type" and len(args) == 1:
            ks = [c.key for c in self.inst_classes(args[0])]
            if ks:
                return Val({("clsobj", k) for k in ks}, tags={"class"}, fns={("cls", k) for k in ks})
            return Val({IMM}, tags={"class"})
        if name in ("len", "int", "ord", "hash", "id", "abs", "sum", "round", "divmod"):
            return V_INT
        if name in ("isinstance", "issubclass", "hasattr", "callable", "bool", "any", "all"):
            return V_BOOL
        if name in ("str", "repr", "chr", "format"):
            return V_STR
        if name == "float":
            return V_FLOAT
        if name == "print":
            return V_NONE
        if name in ("max", "min"):
            return join_vals([self.elem_val(a) if len(args) == 1 else a for a in args]) if args else V_INT
        if name == "range":
            return self.fresh(node, tags={"list"}, elem={"int"})
        if name == "next" and args:
            return self.elem_val(args[0])
        if name in CONTAINER_BUILTINS:
            reach, elem = set(), set()
            for a in args:
                reach |= contents(a)
                elem |= a.elem
            for v, _ in kw.values():
                reach |= v.everything()
                elem |= v.as_elem()
            if name in ("enumerate",):
                elem.add("int")
            tag = {"dict": "dict", "set": "set", "frozenset": "set", "tuple": "tuple"}.get(name, "list")
            if name in ("map", "filter") and args and args[0].fns:
                return v_unknown(f"{name}() with a function argument")
            return self.fresh(node, reach=frozenset(reach), tags={tag}, elem=frozenset(elem))
        if name in FORBIDDEN_CALLS:
            self.record(f"unknown:call of {name}", node, "direct")
            return v_unknown("result of " + name)
        # exception classes and other builtins: allocate
        reach = set()
        for a in args:
            reach |= a.everything()
        return self.fresh(node, reach=frozenset(reach), tags={"ext"})

    def export(self, v: Val) -> Val:
        """The value as seen by a callee (for the parameter-value tables)."""
        def ex(rs):
            out = set()
            for r in rs:
                k = r[0]
                if k == "self":
                    out.add(("foot",))
                elif k == "param":
                    out.add(("ext",))
                    pv = self.A.r_paramvals.get((self.f.key, r[1]))
                    if pv is not None:
                        out |= {x for x in pv.roots | pv.reach if is_shared(x) or x[0] == "foot"}
                elif is_fresh(r):
                    out.add(("fresh",))
                elif k == "lamarg":
                    out.add(("unknown", "lambda parameter"))
                else:
                    out.add(r)
            return frozenset(out)
        fns = frozenset((t[0], t[1], ex(t[2])) if (t[0] == "func" and t[2] is not None) else t for t in v.fns)
        return Val(ex(v.roots), ex(v.reach), v.tags, v.elem, fns, None, v.prefix)

    def bind_args(self, callee: Func, recv, pos, kw, star, skip_self=True):
        params = list(callee.params)
        if callee.is_method and skip_self and callee.self_name in params:
            params = params[1:]
        n_pos = callee.n_positional - (1 if (callee.is_method and skip_self and callee.self_name in callee.params) else 0)
        argmap: Dict[str, Val] = {}
        argexpr: Dict[str, ast.AST] = {}
        extra: List[Val] = []
        for i, (v, e) in enumerate(pos):
            if i < n_pos:
                argmap[params[i]] = v
                argexpr[params[i]] = e
            else:
                extra.append(v)
        for k, (v, e) in kw.items():
            if k in params:
                argmap[k] = v
                argexpr[k] = e
            else:
                extra.append(v)
        if star:
            sv = join_vals(star)
            for p in params:
                if p not in argmap:
                    argmap[p] = sv
        for p in params:
            if p not in argmap and p in callee.defaults:
                argmap[p] = self.default_val(callee, p)
        if callee.vararg:
            argmap[callee.vararg] = self.container(callee.node, extra, "tuple") if extra else Val({IMM}, tags={"tuple"})
        if callee.kwarg:
            argmap[callee.kwarg] = self.container(callee.node, extra, "dict") if extra else Val({IMM}, tags={"dict"})
        return argmap, argexpr

    def translate_roots(self, rs, callee: Func, recv, argmap) -> FrozenSet:
        out = set()
        for r in rs:
            k = r[0]
            if k == "self":
                if recv is None:
                    out.add(r)      # closure over the same receiver
                    continue
                for q in recv:
                    if q[0] == "self":
                        out.add(q if (q[1] is not None or r[1] is None) else ("self", r[1]))
                    elif q[0] == "param":
                        out.add(q if (q[2] is not None or r[1] is None) else ("param", q[1], r[1]))
                    elif is_fresh(q) or q == IMM:
                        out.add(q)
                    else:
                        out.add(q)
            elif k == "param":
                if r[1] in argmap:
                    a = argmap[r[1]]
                    if r[2] is None:
                        out |= a.roots
                    else:
                        out |= contents(a, r[2])
                elif callee.parent is not None:
                    out.add(r)      # closure variable already expressed in the enclosing frame
                else:
                    out.add(("unknown", f"unbound parameter {r[1]} of {callee.qual}"))
            else:
                out.add(r)
        return frozenset(out)

    def translate_val(self, v: Val, callee, recv, argmap, node) -> Val:
        def tr(rs):
            return self.translate_roots(rs, callee, recv, argmap)
        site = ("fresh", node.lineno * 1000 + node.col_offset)
        def refresh(rs):
            return frozenset(site if is_fresh(r) else r for r in rs)
        roots = refresh(tr(v.roots))
        reach = refresh(tr(v.reach))
        # contents of an argument-rooted result may also refer to what the argument can reach
        for r in v.roots | v.reach:
            if r[0] == "param" and r[1] in argmap:
                reach |= refresh(argmap[r[1]].reach)
        fns = frozenset((t[0], t[1], refresh(tr(t[2]))) if (t[0] == "func" and t[2] is not None) else t for t in v.fns)
        items = None if v.items is None else tuple(self.translate_val(i, callee, recv, argmap, node) for i in v.items)
        return Val(roots, reach, v.tags, v.elem, fns, items, v.prefix)

    def apply_callee(self, st: St, callee: Func, recv, pos, kw, node, star=None, export_args=True) -> Val:
        argmap, argexpr = self.bind_args(callee, recv, pos, kw, star or [])
        if export_args:
            for p, v in argmap.items():
                self.A.merge(self.A.paramvals, (callee.key, p), self.export(v))
        self.note_call(node, CallTarget("func", func=callee, recv=recv, recv_kind=self.recv_kind(recv),
                                        argmap=argexpr, desc=callee.key))
        S = self.A.summ.get(callee.key)
        if S is None:
            return V_EMPTY
        how = f"via call to {callee.qual}"
        for loc in sorted(S.mod):
            if not self.A.frames.allows(callee.key, loc):
                continue            # a violation of the callee's own declared frame: blamed there
            kind, head, rest = parse_loc(loc)
            unc = all(x.unc for x in S.mod[loc].values())
            if kind == "self":
                if recv is None:
                    self.record(loc, node, how, unc)
                    continue
                for q in sorted(recv, key=str):
                    if q[0] in ("self", "foot"):
                        self.record(loc, node, how, unc)
                    else:
                        l2 = self.loc_of(q, rest[0] if (len(rest) == 1 and rest[0] != "*") else None,
                                         "attr" if (len(rest) == 1 and rest[0] != "*") else "item")
                        if l2 is not None:
                            self.record(l2, node, f"{how} ({loc})", unc)
            elif kind == "param":
                if head in argmap:
                    binding = len(rest) == 1 and rest[0] != "*"
                    deep = len(rest) >= 2
                    for q in sorted(argmap[head].roots, key=str):
                        if deep and q[0] == "default" and self.A.is_empty_shared(q):
                            continue        # contents of an always-empty default object
                        l2 = self.loc_of(q, rest[0] if binding else None, "attr" if binding else "item")
                        if l2 is not None:
                            self.record(l2, node, f"{how} ({loc})", unc)
                elif callee.parent is not None:
                    self.record(loc, node, how, unc)
                elif head == "<external>":
                    self.record(loc, node, how, unc)
                else:
                    self.record(f"unknown:unbound parameter {head} of {callee.qual}", node, how)
            else:
                self.record(loc, node, how, unc)
        for p, shared in S.param_reach.items():
            if p in argmap:
                self.add_reach(st, argmap[p].roots, Val(reach=shared))
                for r in argmap[p].roots:
                    if r[0] == "param":
                        self.param_reach[r[1]] = self.param_reach.get(r[1], E) | shared
        return imm_norm(self.translate_val(S.ret, callee, recv, argmap, node))

    def construct(self, st: St, c: Class, pos, kw, node, star=None) -> Val:
        args = [v for v, _ in pos] + [v for v, _ in kw.values()] + (star or [])
        reach, elem = set(), set()
        for v in args:
            reach |= v.everything()
        inst = self.fresh(node, reach=frozenset(reach), tags=self.inst_tags(c))
        init = c.find_method("__init__")
        if init is not None:
            self.apply_callee(st, init, frozenset(inst.roots), pos, kw, node, star)
            for t in self.calls[id(node)]:
                if t.func is init:
                    t.kind, t.cls = "ctor", c
        else:
            argexpr = {}
            if c.is_dataclass:
                for i, (v, e) in enumerate(pos):
                    if i < len(c.dc_fields):
                        self.A.merge(self.A.fieldvals, (c.key, c.dc_fields[i]), self.export(v))
                        argexpr[c.dc_fields[i]] = e
                for k, (v, e) in kw.items():
                    self.A.merge(self.A.fieldvals, (c.key, k), self.export(v))
                    argexpr[k] = e
            self.note_call(node, CallTarget("ctor", cls=c, argmap=argexpr, desc=c.key))
        return inst

    # ---- statements --------------------------------------------------------------------------
    def assign(self, st: St, target, v: Val, node, comp=False):
        if isinstance(target, ast.Name):
            self.bind(st, target.id, v)
            if self.f.is_module and not comp and target.id in self.m.data:
                pass
        elif isinstance(target, (ast.Tuple, ast.List)):
            elts = target.elts
            if v.items is not None and len(v.items) == len(elts) and not any(isinstance(x, ast.Starred) for x in elts):
                for t, iv in zip(elts, v.items):
                    self.assign(st, t, iv, node, comp)
            else:
                ev = self.elem_val(v)
                for t in elts:
                    self.assign(st, t, ev, node, comp)
        elif isinstance(target, ast.Starred):
            self.assign(st, target.value, self.fresh(target, reach=v.roots | v.reach, tags={"list"}, elem=v.as_elem()), node, comp)
        elif isinstance(target, ast.Attribute):
            base = self.ev(target.value, st)
            self.write(st, base, target, "attr", target.attr, stored=v)
            if ("self", None) in base.roots:
                st.assigned = st.assigned | {target.attr}
        elif isinstance(target, ast.Subscript):
            base = self.ev(target.value, st)
            self.ev(target.slice, st)
            self.write(st, base, target, "item", stored=v)

    def do_simple(self, s, st: St):
        self._cur_stmt = s
        if isinstance(s, ast.Assign):
            v = self.ev(s.value, st)
            for t in s.targets:
                self.assign(st, t, v, s)
        elif isinstance(s, ast.AnnAssign):
            if s.value is not None:
                self.assign(st, s.target, self.ev(s.value, st), s)
        elif isinstance(s, ast.AugAssign):
            rhs = self.ev(s.value, st)
            t = s.target
            if isinstance(t, ast.Name):
                cur = self.lookup(t.id, st, t)
                res = self.binop(s, cur, rhs)
                # `x += e` mutates x in place only if x is a list/set/dict (…__iadd__/__ior__); it is
                # treated as such when a container type is inferred for either operand
                CONT = {"list", "set", "dict"}
                inplace = bool(cur.tags & CONT) or (bool(rhs.tags & CONT) and not (cur.tags and cur.tags <= IMM_TAGS))
                if not inplace:
                    self.bind(st, t.id, res)
                else:
                    self.write(st, cur, s, "mut", stored=self.elem_val(rhs))
                    self.bind(st, t.id, cur.join(res))
            elif isinstance(t, ast.Attribute):
                base = self.ev(t.value, st)
                cur = self.attr_val(base, t.attr, st, t)
                res = self.binop(s, cur, rhs)
                CONT = {"list", "set", "dict"}
                if bool(cur.tags & CONT) or (bool(rhs.tags & CONT) and not (cur.tags and cur.tags <= IMM_TAGS)):
                    self.write(st, cur, s, "mut", stored=self.elem_val(rhs))
                    res = cur.join(res)
                self.write(st, base, t, "attr", t.attr, stored=res)
                if ("self", None) in base.roots:
                    st.assigned = st.assigned | {t.attr}
            elif isinstance(t, ast.Subscript):
                base = self.ev(t.value, st)
                self.ev(t.slice, st)
                self.write(st, base, t, "item", stored=rhs)
        elif isinstance(s, ast.Delete):
            for t in s.targets:
                if isinstance(t, ast.Name):
                    st.env.pop(t.id, None)
                elif isinstance(t, ast.Attribute):
                    self.write(st, self.ev(t.value, st), t, "attr", t.attr)
                elif isinstance(t, ast.Subscript):
                    base = self.ev(t.value, st)
                    self.ev(t.slice, st)
                    self.write(st, base, t, "item")
        elif isinstance(s, ast.Expr):
            self.ev(s.value, st)
        elif isinstance(s, ast.Assert):
            self.ev(s.test, st)
            if s.msg is not None:
                self.ev(s.msg, st)
        elif isinstance(s, (ast.FunctionDef, ast.AsyncFunctionDef)):
            nf = self.f.nested.get(s.name) if not self.f.is_module else None
            if nf is not None:
                self.bind(st, s.name, Val({IMM}, tags={"callable"}, fns={("func", nf.key, None)}))
                # the closure may escape: charge its effects here as well
                fake = [(Val({("lamarg", p)}, tags={"unknown"}), s) for p in nf.params]
                self.apply_callee(st, nf, None, fake, {}, s, export_args=False)
                self.calls.pop(id(s), None)
                self.call_nodes.pop(id(s), None)
        elif isinstance(s, (ast.Import, ast.ImportFrom)):
            if not self.f.is_module:
                for a in s.names:
                    self.bind(st, (a.asname or a.name).split(".")[0], Val({IMM}, tags={"ext-imm"}, fns={("ext", a.name)}))
        elif isinstance(s, ast.ClassDef):
            if not self.f.is_module:
                self.bind(st, s.name, v_unknown("locally defined class"))
        return st

    def do_test(self, e, st: St):
        self._cur_stmt = e
        s2 = st.copy()
        self.ev(e, s2)
        return s2, s2.copy()

    def do_iter(self, s, st: St):
        self._cur_stmt = s
        self._iters[id(s)] = self.ev(s.iter, st)
        return st

    def do_bind_iter(self, s, st: St):
        s2 = st.copy()
        self._cur_stmt = s
        self.assign(s2, s.target, self.elem_val(self._iters[id(s)]), s)
        return s2

    def do_return(self, s, st: St):
        self._cur_stmt = s
        v = self.ev(s.value, st) if s.value is not None else V_NONE
        self.ret = v if self.ret is None else self.ret.join(v)
        return st

    def do_raise(self, s, st: St):
        self._cur_stmt = s
        if s.exc is not None:
            self.ev(s.exc, st)
        if s.cause is not None:
            self.ev(s.cause, st)
        return st

    def do_subject(self, s, st: St):
        self._cur_stmt = s
        self._subject[id(s)] = self.ev(s.subject, st)
        return st

    def do_case(self, s, case, st: St):
        s2 = st.copy()
        subj = self._subject[id(s)]
        inner = Val(contents(subj) | subj.roots, subj.reach, subj.all_tags() or {"unknown"}, subj.elem)
        for n in ast.walk(case.pattern):
            if isinstance(n, (ast.MatchAs, ast.MatchStar)) and n.name:
                self.bind(s2, n.name, subj if n is case.pattern else inner)
            elif isinstance(n, ast.MatchMapping) and n.rest:
                self.bind(s2, n.rest, inner)
            elif isinstance(n, ast.MatchValue):
                self.ev(n.value, s2)
            elif isinstance(n, ast.MatchClass):
                self.ev(n.cls, s2)
        return s2, st

    def do_with(self, s, st: St):
        self._cur_stmt = s
        for it in s.items:
            v = self.ev(it.context_expr, st)
            if it.optional_vars is not None:
                self.assign(st, it.optional_vars, v, s)
        return st

    def do_handler(self, h, st: St):
        s2 = st.copy() if st is not None else St()
        if h.type is not None:
            self.ev(h.type, s2)
        if h.name:
            self.bind(s2, h.name, self.fresh(h, tags={"ext"}))
        return s2


# ======================================================================================
# DEF/USE pass: definitely-assigned / may-read-before-assign instance fields
# ======================================================================================
class DefUseAnalysis:
    """Locations are (ClassName, field).  One abstract instance per class and footprint: a parser
    owns one lexer and one token stream; a freshly constructed object counts only from the moment
    it is stored into a field of the receiver (`self.g = Class(...)`)."""

    def __init__(self, A: Analysis, class_keys: List[str]):
        self.A = A
        self.prog = A.prog
        self.classes = [A.prog.classes[k] for k in class_keys if k in A.prog.classes]
        self.names = {c.name for c in self.classes}
        self.universe: FrozenSet = frozenset(
            (c.name, fld) for c in self.classes for fld in A.inst_fields.get(c.key, {}))
        self.must: Dict[str, FrozenSet] = {}
        self.rbw: Dict[str, Dict[Tuple[str, str], str]] = {}
        mods = {c.module.name for c in self.classes}
        self.funcs = [f for f in self.prog.real_functions() if f.module.name in mods]
        self.rounds = 0

    def run(self):
        for rnd in range(40):
            self.rounds = rnd + 1
            changed = False
            for f in self.funcs:
                d = DefUse(self, f)
                d.analyse()
                if self.must.get(f.key) != d.must_out or set(self.rbw.get(f.key, {})) != set(d.rbw):
                    changed = True
                self.must[f.key] = d.must_out
                self.rbw[f.key] = d.rbw
            if not changed:
                return self
        raise RuntimeError("FX def/use fixpoint did not converge")

    def is_field(self, cls: Optional[Class], name: str) -> bool:
        if cls is None:
            return False
        return bool(self.A.field_sites(cls, name)) and cls.find_method(name) is None


class DefUse(Flow):
    def __init__(self, DU: DefUseAnalysis, f: Func):
        super().__init__()
        self.DU = DU
        self.f = f
        self.cls = f.cls
        self.eff = DU.A.results.get(f.key)
        self.rbw: Dict[Tuple[str, str], str] = {}
        self.must_out: FrozenSet = DU.universe

    def analyse(self):
        self.run(self.f.node.body, frozenset())
        outs = [st for _, st in self.returns if st is not None]
        if self.fell_off_end is not None:
            outs.append(self.fell_off_end)
        m = None
        for o in outs:
            m = o if m is None else (m & o)
        self.must_out = m if m is not None else self.DU.universe   # never returns normally

    def join(self, a, b):
        return a & b

    # ---- helpers ------------------------------------------------------------------------------
    def cname(self) -> str:
        return self.cls.name if self.cls else "?"

    def is_self(self, e) -> bool:
        return isinstance(e, ast.Name) and self.f.self_name is not None and e.id == self.f.self_name

    def read(self, fld: str, st, node):
        if not self.DU.is_field(self.cls, fld):
            return
        loc = (self.cname(), fld)
        if loc not in st and loc not in self.rbw:
            self.rbw[loc] = f"{self.f.module.rel}:{getattr(node, 'lineno', '?')}: `{src_of(node)}` in {self.f.qual}"

    def call_effect(self, e: ast.Call, st):
        targets = self.eff.calls.get(id(e), []) if self.eff is not None else []
        musts = []
        for t in targets:
            if t.kind == "func" and t.func is not None:
                relevant = t.recv_kind in ("self", "field", "foot") or (t.recv_kind == "none" and t.func.parent is not None)
                if not relevant:
                    musts.append(frozenset())
                    continue
                for loc, site in self.DU.rbw.get(t.func.key, {}).items():
                    if loc not in st and loc not in self.rbw:
                        self.rbw[loc] = f"{self.f.module.rel}:{e.lineno}: `{src_of(e)}` in {self.f.qual} -> {site}"
                musts.append(self.DU.must.get(t.func.key, self.DU.universe))
            else:
                musts.append(frozenset())
        if not musts:
            return st
        m = musts[0]
        for x in musts[1:]:
            m = m & x
        return st | m

    def ex(self, e, st):
        """Evaluate expression e (reads, calls) in evaluation order; returns the state after."""
        if e is None:
            return st
        if isinstance(e, ast.Attribute):
            if self.is_self(e.value):
                if isinstance(e.ctx, ast.Load):
                    if e.attr == "__dict__":
                        for (c, fld) in self.DU.universe:
                            if c == self.cname():
                                self.read(fld, st, e)
                    else:
                        self.read(e.attr, st, e)
                return st
            return self.ex(e.value, st)
        if isinstance(e, ast.Call):
            f = e.func
            if isinstance(f, ast.Attribute) and self.is_self(f.value) and not self.DU.is_field(self.cls, f.attr):
                pass                                    # self.method(...): no field is read
            else:
                st = self.ex(f, st)
            if isinstance(f, ast.Name) and f.id in ("getattr", "hasattr") and len(e.args) >= 2 \
                    and self.is_self(e.args[0]) and isinstance(e.args[1], ast.Constant) and isinstance(e.args[1].value, str):
                self.read(e.args[1].value, st, e)
            if isinstance(f, ast.Name) and f.id == "vars" and e.args and self.is_self(e.args[0]):
                for (c, fld) in self.DU.universe:
                    if c == self.cname():
                        self.read(fld, st, e)
            for a in e.args:
                st = self.ex(a.value if isinstance(a, ast.Starred) else a, st)
            for k in e.keywords:
                st = self.ex(k.value, st)
            return self.call_effect(e, st)
        if isinstance(e, ast.BoolOp):
            st = self.ex(e.values[0], st)
            for v in e.values[1:]:
                self.ex(v, st)                        # conditionally evaluated: reads count, assigns do not
            return st
        if isinstance(e, ast.IfExp):
            st = self.ex(e.test, st)
            self.ex(e.body, st)
            self.ex(e.orelse, st)
            return st
        if isinstance(e, (ast.Lambda,)):
            self.ex(e.body, st)
            return st
        if isinstance(e, (ast.ListComp, ast.SetComp, ast.GeneratorExp, ast.DictComp)):
            for i, g in enumerate(e.generators):
                s2 = self.ex(g.iter, st)
                if i == 0:
                    st = s2
                for c in g.ifs:
                    self.ex(c, st)
            if isinstance(e, ast.DictComp):
                self.ex(e.key, st)
                self.ex(e.value, st)
            else:
                self.ex(e.elt, st)
            return st
        if isinstance(e, ast.NamedExpr):
            return self.ex(e.value, st)
        if isinstance(e, ast.Compare):
            st = self.ex(e.left, st)
            for i, c in enumerate(e.comparators):
                if i == 0:
                    st = self.ex(c, st)
                else:
                    self.ex(c, st)
            return st
        for ch in ast.iter_child_nodes(e):
            if isinstance(ch, ast.expr):
                st = self.ex(ch, st)
            elif isinstance(ch, (ast.keyword,)):
                st = self.ex(ch.value, st)
            elif isinstance(ch, ast.Slice):
                for x in (ch.lower, ch.upper, ch.step):
                    st = self.ex(x, st)
        return st

    def ctor_fields(self, value, st):
        """`self.g = D(...)`: the fields D.__init__ definitely assigns belong to the footprint now."""
        if not isinstance(value, ast.Call) or self.eff is None:
            return frozenset()
        ts = self.eff.calls.get(id(value), [])
        outs = None
        for t in ts:
            if t.kind == "ctor" and t.cls is not None and t.cls.name in self.DU.names and t.func is not None:
                m = self.DU.must.get(t.func.key, self.DU.universe)
                m = frozenset(x for x in m if x[0] == t.cls.name)
            else:
                m = frozenset()
            outs = m if outs is None else (outs & m)
        return outs or frozenset()

    def assign_target(self, t, st, value=None):
        if isinstance(t, ast.Attribute):
            if self.is_self(t.value):
                st = st | {(self.cname(), t.attr)}
                if value is not None:
                    st = st | self.ctor_fields(value, st)
                return st
            return self.ex(t.value, st)
        if isinstance(t, ast.Subscript):
            st = self.ex(t.value, st)
            return self.ex(t.slice, st)
        if isinstance(t, (ast.Tuple, ast.List)):
            vals = value.elts if isinstance(value, (ast.Tuple, ast.List)) and len(value.elts) == len(t.elts) else [None] * len(t.elts)
            for x, v in zip(t.elts, vals):
                st = self.assign_target(x, st, v)
            return st
        if isinstance(t, ast.Starred):
            return self.assign_target(t.value, st)
        return st

    # ---- transfer --------------------------------------------------------------------------------
    def do_simple(self, s, st):
        if isinstance(s, ast.Assign):
            st = self.ex(s.value, st)
            for t in s.targets:
                st = self.assign_target(t, st, s.value)
        elif isinstance(s, ast.AnnAssign):
            if s.value is not None:
                st = self.ex(s.value, st)
                st = self.assign_target(s.target, st, s.value)
        elif isinstance(s, ast.AugAssign):
            t = s.target
            if isinstance(t, ast.Attribute) and self.is_self(t.value):
                self.read(t.attr, st, t)
            elif isinstance(t, (ast.Attribute, ast.Subscript)):
                st = self.ex(t.value, st)
                if isinstance(t, ast.Subscript):
                    st = self.ex(t.slice, st)
            st = self.ex(s.value, st)
            st = self.assign_target(t, st)
        elif isinstance(s, ast.Delete):
            for t in s.targets:
                if isinstance(t, ast.Attribute) and self.is_self(t.value):
                    st = st - {(self.cname(), t.attr)}
                else:
                    st = self.ex(t, st) if not isinstance(t, ast.Name) else st
        elif isinstance(s, ast.Expr):
            st = self.ex(s.value, st)
        elif isinstance(s, ast.Assert):
            st = self.ex(s.test, st)
        elif isinstance(s, (ast.FunctionDef, ast.AsyncFunctionDef)):
            pass        # closure bodies are charged where they are called
        return st

    def do_test(self, e, st):
        st = self.ex(e, st)
        return st, st

    def do_iter(self, s, st):
        return self.ex(s.iter, st)

    def do_bind_iter(self, s, st):
        return self.assign_target(s.target, st)

    def do_return(self, s, st):
        return self.ex(s.value, st)

    def do_raise(self, s, st):
        st = self.ex(s.exc, st)
        return st

    def do_subject(self, s, st):
        return self.ex(s.subject, st)

    def do_case(self, s, case, st):
        for n in ast.walk(case.pattern):
            if isinstance(n, ast.MatchValue):
                self.ex(n.value, st)
        return st, st

    def do_with(self, s, st):
        for it in s.items:
            st = self.ex(it.context_expr, st)
            if it.optional_vars is not None:
                st = self.assign_target(it.optional_vars, st)
        return st


# ======================================================================================
# INDENT pass: net change of one integer field along every normally returning path
# ======================================================================================
class Indent(Flow):
    """State: frozenset of (kind, value, facts) with kind 'rel' (net change so far) or 'abs' (the
    field was assigned the constant `value` (+ later changes) on this path); facts records the
    truth of plain-name conditions already decided on the path, so that
        if flag: x += 2 ... if flag: x -= 2
    is followed consistently."""

    MAX_STATE = 512

    def __init__(self, A: Analysis, f: Func, field: str):
        super().__init__()
        self.A = A
        self.f = f
        self.field = field
        self.eff = A.results.get(f.key)
        self.undecided: List[str] = []
        self.relies: Set[str] = set()
        self.ends: List[Tuple[int, Any]] = []

    def analyse(self):
        st = frozenset({("rel", 0, frozenset())})
        self.run(self.f.node.body, st)
        for node, s in self.returns:
            if s is not None:
                self.ends.append((node.lineno, s))
        if self.fell_off_end is not None:
            self.ends.append((self.f.node.end_lineno, self.fell_off_end))
        return self

    def join(self, a, b):
        u = a | b
        if len(u) > self.MAX_STATE:
            self.undecided.append("too many distinct paths")
            return frozenset(list(sorted(u, key=str))[: self.MAX_STATE])
        return u

    def is_field(self, t) -> bool:
        return isinstance(t, ast.Attribute) and t.attr == self.field and isinstance(t.value, ast.Name) \
            and t.value.id == self.f.self_name

    def forget(self, st, names: Set[str]):
        if not names:
            return st
        return frozenset((k, v, frozenset(x for x in facts if x[0] not in names)) for k, v, facts in st)

    def scan_calls(self, node):
        if self.eff is None:
            return
        cls = self.f.cls
        loc = f"self:{cls.name}.{self.field}"
        for n in ast.walk(node):
            if isinstance(n, ast.Call):
                for t in self.eff.calls.get(id(n), []):
                    if t.kind in ("func", "ctor") and t.func is not None:
                        if t.func.cls is not None and t.func.cls in self.A.family(cls) and t.recv_kind in ("self", "field", "foot"):
                            self.relies.add(t.func.qual)       # contract: net change 0
                        elif t.func.parent is not None and t.func.cls is cls:
                            self.relies.add(t.func.qual)
                        else:
                            s = self.A.summ.get(t.func.key)
                            if s is not None and loc in s.mod and t.recv_kind in ("self", "field", "foot"):
                                self.undecided.append(f"line {n.lineno}: callee {t.func.qual} outside the class writes {loc}")
            elif isinstance(n, ast.NamedExpr) and isinstance(n.target, ast.Name):
                pass

    def do_simple(self, s, st):
        self.scan_calls(s)
        stored = {n.id for n in ast.walk(s) if isinstance(n, ast.Name) and isinstance(n.ctx, (ast.Store, ast.Del))}
        st = self.forget(st, stored)
        if isinstance(s, ast.AugAssign) and self.is_field(s.target):
            k = s.value.value if isinstance(s.value, ast.Constant) and isinstance(s.value.value, int) else None
            if k is None or not isinstance(s.op, (ast.Add, ast.Sub)):
                self.undecided.append(f"line {s.lineno}: `{src_of(s)}` is not +=/-= of an integer constant")
                return st
            d = k if isinstance(s.op, ast.Add) else -k
            return frozenset((kind, v + d, facts) for kind, v, facts in st)
        if isinstance(s, (ast.Assign, ast.AnnAssign)):
            targets = s.targets if isinstance(s, ast.Assign) else [s.target]
            flat = []
            for t in targets:
                flat += [x for x in ast.walk(t) if isinstance(x, ast.Attribute)]
            if any(self.is_field(t) for t in flat):
                v = s.value
                if isinstance(v, ast.Constant) and isinstance(v.value, int) and len(targets) == 1 and self.is_field(targets[0]):
                    return frozenset(("abs", v.value, facts) for _, _, facts in st)
                self.undecided.append(f"line {s.lineno}: `{src_of(s)}` assigns a non-constant")
        if isinstance(s, ast.Delete) and any(self.is_field(t) for t in s.targets):
            self.undecided.append(f"line {s.lineno}: del of the field")
        return st

    def do_test(self, e, st):
        self.scan_calls(e)
        name, pos = None, True
        if isinstance(e, ast.Name):
            name = e.id
        elif isinstance(e, ast.UnaryOp) and isinstance(e.op, ast.Not) and isinstance(e.operand, ast.Name):
            name, pos = e.operand.id, False
        if name is None:
            walrus = {n.target.id for n in ast.walk(e) if isinstance(n, ast.NamedExpr) and isinstance(n.target, ast.Name)}
            st = self.forget(st, walrus)
            return st, st
        t, f = set(), set()
        for kind, v, facts in st:
            known = dict(facts).get(name)
            if known is None or known == pos:
                t.add((kind, v, facts | {(name, pos)}))
            if known is None or known != pos:
                f.add((kind, v, facts | {(name, not pos)}))
        return (frozenset(t) or None), (frozenset(f) or None)

    def do_iter(self, s, st):
        self.scan_calls(s.iter)
        return st

    def do_bind_iter(self, s, st):
        return self.forget(st, set(_target_names(s.target)))

    def do_return(self, s, st):
        if s.value is not None:
            self.scan_calls(s.value)
        return st

    def do_raise(self, s, st):
        return st

    def do_subject(self, s, st):
        self.scan_calls(s.subject)
        return st

    def do_case(self, s, case, st):
        names = {n.name for n in ast.walk(case.pattern) if isinstance(n, (ast.MatchAs, ast.MatchStar)) and n.name}
        return self.forget(st, names), st

    def do_with(self, s, st):
        for it in s.items:
            self.scan_calls(it.context_expr)
        return st

    def verdict(self):
        """-> (status, detail, assumptions)"""
        bad, assume = [], []
        for line, st in self.ends:
            for kind, v, facts in sorted(st, key=str):
                cond = ", ".join(f"{n}={'true' if b else 'false'}" for n, b in sorted(facts))
                if kind == "rel" and v != 0:
                    bad.append(f"{self.f.module.rel}:{line}: path returning here changes self.{self.field} by {v:+d}"
                               + (f" (when {cond})" if cond else ""))
                elif kind == "abs":
                    if v != 0:
                        bad.append(f"{self.f.module.rel}:{line}: path returning here leaves self.{self.field} = {v} regardless of its entry value")
                    else:
                        assume.append(f"{self.f.qual} assigns self.{self.field} = 0 and returns with 0: balanced iff it is entered with {self.field} == 0")
        for d in self.diverged:
            bad.append(f"{self.f.module.rel}: {d}: the loop body has a non-zero net effect on self.{self.field}")
        if bad:
            return core.REFUTED, "\n".join(sorted(set(bad))), assume
        if self.undecided:
            return core.UNDECIDED, "\n".join(sorted(set(self.undecided))), assume
        return core.DISCHARGED, "", sorted(set(assume))


# ======================================================================================
# TAINT pass: coordinate non-interference (also reused for lexer position state)
# ======================================================================================
CLEAN, TAINT = "C", "T"


def t_join(a, b):
    if a == b:
        return a
    if a == CLEAN:
        return b
    if b == CLEAN:
        return a
    if a == TAINT or b == TAINT:
        return TAINT
    ea = list(a[1]) if a[0] == "tup" else [a[1]]
    eb = list(b[1]) if b[0] == "tup" else [b[1]]
    if a[0] == "tup" and b[0] == "tup" and len(ea) == len(eb):
        return ("tup", tuple(t_join(x, y) for x, y in zip(ea, eb)))
    out = CLEAN
    for x in ea + eb:
        out = t_join(out, x)
    return ("seq", out)


def t_any(v) -> bool:
    if v == TAINT:
        return True
    if v == CLEAN:
        return False
    if v[0] == "tup":
        return any(t_any(x) for x in v[1])
    return t_any(v[1])


def t_elem(v):
    if v in (CLEAN, TAINT):
        return v
    if v[0] == "seq":
        return v[1]
    out = CLEAN
    for x in v[1]:
        out = t_join(out, x)
    return out


class TaintConfig:
    def __init__(self, name, scope_modules, source_attrs=(), self_source_attrs=(), store_attrs=(),
                 self_store_attrs=(), allow_arith=False, ctor_param_ok=None, sink_call_attrs=(),
                 exempt_classes=(), what="coordinate"):
        self.name = name
        self.scope_modules = set(scope_modules)
        self.source_attrs = set(source_attrs)
        self.self_source_attrs = set(self_source_attrs)
        self.store_attrs = set(store_attrs)
        self.self_store_attrs = set(self_store_attrs)
        self.allow_arith = allow_arith
        self.ctor_param_ok = ctor_param_ok or (lambda cls, p: False)
        self.sink_call_attrs = set(sink_call_attrs)
        self.exempt_classes = set(exempt_classes)
        self.what = what


class TaintAnalysis:
    def __init__(self, A: Analysis, cfg: TaintConfig):
        self.A = A
        self.cfg = cfg
        self.prog = A.prog
        self.funcs = [f for f in self.prog.real_functions() if f.module.name in cfg.scope_modules]
        self.in_scope = {f.key for f in self.funcs}
        self.param: Dict[Tuple[str, str], Any] = {}
        self.param_origin: Dict[Tuple[str, str], Set[str]] = {}
        self.ret: Dict[str, Any] = {}
        self.anyenv: Dict[str, Dict[str, Any]] = {}
        self.viol: Dict[str, List[str]] = {}
        self.changed = False
        self.rounds = 0

    def set_param(self, key, t, origin):
        old = self.param.get(key, CLEAN)
        new = t_join(old, t)
        if new != old:
            self.param[key] = new
            self.changed = True
        if t_any(t):
            self.param_origin.setdefault(key, set()).add(origin)

    def run(self):
        for rnd in range(40):
            self.rounds = rnd + 1
            self.changed = False
            for f in self.funcs:
                t = Taint(self, f)
                t.analyse()
                self.viol[f.key] = t.violations
                if self.ret.get(f.key, CLEAN) != t.ret:
                    self.ret[f.key] = t_join(self.ret.get(f.key, CLEAN), t.ret)
                    self.changed = True
                if self.anyenv.get(f.key) != t.any:
                    self.anyenv[f.key] = t.any
                    if f.nested:
                        self.changed = True
            if not self.changed:
                return self
        raise RuntimeError("FX taint fixpoint did not converge")


class Taint(Flow):
    def __init__(self, TA: TaintAnalysis, f: Func):
        super().__init__()
        self.TA = TA
        self.cfg = TA.cfg
        self.f = f
        self.eff = TA.A.results.get(f.key)
        self.ret = CLEAN
        self.any: Dict[str, Any] = {}
        self.violations: List[str] = []
        self._seen: Set[str] = set()
        self.locals = local_names(f.node) | set(f.params)
        self.exempt = f.cls is not None and f.cls.key in self.cfg.exempt_classes

    def analyse(self):
        if self.exempt:
            self.ret = TAINT
            return
        env = {}
        for p in self.f.params:
            env[p] = self.TA.param.get((self.f.key, p), CLEAN)
        self.any = dict(env)
        self.run(self.f.node.body, env)

    # ---- plumbing ----------------------------------------------------------------------------
    def join(self, a, b):
        out = dict(a)
        for k, v in b.items():
            out[k] = t_join(out.get(k, CLEAN), v)
        return out

    def bad(self, node, msg):
        line = getattr(node, "lineno", "?")
        s = f"{self.f.module.rel}:{line}: {msg}: `{src_of(node)}`"
        if s not in self._seen:
            self._seen.add(s)
            self.violations.append(s)

    def bind(self, st, name, t):
        st[name] = t
        self.any[name] = t_join(self.any.get(name, CLEAN), t)

    def lookup(self, name, st):
        if name in self.locals:
            return st.get(name, CLEAN)
        p = self.f.parent
        while p is not None:
            env = self.TA.anyenv.get(p.key, {})
            if name in env:
                return env[name]
            p = p.parent
        return CLEAN

    def is_self(self, e):
        return isinstance(e, ast.Name) and self.f.self_name is not None and e.id == self.f.self_name

    def origin_note(self) -> str:
        notes = []
        for p in self.f.params:
            o = self.TA.param_origin.get((self.f.key, p))
            if o:
                notes.append(f"parameter {p} receives a {self.cfg.what}-derived value at " + "; ".join(sorted(o)[:3]))
        return " [" + " | ".join(notes) + "]" if notes else ""

    # ---- expressions ---------------------------------------------------------------------------
    @staticmethod
    def is_none_test(e) -> bool:
        return isinstance(e, ast.Compare) and len(e.ops) == 1 and isinstance(e.ops[0], (ast.Is, ast.IsNot)) \
            and ((isinstance(e.comparators[0], ast.Constant) and e.comparators[0].value is None)
                 or (isinstance(e.left, ast.Constant) and e.left.value is None))

    def cond(self, e, st, what="branch/loop condition"):
        """A value used for its truth."""
        if isinstance(e, ast.BoolOp):
            for v in e.values:
                self.cond(v, st, what)
            return
        if isinstance(e, ast.UnaryOp) and isinstance(e.op, ast.Not):
            self.cond(e.operand, st, what)
            return
        t = self.tv(e, st)
        if t == TAINT:
            self.bad(e, f"{what} depends on a {self.cfg.what}-derived value")

    def tv(self, e, st):
        if e is None:
            return CLEAN
        k = type(e)
        if k is ast.Constant:
            return CLEAN
        if k is ast.Name:
            return self.lookup(e.id, st)
        if k is ast.Attribute:
            b = self.tv(e.value, st)
            if e.attr in self.cfg.source_attrs:
                return TAINT
            if e.attr in self.cfg.self_source_attrs and self.is_self(e.value):
                return TAINT
            return TAINT if b == TAINT else CLEAN
        if k is ast.Call:
            return self.tv_call(e, st)
        if k is ast.Subscript:
            b = self.tv(e.value, st)
            if isinstance(e.slice, ast.Slice):
                for x in (e.slice.lower, e.slice.upper, e.slice.step):
                    if t_any(self.tv(x, st)):
                        self.bad(e, f"slice bound derived from a {self.cfg.what}")
                return b
            if t_any(self.tv(e.slice, st)):
                self.bad(e, f"subscript/index derived from a {self.cfg.what}")
            if b in (CLEAN, TAINT):
                return b
            if b[0] == "tup" and isinstance(e.slice, ast.Constant) and isinstance(e.slice.value, int) \
                    and -len(b[1]) <= e.slice.value < len(b[1]):
                return b[1][e.slice.value]
            return t_elem(b)
        if k is ast.Compare:
            if self.is_none_test(e):
                self.tv(e.left, st)
                self.tv(e.comparators[0], st)
                return CLEAN                  # None-ness of a coordinate is a function of the tokens
            ts = [self.tv(e.left, st)] + [self.tv(c, st) for c in e.comparators]
            if any(t_any(t) for t in ts):
                self.bad(e, f"comparison involving a {self.cfg.what}-derived value")
            return CLEAN
        if k is ast.BinOp:
            l, r = self.tv(e.left, st), self.tv(e.right, st)
            if l == TAINT or r == TAINT:
                if not self.cfg.allow_arith:
                    self.bad(e, f"arithmetic on a {self.cfg.what}-derived value")
                return TAINT
            return t_join(l, r) if (l == CLEAN or r == CLEAN) else ("seq", t_join(t_elem(l), t_elem(r)))
        if k is ast.UnaryOp:
            if isinstance(e.op, ast.Not):
                self.cond(e.operand, st, "truth test")
                return CLEAN
            t = self.tv(e.operand, st)
            if t == TAINT and not self.cfg.allow_arith:
                self.bad(e, f"arithmetic on a {self.cfg.what}-derived value")
            return t
        if k is ast.BoolOp:
            out = CLEAN
            for i, v in enumerate(e.values):
                t = self.tv(v, st)
                if i < len(e.values) - 1 and t == TAINT:
                    self.bad(v, f"truth test of a {self.cfg.what}-derived value")
                out = t_join(out, t)
            return out
        if k is ast.IfExp:
            self.cond(e.test, st)
            return t_join(self.tv(e.body, st), self.tv(e.orelse, st))
        if k is ast.JoinedStr:
            out = CLEAN
            for v in e.values:
                if t_any(self.tv(v, st)):
                    out = TAINT
            return out
        if k is ast.FormattedValue:
            return self.tv(e.value, st)
        if k is ast.Tuple:
            ts = tuple(self.tv(x, st) for x in e.elts)
            return ("tup", ts) if any(t_any(t) for t in ts) else CLEAN
        if k in (ast.List, ast.Set):
            out = CLEAN
            for x in e.elts:
                out = t_join(out, self.tv(x, st))
            return ("seq", out) if t_any(out) else CLEAN
        if k is ast.Dict:
            out = CLEAN
            for x in e.keys:
                if x is not None and t_any(self.tv(x, st)):
                    self.bad(x, f"dictionary key derived from a {self.cfg.what}")
            for x in e.values:
                out = t_join(out, self.tv(x, st))
            return ("seq", out) if t_any(out) else CLEAN
        if k in (ast.ListComp, ast.SetComp, ast.GeneratorExp, ast.DictComp):
            st2 = dict(st)
            for g in e.generators:
                it = self.tv(g.iter, st2)
                if it == TAINT:
                    self.bad(g.iter, f"iteration over a {self.cfg.what}-derived value")
                self.assign(g.target, t_elem(it), st2, g)
                for c in g.ifs:
                    self.cond(c, st2, "comprehension filter")
            saved_locals = self.locals
            self.locals = self.locals | set().union(*[set(_target_names(g.target)) for g in e.generators])
            if k is ast.DictComp:
                if t_any(self.tv(e.key, st2)):
                    self.bad(e.key, f"dictionary key derived from a {self.cfg.what}")
                t = self.tv(e.value, st2)
            else:
                t = self.tv(e.elt, st2)
            self.locals = saved_locals
            return ("seq", t) if t_any(t) else CLEAN
        if k is ast.Lambda:
            st2 = dict(st)
            ps = [a.arg for a in e.args.posonlyargs + e.args.args + e.args.kwonlyargs]
            for p in ps:
                st2[p] = CLEAN
            saved = self.locals
            self.locals = self.locals | set(ps)
            self.tv(e.body, st2)
            self.locals = saved
            return CLEAN
        if k is ast.NamedExpr:
            t = self.tv(e.value, st)
            self.assign(e.target, t, st, e)
            return t
        if k is ast.Starred:
            return t_elem(self.tv(e.value, st))
        if k in (ast.Yield, ast.YieldFrom, ast.Await):
            t = self.tv(e.value, st) if e.value is not None else CLEAN
            self.ret = t_join(self.ret, t)
            return CLEAN
        out = CLEAN
        for ch in ast.iter_child_nodes(e):
            if isinstance(ch, ast.expr):
                out = t_join(out, self.tv(ch, st))
        return TAINT if t_any(out) else CLEAN

    def tv_call(self, e: ast.Call, st):
        f = e.func
        recv_t = CLEAN
        if isinstance(f, ast.Attribute):
            recv_t = self.tv(f.value, st)
        elif not isinstance(f, ast.Name):
            self.tv(f, st)
        argt: Dict[int, Any] = {}
        pos_t = []
        for a in e.args:
            t = self.tv(a.value if isinstance(a, ast.Starred) else a, st)
            argt[id(a)] = t
            pos_t.append(t)
        kw_t = {}
        for k in e.keywords:
            t = self.tv(k.value, st)
            argt[id(k.value)] = t
            kw_t[k.arg] = t
        all_t = pos_t + list(kw_t.values())
        any_tainted = any(t_any(t) for t in all_t)
        targets = self.eff.calls.get(id(e), []) if self.eff is not None else []
        here = f"{self.f.module.rel}:{e.lineno} ({self.f.qual})"
        # sinks designated by the attribute through which they are called (lexer error callback)
        if isinstance(f, ast.Attribute) and f.attr in self.cfg.sink_call_attrs and self.is_self(f.value):
            return CLEAN
        fts = [t for t in targets if t.kind in ("func", "ctor")]
        result = CLEAN
        if fts:
            for t in fts:
                if t.kind == "ctor" and t.cls is not None:
                    mapping = t.argmap
                    used = set()
                    for pname, expr in mapping.items():
                        at = argt.get(id(expr), CLEAN)
                        used.add(id(expr))
                        if t_any(at) and not self.cfg.ctor_param_ok(t.cls, pname):
                            self.bad(expr, f"{self.cfg.what}-derived value passed to parameter `{pname}` of {t.cls.name}(...)")
                    if t.func is None and not mapping and any_tainted and not self.cfg.ctor_param_ok(t.cls, "*"):
                        self.bad(e, f"{self.cfg.what}-derived value passed to {t.cls.name}(...)")
                    if self.cfg.ctor_param_ok(t.cls, "<result>"):
                        result = TAINT
                    continue
                callee = t.func
                if callee.key in self.TA.in_scope:
                    for pname, expr in t.argmap.items():
                        self.TA.set_param((callee.key, pname), argt.get(id(expr), CLEAN), here)
                    result = t_join(result, self.TA.ret.get(callee.key, CLEAN))
                else:
                    for pname, expr in t.argmap.items():
                        if t_any(argt.get(id(expr), CLEAN)):
                            self.bad(expr, f"{self.cfg.what}-derived value passed to `{pname}` of {callee.qual} (outside the coordinate domain)")
            if recv_t == TAINT:
                result = TAINT
            return result
        # no internal target: builtins, external functions, container methods, callable parameters
        name = f.id if isinstance(f, ast.Name) else (f.attr if isinstance(f, ast.Attribute) else "")
        if isinstance(f, ast.Name):
            if name in ("isinstance", "hasattr", "callable", "id", "type", "issubclass"):
                return CLEAN
            if name in ("str", "repr", "format", "cast"):
                return TAINT if any_tainted else CLEAN
            if name in ("list", "tuple", "dict", "set", "sorted", "reversed", "frozenset"):
                out = CLEAN
                for t in all_t:
                    out = t_join(out, t if name == "dict" and t in kw_t.values() else t_elem(t) if t not in (TAINT,) else t)
                if any(t == TAINT for t in pos_t):
                    self.bad(e, f"{self.cfg.what}-derived value passed to {name}()")
                return ("seq", out) if t_any(out) else CLEAN
            if name == "getattr" and len(e.args) >= 2 and isinstance(e.args[1], ast.Constant):
                if e.args[1].value in self.cfg.source_attrs:
                    return TAINT
                return TAINT if pos_t[0] == TAINT else CLEAN
            if name in ("getattr", "vars") and not (self.is_self(e.args[0]) if e.args else False):
                return TAINT          # a computed attribute name may denote a coordinate attribute
            if name in ("enumerate", "zip", "iter"):
                out = CLEAN
                for t in pos_t:
                    out = t_join(out, t_elem(t))
                return ("seq", out) if t_any(out) else CLEAN
        if isinstance(f, ast.Attribute) and name in MUTATORS:
            if any_tainted:
                stored = CLEAN
                for t in (pos_t[1:] if name in ("insert", "setdefault") and len(pos_t) > 1 else pos_t):
                    stored = t_join(stored, t_elem(t) if name in ("extend", "update") else t)
                if name in ("insert", "setdefault") and pos_t and t_any(pos_t[0]):
                    self.bad(e, f"index/key derived from a {self.cfg.what}")
                if isinstance(f.value, ast.Name) and f.value.id in self.locals:
                    self.bind(st, f.value.id, t_join(self.lookup(f.value.id, st), ("seq", stored)))
                else:
                    self.bad(e, f"{self.cfg.what}-derived value stored into a container that is not a local variable")
            if name in ("pop", "popitem") :
                return t_elem(recv_t) if recv_t not in (CLEAN, TAINT) else recv_t
            return CLEAN
        if isinstance(f, ast.Attribute) and recv_t not in (CLEAN,):
            # reading out of a carrier / a method of a coordinate object
            if any_tainted:
                self.bad(e, f"{self.cfg.what}-derived argument to method .{name}()")
            if name in ("get", "copy", "values", "items", "__getitem__"):
                return recv_t if name in ("copy",) else t_elem(recv_t) if recv_t != TAINT else TAINT
            return TAINT if recv_t == TAINT else CLEAN
        if any_tainted:
            self.bad(e, f"{self.cfg.what}-derived value passed to `{src_of(f)}` (not a coordinate sink)")
        return CLEAN

    # ---- statements ------------------------------------------------------------------------------
    def assign(self, target, t, st, node):
        if isinstance(target, ast.Name):
            self.bind(st, target.id, t)
        elif isinstance(target, (ast.Tuple, ast.List)):
            n = len(target.elts)
            if t not in (CLEAN, TAINT) and t[0] == "tup" and len(t[1]) == n and not any(isinstance(x, ast.Starred) for x in target.elts):
                for x, tx in zip(target.elts, t[1]):
                    self.assign(x, tx, st, node)
            else:
                for x in target.elts:
                    self.assign(x, t_elem(t), st, node)
        elif isinstance(target, ast.Starred):
            self.assign(target.value, t, st, node)
        elif isinstance(target, ast.Attribute):
            self.tv(target.value, st)
            ok = target.attr in self.cfg.store_attrs or (target.attr in self.cfg.self_store_attrs and self.is_self(target.value))
            if t_any(t) and not ok:
                self.bad(node, f"{self.cfg.what}-derived value stored into attribute `.{target.attr}`")
        elif isinstance(target, ast.Subscript):
            bt = self.tv(target.value, st)
            if t_any(self.tv(target.slice, st)):
                self.bad(node, f"subscript/index derived from a {self.cfg.what}")
            if t_any(t):
                if isinstance(target.value, ast.Name) and target.value.id in self.locals:
                    self.bind(st, target.value.id, t_join(self.lookup(target.value.id, st), ("seq", t)))
                else:
                    self.bad(node, f"{self.cfg.what}-derived value stored into a container that is not a local variable")

    def do_simple(self, s, st):
        if isinstance(s, ast.Assign):
            t = self.tv(s.value, st)
            for x in s.targets:
                self.assign(x, t, st, s)
        elif isinstance(s, ast.AnnAssign):
            if s.value is not None:
                self.assign(s.target, self.tv(s.value, st), st, s)
        elif isinstance(s, ast.AugAssign):
            r = self.tv(s.value, st)
            tg = s.target
            if isinstance(tg, ast.Name):
                cur = self.lookup(tg.id, st)
                if (cur == TAINT or r == TAINT):
                    if not self.cfg.allow_arith:
                        self.bad(s, f"arithmetic on a {self.cfg.what}-derived value")
                    self.bind(st, tg.id, TAINT)
                else:
                    self.bind(st, tg.id, t_join(cur, r) if (cur == CLEAN or r == CLEAN) else ("seq", t_join(t_elem(cur), t_elem(r))))
            elif isinstance(tg, ast.Attribute):
                cur = self.tv(ast.Attribute(value=tg.value, attr=tg.attr, ctx=ast.Load(), lineno=tg.lineno, col_offset=tg.col_offset), st)
                t = t_join(cur, r)
                if t == TAINT and not self.cfg.allow_arith:
                    self.bad(s, f"arithmetic on a {self.cfg.what}-derived value")
                self.assign(tg, t, st, s)
            else:
                self.assign(tg, r, st, s)
        elif isinstance(s, ast.Expr):
            self.tv(s.value, st)
        elif isinstance(s, ast.Assert):
            self.cond(s.test, st, "assertion")
        elif isinstance(s, ast.Delete):
            for x in s.targets:
                if isinstance(x, ast.Subscript) and t_any(self.tv(x.slice, st)):
                    self.bad(s, f"subscript/index derived from a {self.cfg.what}")
        return st

    def do_test(self, e, st):
        s2 = dict(st)
        self.cond(e, s2)
        return s2, dict(s2)

    def do_iter(self, s, st):
        t = self.tv(s.iter, st)
        if t == TAINT:
            self.bad(s.iter, f"iteration over a {self.cfg.what}-derived value")
        self._it = getattr(self, "_it", {})
        self._it[id(s)] = t
        return st

    def do_bind_iter(self, s, st):
        s2 = dict(st)
        self.assign(s.target, t_elem(self._it[id(s)]), s2, s)
        return s2

    def do_return(self, s, st):
        if s.value is not None:
            self.ret = t_join(self.ret, self.tv(s.value, st))
        return st

    def do_raise(self, s, st):
        # the text of an error message may mention coordinates
        if isinstance(s.exc, ast.Call):
            for a in s.exc.args:
                self.tv(a, st)
            for k in s.exc.keywords:
                self.tv(k.value, st)
        elif s.exc is not None:
            self.tv(s.exc, st)
        return st

    def do_subject(self, s, st):
        t = self.tv(s.subject, st)
        if t_any(t):
            self.bad(s.subject, f"match subject derived from a {self.cfg.what}")
        return st

    def do_case(self, s, case, st):
        s2 = dict(st)
        for n in ast.walk(case.pattern):
            if isinstance(n, (ast.MatchAs, ast.MatchStar)) and n.name:
                self.bind(s2, n.name, CLEAN)
            elif isinstance(n, ast.MatchValue):
                if t_any(self.tv(n.value, s2)):
                    self.bad(n.value, f"match pattern derived from a {self.cfg.what}")
        return s2, st

    def do_with(self, s, st):
        for it in s.items:
            t = self.tv(it.context_expr, st)
            if it.optional_vars is not None:
                self.assign(it.optional_vars, t, st, s)
        return st

    def do_handler(self, h, st):
        s2 = dict(st) if st is not None else {}
        if h.name:
            self.bind(s2, h.name, CLEAN)
        return s2


# ======================================================================================
# helpers for the obligation families
# ======================================================================================
WHITESPACE = {" ", "\t", "\n", "\r", "\f", "\v"}


def _pattern_strings(p) -> Optional[List[str]]:
    if isinstance(p, ast.MatchValue) and isinstance(p.value, ast.Constant) and isinstance(p.value.value, str):
        return [p.value.value]
    if isinstance(p, ast.MatchOr):
        out = []
        for x in p.patterns:
            r = _pattern_strings(x)
            if r is None:
                return None
            out += r
        return out
    return None


def whitespace_branches(fn_node) -> List[Tuple[str, List[ast.stmt], int, int]]:
    """Branches of a function that are selected by a comparison of a character with whitespace
    constants only: match-cases `case " " | "\\t":` and `if ch == " "` / `if ch in " \\t"` tests.
    -> [(label, body, first line, last line)]"""
    out = []
    for n in ast.walk(fn_node):
        if isinstance(n, ast.Match):
            for c in n.cases:
                strs = _pattern_strings(c.pattern)
                if strs and all(s and set(s) <= WHITESPACE for s in strs) and c.guard is None:
                    out.append(("case " + "|".join(repr(s) for s in strs), c.body, c.body[0].lineno, c.body[-1].end_lineno))
        elif isinstance(n, ast.If) and isinstance(n.test, ast.Compare) and len(n.test.ops) == 1 \
                and isinstance(n.test.ops[0], (ast.Eq, ast.In)):
            c = n.test.comparators[0]
            strs = None
            if isinstance(c, ast.Constant) and isinstance(c.value, str):
                strs = [c.value] if isinstance(n.test.ops[0], ast.Eq) else list(c.value)
            elif isinstance(c, (ast.Tuple, ast.Set, ast.List)) and all(isinstance(x, ast.Constant) and isinstance(x.value, str) for x in c.elts):
                strs = [x.value for x in c.elts]
            if strs and all(s and set(s) <= WHITESPACE for s in strs):
                out.append(("if " + src_of(n.test), n.body, n.body[0].lineno, n.body[-1].end_lineno))
    return out


def sites_between(eff: Effects, lo: int, hi: int) -> List[Site]:
    return [s for s in eff.sites.values() if lo <= s.lineno <= hi]


def returns_in(stmts: List[ast.stmt]) -> List[ast.Return]:
    out = []
    for s in stmts:
        for n in ast.walk(s):
            if isinstance(n, ast.Return):
                out.append(n)
    return out


_CTX: Dict[str, Any] = {}


def context(frames_module):
    """Program + effect analysis of the current tree (cached per process)."""
    key = core.REPO
    if _CTX.get("key") != key:
        core.Source._cache.clear()
        prog = Program()
        A = Analysis(prog, FrameSpec(frames_module)).run()
        _CTX.clear()
        _CTX.update(key=key, prog=prog, A=A)
    return _CTX["prog"], _CTX["A"]
