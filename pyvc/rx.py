"""RX engine: regular-language obligations over the lexer rules of the CURRENT repo tree.

Parts of this module
  1. alphabet, character sets, small z3 regex builders;
  2. mechanical translation  sre parse tree (re._parser.parse)  ->  z3 regex terms, in
     continuation-passing style so that one-character negative lookaheads and `$` are exact;
  3. a concrete evaluator of z3 regex terms (Brzozowski derivatives -> lazy DFA), used to
     re-validate solver witnesses and for the bounded checks;
  4. the query runner (z3, alternative formulation, cvc5 CLI), process pool.

ALPHABET.  z3 characters are the code points 0..0x2FFFF.  MARK = U+2FFFF is reserved as a
position marker in "marked" languages (see `Translator`); real text ranges over
SIGMA = 0..0x2FFFE.  Python strings may also contain U+2FFFF..U+10FFFF.  Those code points
are covered by a symmetry argument that is CHECKED mechanically (`generic_char_check`):
no character class that occurs in any translated pattern has a range boundary at or above
GENERIC_FROM, so every code point >= GENERIC_FROM belongs to exactly the same classes as
U+2FFFE and can be exchanged with it in any witness.
"""
from __future__ import annotations

import bisect
import ctypes
import itertools
import os
import re
import subprocess
import sys
import tempfile
import time
from typing import Dict, List, Optional, Sequence, Tuple

import z3

try:  # python 3.11+
    import re._parser as sre_parse
    import re._constants as sre_c
except ImportError:  # pragma: no cover
    import sre_parse
    import sre_constants as sre_c

MAXCH = 0x2FFFF
MARK = 0x2FFFF  # the marker character '#' of marked languages
SIGMA_MAX = 0x2FFFE
GENERIC_FROM = 0x2F000  # no class boundary may lie at/above this (checked)

RESORT = z3.ReSort(z3.StringSort())


class Untranslatable(Exception):
    """The sre construct cannot be translated soundly; callers fall back to bounded checks."""


# ----------------------------------------------------------------------------------------
# character sets: sorted, disjoint, non-adjacent tuples of (lo, hi) over 0..MAXCH
# ----------------------------------------------------------------------------------------
CSet = Tuple[Tuple[int, int], ...]


def cs_norm(rs) -> CSet:
    out: List[List[int]] = []
    for lo, hi in sorted((max(0, a), min(MAXCH, b)) for a, b in rs if a <= b):
        if lo > hi:
            continue
        if out and lo <= out[-1][1] + 1:
            out[-1][1] = max(out[-1][1], hi)
        else:
            out.append([lo, hi])
    return tuple((a, b) for a, b in out)


def cs_neg(cs: CSet, top: int = MAXCH) -> CSet:
    out, prev = [], 0
    for lo, hi in cs:
        if lo > prev:
            out.append((prev, lo - 1))
        prev = hi + 1
    if prev <= top:
        out.append((prev, top))
    return cs_norm(out)


def cs_union(a: CSet, b: CSet) -> CSet:
    return cs_norm(list(a) + list(b))


def cs_inter(a: CSet, b: CSet) -> CSet:
    return cs_neg(cs_union(cs_neg(a), cs_neg(b)))


def cs_minus(a: CSet, b: CSet) -> CSet:
    return cs_inter(a, cs_neg(b))


def cs_has(cs: CSet, c: int) -> bool:
    i = bisect.bisect_right(cs, (c, MAXCH + 1)) - 1
    return i >= 0 and cs[i][0] <= c <= cs[i][1]


CS_ALL: CSet = ((0, MAXCH),)
CS_SIGMA: CSet = ((0, SIGMA_MAX),)
CS_MARK: CSet = ((MARK, MARK),)

_category_cache: Dict[str, CSet] = {}


def category_cset(name: str) -> CSet:
    """Character set of an sre CATEGORY, computed from the real `re` over all of 0..MAXCH
    (so `\\d` is the Unicode Nd set of THIS interpreter, not an assumption)."""
    if name not in _category_cache:
        pat = _CATEGORY_PATTERN.get(name)
        if pat is None:
            raise Untranslatable(f"category {name}")
        rx = re.compile(pat)
        allc = "".join(map(chr, range(MAXCH + 1)))
        rs, start, prev = [], None, None
        for m in rx.finditer(allc):
            c = m.start()
            if start is None:
                start = prev = c
            elif c == prev + 1:
                prev = c
            else:
                rs.append((start, prev))
                start = prev = c
        if start is not None:
            rs.append((start, prev))
        _category_cache[name] = cs_norm(rs)
    return _category_cache[name]


# ----------------------------------------------------------------------------------------
# z3 builders (every character goes through the \u{..} escape: z3.StringVal interprets
# escapes inside Python strings, so raw text must never be passed to it)
# ----------------------------------------------------------------------------------------
def z3str(s: str):
    return z3.StringVal("".join("\\u{%x}" % ord(c) for c in s))


def z3_decode(v) -> str:
    n = z3.Z3_get_string_length(v.ctx_ref(), v.as_ast())
    arr = (ctypes.c_uint * max(n, 1))()
    if n:
        z3.Z3_get_string_contents(v.ctx_ref(), v.as_ast(), n, arr)
    return "".join(chr(arr[i]) for i in range(n))


EMPTY = z3.Empty(RESORT)
EPS = z3.Re(z3str(""))
ANYSTAR = z3.Full(RESORT)
ANYCHAR = z3.AllChar(RESORT)


def is_empty(r) -> bool:
    return z3.is_app(r) and r.decl().kind() == z3.Z3_OP_RE_EMPTY_SET


def is_eps(r) -> bool:
    return (z3.is_app(r) and r.decl().kind() == z3.Z3_OP_SEQ_TO_RE
            and z3.Z3_get_string_length(r.ctx_ref(), r.arg(0).as_ast()) == 0)


def rng(lo: int, hi: int):
    return z3.Range("\\u{%x}" % lo, "\\u{%x}" % hi)


_cls_memo: Dict[CSet, object] = {}


def cls(cs: CSet):
    """z3 regex for one character out of cs."""
    if not cs:
        return EMPTY
    if cs == CS_ALL:
        return ANYCHAR
    r = _cls_memo.get(cs)
    if r is None:
        parts = [rng(lo, hi) for lo, hi in cs]
        r = _cls_memo[cs] = parts[0] if len(parts) == 1 else z3.Union(*parts)
    return r


def lit(s: str):
    return z3.Re(z3str(s))


def cat(*rs):
    rs = [r for r in rs if not is_eps(r)]
    if any(is_empty(r) for r in rs):
        return EMPTY
    if not rs:
        return EPS
    return rs[0] if len(rs) == 1 else z3.Concat(*rs)


def alt(*rs):
    out, seen = [], set()
    for r in rs:
        if is_empty(r) or r.get_id() in seen:
            continue
        seen.add(r.get_id())
        out.append(r)
    if not out:
        return EMPTY
    return out[0] if len(out) == 1 else z3.Union(*out)


def inter(*rs):
    if any(is_empty(r) for r in rs):
        return EMPTY
    return rs[0] if len(rs) == 1 else z3.Intersect(*rs)


def comp(r):
    return z3.Complement(r)


def star(r):
    if is_empty(r) or is_eps(r):
        return EPS
    return z3.Star(r)


def plus(r):
    return cat(r, star(r))


def opt(r):
    return alt(EPS, r)


SIGMA = cls(CS_SIGMA)
SIGMA_STAR = z3.Star(SIGMA)
MARKCH = cls(CS_MARK)


# ----------------------------------------------------------------------------------------
# 2. sre parse tree -> z3 regex, continuation-passing
# ----------------------------------------------------------------------------------------
# A continuation is a *linear form*  { var : (coeff, nullable) }  denoting the language
#   U_var  coeff . var
# where var is CONST (the coefficient itself is the language) or an unknown
# (star_id, T, s) introduced while translating an unbounded repeat:  "what may follow one
# more iteration, given that the first character that follows must avoid the set T".
# s is the marker state (0: the marker MARK has not been passed yet, 1: it has / there is
# no marker).  `nullable` records whether coeff contains the empty string.
#
# Semantics translated (CPython `re`, str patterns, no flags):
#   (?!C)  for a one-character class C: the next character of the text, if any, is not in C.
#          In marker state 0 the marker may stand between here and the next real character
#          and is looked through.
#   $      (AT_END without MULTILINE): the rest of the text is "" or "\n".
# Everything else raises Untranslatable.
CONST = ("const",)
OPCODES_TRANSLATED = (
    "LITERAL", "NOT_LITERAL", "ANY", "IN{LITERAL,RANGE,CATEGORY,NEGATE}", "BRANCH",
    "SUBPATTERN(no inline flags)", "MAX_REPEAT (bounded: unrolled; unbounded: least "
    "solution of a linear system by Arden's rule)", "ASSERT_NOT(direction=1, body = one "
    "character class)", "AT(AT_END)",
)

Lin = Dict[tuple, Tuple[object, bool]]


def lin_const(r, nullable: bool) -> Lin:
    return {} if is_empty(r) else {CONST: (r, nullable)}


def lin_union(*ls: Lin) -> Lin:
    out: Lin = {}
    for l in ls:
        for v, (c, n) in l.items():
            if v in out:
                c0, n0 = out[v]
                out[v] = (alt(c0, c), n0 or n)
            else:
                out[v] = (c, n)
    return out


def lin_prefix(r, rn: bool, l: Lin) -> Lin:
    if is_empty(r):
        return {}
    return {v: (cat(r, c), rn and n) for v, (c, n) in l.items()}


class Translator:
    """Translate one pattern string.  `marked=False`: plain languages over the whole z3
    alphabet.  `marked=True`: languages of strings u MARK v over SIGMA, the marker giving a
    position in the text u v."""

    _ids = 0

    def __init__(self, pattern: str, flags: int = 0):
        self.pattern = pattern
        self.tree = sre_parse.parse(pattern, flags)
        fl = self.tree.state.flags
        if fl & ~sre_c.SRE_FLAG_UNICODE:
            raise Untranslatable(f"pattern flags {fl}")
        self.ops_seen: set = set()
        self.csets: List[CSet] = []  # every explicit class, for generic_char_check
        self.categories: set = set()
        self.has_lookaround = False

    # -- character classes ------------------------------------------------------------
    def _in_cset(self, items) -> CSet:
        neg, rs, cat_rs = False, [], []
        for op, av in items:
            name = str(op)
            self.ops_seen.add("IN/" + name)
            if name == "NEGATE":
                neg = True
            elif name == "LITERAL":
                rs.append((av, av))
            elif name == "RANGE":
                rs.append((av[0], av[1]))
            elif name == "CATEGORY":
                self.categories.add(str(av))
                cat_rs += list(category_cset(str(av)))
            else:
                raise Untranslatable(f"class item {name}")
        self.csets.append(cs_norm(rs))  # explicit part only; categories are checked apart
        cs = cs_norm(rs + cat_rs)
        return cs_neg(cs) if neg else cs

    def _single_char(self, node) -> Optional[CSet]:
        op, av = node
        name = str(op)
        if name == "LITERAL":
            self.csets.append(((av, av),))
            return ((av, av),)
        if name == "NOT_LITERAL":
            self.csets.append(((av, av),))
            return cs_neg(((av, av),))
        if name == "ANY":
            self.csets.append(((10, 10),))
            return cs_neg(((10, 10),))  # no DOTALL (flags checked in __init__)
        if name == "IN":
            return self._in_cset(av)
        return None

    # -- restrictions on what follows -------------------------------------------------
    def _restrict(self, S: CSet, l: Lin, s: int, marked: bool) -> Lin:
        """First real character of the continuation, if any, is not in S."""
        if marked and s == 0:
            bad = cat(opt(MARKCH), cls(S), ANYSTAR)
        else:
            bad = cat(cls(S), ANYSTAR)
        ok = comp(bad)
        out: Lin = {}
        for v, (c, n) in l.items():
            if v == CONST:
                out = lin_union(out, {CONST: (inter(c, ok), n)})
            else:
                # nonempty coefficient part keeps the variable; the empty part pushes the
                # restriction onto the variable itself
                if is_eps(c):
                    ne = EMPTY
                else:
                    ne = inter(c, ok, cat(ANYCHAR, ANYSTAR))
                if not is_empty(ne):
                    out = lin_union(out, {v: (ne, False)})
                if n:
                    sid, T, vs = v
                    out = lin_union(out, {(sid, cs_union(T, S), vs): (EPS, True)})
        return out

    def _at_end(self, l: Lin, s: int, marked: bool) -> Lin:
        for v in l:
            if v != CONST:
                raise Untranslatable("'$' inside an unbounded repeat")
        if CONST not in l:
            return {}
        c, n = l[CONST]
        if marked and s == 0:
            m, nl = MARKCH, lit("\n")
            endl = alt(m, cat(m, nl), cat(nl, m))
            return {CONST: (inter(c, endl), False)}
        return {CONST: (inter(c, alt(EPS, lit("\n"))), n)}

    # -- the translation proper -----------------------------------------------------------
    # kv: {state: Lin};  returns {state: Lin}.  States: (1,) unmarked, (0, 1) marked.
    def _seq(self, nodes, kv: Dict[int, Lin], marked: bool) -> Dict[int, Lin]:
        for node in reversed(list(nodes)):
            kv = self._node(node, kv, marked)
        return kv

    def _node(self, node, kv: Dict[int, Lin], marked: bool) -> Dict[int, Lin]:
        op, av = node
        name = str(op)
        self.ops_seen.add(name)
        cs = self._single_char(node)
        if cs is not None:
            if marked:
                c = cls(cs_inter(cs, CS_SIGMA))
                return {
                    0: lin_union(lin_prefix(c, False, kv[0]),
                                 lin_prefix(cat(MARKCH, c), False, kv[1])),
                    1: lin_prefix(c, False, kv[1]),
                }
            return {1: lin_prefix(cls(cs), False, kv[1])}
        if name == "SUBPATTERN":
            _grp, add_flags, del_flags, body = av
            if add_flags or del_flags:
                raise Untranslatable("inline flags")
            return self._seq(body, kv, marked)
        if name == "BRANCH":
            outs = [self._seq(b, kv, marked) for b in av[1]]
            return {s: lin_union(*[o[s] for o in outs]) for s in kv}
        if name == "ASSERT_NOT":
            direction, body = av
            body = list(body)
            S = self._single_char(body[0]) if len(body) == 1 else None
            if direction != 1 or S is None:
                raise Untranslatable("lookaround other than one-character negative lookahead")
            self.has_lookaround = True
            return {s: self._restrict(S, kv[s], s, marked) for s in kv}
        if name == "AT":
            if str(av) != "AT_END":
                raise Untranslatable(f"anchor {av}")
            self.has_lookaround = True
            return {s: self._at_end(kv[s], s, marked) for s in kv}
        if name == "MAX_REPEAT":
            lo, hi, body = av
            body = list(body)
            if hi == sre_c.MAXREPEAT:
                kv = self._star(body, kv, marked)
            else:
                if hi - lo > 64:
                    raise Untranslatable("bounded repeat too large to unroll")
                inner = kv
                for _ in range(hi - lo):
                    one = self._seq(body, inner, marked)
                    inner = {s: lin_union(kv[s], one[s]) for s in kv}
                kv = inner
            if lo > 64:
                raise Untranslatable("bounded repeat too large to unroll")
            for _ in range(lo):
                kv = self._seq(body, kv, marked)
            return kv
        raise Untranslatable(f"sre opcode {name}")

    # -- unbounded repeat: least solution of  Y = K  u  body(Y) -----------------------------
    def _star(self, body, kv: Dict[int, Lin], marked: bool) -> Dict[int, Lin]:
        Translator._ids += 1
        sid = ("star", Translator._ids)
        states = sorted(kv)
        base = {s: {(sid, (), s): (EPS, True)} for s in states}
        one = self._seq(body, base, marked)
        rhs0 = {s: lin_union(kv[s], one[s]) for s in states}  # equation of Y_((),s)
        eqs: Dict[tuple, Lin] = {}
        todo = [(sid, (), s) for s in states]
        while todo:
            v = todo.pop()
            if v in eqs:
                continue
            _, T, s = v
            e = rhs0[s] if not T else self._restrict(T, rhs0[s], s, marked)
            eqs[v] = e
            for w in e:
                if w != CONST and w[0] == sid and w not in eqs:
                    todo.append(w)
        if len(eqs) > 12:
            raise Untranslatable("too many lookahead contexts in a repeat")
        # Gaussian elimination with Arden's rule:  Y = A.Y u R   =>   Y = A* . R
        order = sorted(eqs, key=lambda v: (v[2], v[1]), reverse=True)  # solve ((),0) last
        for i, v in enumerate(order):
            e = dict(eqs[v])
            if v in e:
                a, _ = e.pop(v)
                e = lin_prefix(star(a), True, e)
            eqs[v] = e
            for w in order[i + 1:]:
                ew = eqs[w]
                if v in ew:
                    ew = dict(ew)
                    c, n = ew.pop(v)
                    eqs[w] = lin_union(ew, lin_prefix(c, n, e))
        # `order` ends with the (.., (), 0) / (.., (), 1) unknowns; after the forward pass
        # equation k only mentions unknowns later in `order`... so back-substitute.
        for i in range(len(order) - 1, -1, -1):
            v = order[i]
            for w in order[:i]:
                ew = eqs[w]
                if v in ew:
                    ew = dict(ew)
                    c, n = ew.pop(v)
                    eqs[w] = lin_union(ew, lin_prefix(c, n, eqs[v]))
        out = {}
        for s in states:
            e = eqs[(sid, (), s)]
            assert all(w == CONST or w[0] != sid for w in e), "unsolved unknown"
            out[s] = e
        return out

    # -- public: the languages of a rule ------------------------------------------------------
    @staticmethod
    def _const(l: Lin):
        for v in l:
            if v != CONST:
                raise Untranslatable("free unknown at top level")
        return l[CONST][0] if CONST in l else EMPTY

    def full(self):
        """{ m : the pattern matches exactly m when m is the whole remaining text }."""
        return self._const(self._seq(self.tree, {1: lin_const(EPS, True)}, False)[1])

    def pref(self):
        """{ t : the pattern matches some prefix of the text t }  (contexts exact)."""
        return self._const(self._seq(self.tree, {1: lin_const(ANYSTAR, True)}, False)[1])

    def then(self, k):
        """{ m r : the pattern matches m in the text m r, r in k }."""
        return self._const(self._seq(self.tree, {1: lin_const(k, False)}, False)[1])

    def graph(self):
        """{ u MARK v : the pattern matches exactly u at the start of the text u v }."""
        kv = {0: lin_const(cat(MARKCH, SIGMA_STAR), False), 1: {}}
        return self._const(self._seq(self.tree, kv, True)[0])

    def at_or_beyond(self):
        """{ u MARK v : the pattern matches some x with |x| >= |u| at the start of u v }."""
        kv = {0: lin_const(cat(MARKCH, SIGMA_STAR), False), 1: lin_const(SIGMA_STAR, True)}
        return self._const(self._seq(self.tree, kv, True)[0])

    def any_marked(self):
        """{ u MARK v : the pattern matches some prefix of u v }."""
        kv = {0: lin_const(cat(SIGMA_STAR, MARKCH, SIGMA_STAR), False),
              1: lin_const(SIGMA_STAR, True)}
        return self._const(self._seq(self.tree, kv, True)[0])


MARKED_TEXT = cat(SIGMA_STAR, MARKCH, SIGMA_STAR)


_CATEGORY_PATTERN = {
    "CATEGORY_DIGIT": r"\d", "CATEGORY_NOT_DIGIT": r"\D", "CATEGORY_WORD": r"\w",
    "CATEGORY_NOT_WORD": r"\W", "CATEGORY_SPACE": r"\s", "CATEGORY_NOT_SPACE": r"\S",
}


def generic_char_check(csets: Sequence[CSet], categories: Sequence[str] = ()) -> Optional[str]:
    """None if every class of the translated patterns treats all code points
    GENERIC_FROM..0x10FFFF alike (explicit ranges: no boundary up there; categories: asked
    of the real `re` for every one of those code points)."""
    for cs in csets:
        for lo, hi in cs:
            if hi >= GENERIC_FROM and not (lo <= GENERIC_FROM and hi >= MAXCH):
                return f"class range ({lo:#x},{hi:#x}) reaches the generic region"
    for name in sorted(set(categories)):
        if name not in _generic_cat:
            high = "".join(map(chr, range(GENERIC_FROM, 0x110000)))
            n = sum(1 for _ in re.finditer(_CATEGORY_PATTERN[name], high))
            _generic_cat[name] = n in (0, len(high))
        if not _generic_cat[name]:
            return f"category {name} does not treat the code points >= {GENERIC_FROM:#x} alike"
    return None


_generic_cat: Dict[str, bool] = {}


# ----------------------------------------------------------------------------------------
# 3. concrete evaluator of z3 regex terms: Brzozowski derivatives -> lazy DFA
# ----------------------------------------------------------------------------------------
class Dfa:
    """Lazy DFA of one z3 regex term.  Independent of z3's solver: used to re-validate
    witnesses and to evaluate languages concretely in the bounded checks."""

    # One node store per process, shared by all Dfa instances: nodes are hash-consed, the
    # conversion of a z3 term and the derivative of a node by a character are memoised
    # globally (both are independent of the query they were first needed for).
    _key2id: Dict[tuple, int] = {}
    _keys: List[tuple] = []
    _nul: List[bool] = []
    _conv_memo_g: Dict[int, Tuple[int, object]] = {}  # z3 ast id -> (node, term kept alive)
    _d_g: Dict[Tuple[int, int], int] = {}             # (node, character) -> node
    _dead_g: Dict[int, bool] = {}

    def __init__(self, term):
        self.key2id, self.keys, self.nul = Dfa._key2id, Dfa._keys, Dfa._nul
        self._d, self._dead = Dfa._d_g, Dfa._dead_g
        self.E = self._mk(("0",), False)
        self.EPSN = self._mk(("e",), True)
        self.root = self._conv(term)
        leaves, seen, stack = [], set(), [self.root]
        while stack:  # leaf classes reachable from the root (unions were merged by _nary)
            x = stack.pop()
            if x in seen:
                continue
            seen.add(x)
            k = self.keys[x]
            if k[0] == "c":
                leaves.append(k[1])
            elif k[0] in ("|", "&"):
                stack.extend(k[1])
            elif k[0] in (".", "*", "~"):
                stack.extend(k[1:])
        bounds = {0, MAXCH + 1}
        for cs in leaves:
            for lo, hi in cs:
                bounds.add(lo)
                bounds.add(hi + 1)
        bs = sorted(bounds)
        self.atom_lo = bs[:-1]  # interval i = [bs[i], bs[i+1]-1]
        # intervals that lie in exactly the same leaf classes behave alike: group them
        sig2g: Dict[tuple, int] = {}
        self.group_of: List[int] = []
        self.groups: List[List[Tuple[int, int]]] = []
        for i, lo in enumerate(self.atom_lo):
            sig = tuple(cs_has(cs, lo) for cs in leaves)
            g = sig2g.setdefault(sig, len(sig2g))
            if g == len(self.groups):
                self.groups.append([])
            self.groups[g].append((lo, bs[i + 1] - 1))
            self.group_of.append(g)
        self.natoms = len(self.groups)
        self.rep = [g[0][0] for g in self.groups]
        self.exhausted = False

    # -- hash-consed constructors -------------------------------------------------------
    def _mk(self, key, nul):
        i = self.key2id.get(key)
        if i is None:
            i = len(self.keys)
            self.key2id[key] = i
            self.keys.append(key)
            self.nul.append(nul)
        return i

    def _cls(self, cs: CSet):
        if not cs:
            return self.E
        return self._mk(("c", cs), False)

    def _cat(self, a, b):
        if a == self.E or b == self.E:
            return self.E
        if a == self.EPSN:
            return b
        if b == self.EPSN:
            return a
        ka = self.keys[a]
        if ka[0] == ".":  # keep right-nested
            return self._cat(ka[1], self._cat(ka[2], b))
        return self._mk((".", a, b), self.nul[a] and self.nul[b])

    def _nary(self, tag, items):
        flat, css = set(), None
        for x in items:
            k = self.keys[x]
            if k[0] == tag:
                flat.update(k[1])
            else:
                flat.add(x)
        top = self._mk(("~", self.E), True)  # Sigma*
        if tag == "|":
            flat.discard(self.E)
            if top in flat:
                return top
            cs = [x for x in flat if self.keys[x][0] == "c"]
            if len(cs) > 1:
                u: CSet = ()
                for x in cs:
                    u = cs_union(u, self.keys[x][1])
                    flat.discard(x)
                flat.add(self._mk(("c", u), False))
            if not flat:
                return self.E
            nul = any(self.nul[x] for x in flat)
        else:
            flat.discard(top)
            if self.E in flat:
                return self.E
            if not flat:
                return top
            nul = all(self.nul[x] for x in flat)
        if len(flat) == 1:
            return next(iter(flat))
        return self._mk((tag, tuple(sorted(flat))), nul)

    def _not(self, a):
        k = self.keys[a]
        if k[0] == "~":
            return k[1]
        return self._mk(("~", a), not self.nul[a])

    def _star(self, a):
        if a == self.E or a == self.EPSN:
            return self.EPSN
        if self.keys[a][0] == "*":
            return a
        return self._mk(("*", a), True)

    # -- z3 term -> node ------------------------------------------------------------------
    def _conv(self, t) -> int:
        tid = t.get_id()
        hit = Dfa._conv_memo_g.get(tid)
        if hit is not None:
            return hit[0]
        k = t.decl().kind()
        ch = [self._conv(t.arg(i)) for i in range(t.num_args())] if k not in (
            z3.Z3_OP_SEQ_TO_RE, z3.Z3_OP_RE_RANGE) else []
        if k == z3.Z3_OP_SEQ_TO_RE:
            r = self.EPSN
            for c in reversed(z3_decode(t.arg(0))):
                r = self._cat(self._cls(((ord(c), ord(c)),)), r)
        elif k == z3.Z3_OP_RE_RANGE:
            lo, hi = z3_decode(t.arg(0)), z3_decode(t.arg(1))
            r = self._cls(((ord(lo), ord(hi)),)) if len(lo) == 1 == len(hi) and lo <= hi else self.E
        elif k == z3.Z3_OP_RE_UNION:
            r = self._nary("|", ch)
        elif k == z3.Z3_OP_RE_INTERSECT:
            r = self._nary("&", ch)
        elif k == z3.Z3_OP_RE_CONCAT:
            r = self.EPSN
            for x in reversed(ch):
                r = self._cat(x, r)
        elif k == z3.Z3_OP_RE_STAR:
            r = self._star(ch[0])
        elif k == z3.Z3_OP_RE_PLUS:
            r = self._cat(ch[0], self._star(ch[0]))
        elif k == z3.Z3_OP_RE_OPTION:
            r = self._nary("|", [self.EPSN, ch[0]])
        elif k == z3.Z3_OP_RE_COMPLEMENT:
            r = self._not(ch[0])
        elif k == z3.Z3_OP_RE_DIFF:
            r = self._nary("&", [ch[0], self._not(ch[1])])
        elif k == z3.Z3_OP_RE_EMPTY_SET:
            r = self.E
        elif k == z3.Z3_OP_RE_FULL_SET:
            r = self._not(self.E)
        elif k == z3.Z3_OP_RE_FULL_CHAR_SET:
            r = self._cls(CS_ALL)
        elif k == z3.Z3_OP_RE_LOOP:
            ps = t.decl().params()
            lo, hi = ps[0], (ps[1] if len(ps) > 1 else None)
            r = self._star(ch[0]) if hi is None else self.EPSN
            if hi is not None:
                for _ in range(hi - lo):
                    r = self._nary("|", [self.EPSN, self._cat(ch[0], r)])
            for _ in range(lo):
                r = self._cat(ch[0], r)
        else:
            raise ValueError(f"Dfa: unsupported z3 regex operator {t.decl().name()}")
        Dfa._conv_memo_g[tid] = (r, t)  # keeping t alive keeps its ast id from being reused
        return r

    # -- derivatives ------------------------------------------------------------------------
    def atom_of(self, c: int) -> int:
        if c > MAXCH:
            c = SIGMA_MAX  # generic code point (see module docstring / generic_char_check)
        return self.group_of[bisect.bisect_right(self.atom_lo, c) - 1]

    def _deriv(self, n: int, a: int) -> int:
        key = (n, self.rep[a])
        r = self._d.get(key)
        if r is not None:
            return r
        k = self.keys[n]
        tag = k[0]
        if tag in ("0", "e"):
            r = self.E
        elif tag == "c":
            r = self.EPSN if cs_has(k[1], self.rep[a]) else self.E
        elif tag == ".":
            r = self._cat(self._deriv(k[1], a), k[2])
            if self.nul[k[1]]:
                r = self._nary("|", [r, self._deriv(k[2], a)])
        elif tag == "*":
            r = self._cat(self._deriv(k[1], a), n)
        elif tag == "~":
            r = self._not(self._deriv(k[1], a))
        else:
            r = self._nary(tag, [self._deriv(x, a) for x in k[1]])
        self._d[key] = r
        return r

    def step(self, state: int, ch: str) -> int:
        return self._deriv(state, self.atom_of(ord(ch)))

    def run(self, s: str, state: Optional[int] = None) -> int:
        st = self.root if state is None else state
        for ch in s:
            st = self._deriv(st, self.atom_of(ord(ch)))
        return st

    def accepts(self, s: str) -> bool:
        return self.nul[self.run(s)]

    def dead(self, state: int) -> bool:
        """No accepting state reachable (explores the reachable part; memoised)."""
        if state in self._dead:
            return self._dead[state]
        seen, stack = {state}, [state]
        found = False
        while stack and not found:
            x = stack.pop()
            if self.nul[x] or self._dead.get(x) is False:
                found = True
                break
            for a in range(self.natoms):
                y = self._deriv(x, a)
                if y not in seen and self._dead.get(y) is not True:
                    seen.add(y)
                    stack.append(y)
        if found:
            self._dead[state] = False
        else:
            for x in seen:
                self._dead[x] = True
        return self._dead[state]

    def shortest(self, limit: int = 200000) -> Optional[str]:
        """A shortest accepted string (BFS, smallest representative characters)."""
        from collections import deque
        q, prev = deque([self.root]), {self.root: None}
        self.exhausted = False
        while q and len(prev) < limit:
            x = q.popleft()
            if self.nul[x]:
                out = []
                while prev[x] is not None:
                    x, a = prev[x]
                    out.append(chr(_nice_char(self.groups[a])))
                return "".join(reversed(out))
            for a in range(self.natoms):
                y = self._deriv(x, a)
                if y not in prev and y != self.E:
                    prev[y] = (x, a)
                    q.append(y)
        self.exhausted = not q  # the whole reachable part was explored: language is empty
        return None


def _nice_char(ranges) -> int:
    """a readable representative of a character class, for witnesses"""
    for c in itertools.chain(map(ord, "a0%!#@Z9 "), range(0x21, 0x7F), (0x80,)):
        if any(lo <= c <= hi for lo, hi in ranges):
            return c
    return ranges[0][0]


sys.setrecursionlimit(max(sys.getrecursionlimit(), 20000))


# ----------------------------------------------------------------------------------------
# 4. queries
# ----------------------------------------------------------------------------------------
CVC5 = os.environ.get("VERIF_CVC5", "/usr/bin/cvc5")
Lits = List[Tuple[object, bool]]  # [(regex, polarity)]: find s with InRe(s, R) == polarity


def _z3_solve(lits: Lits, timeout_ms: int, single: bool):
    s = z3.String("s")
    sol = z3.SolverFor("QF_S")
    sol.set("timeout", int(timeout_ms))
    sol.set("random_seed", 0)
    if single:
        sol.add(z3.InRe(s, inter(*[r if pol else comp(r) for r, pol in lits])))
    else:
        for r, pol in lits:
            sol.add(z3.InRe(s, r) if pol else z3.Not(z3.InRe(s, r)))
    t0 = time.time()
    res = sol.check()
    dt = time.time() - t0
    if res == z3.sat:
        return "sat", z3_decode(sol.model().eval(s, model_completion=True)), dt, sol
    if res == z3.unsat:
        return "unsat", None, dt, sol
    return "unknown:" + sol.reason_unknown(), None, dt, sol


_SMT_STR = re.compile(r'\(\(s "((?:[^"]|"")*)"\)\)')


def _smt_unescape(t: str) -> str:
    t = t.replace('""', '"')
    return re.sub(r"\\u\{([0-9a-fA-F]+)\}|\\u([0-9a-fA-F]{4})",
                  lambda m: chr(int(m.group(1) or m.group(2), 16)), t)


def _cvc5_solve(sol, timeout_ms: int):
    text = "(set-logic QF_SLIA)\n(set-option :produce-models true)\n" + sol.to_smt2()
    text = text.replace("(check-sat)", "(check-sat)\n(get-value (s))")
    with tempfile.NamedTemporaryFile("w", suffix=".smt2", delete=False) as f:
        f.write(text)
        path = f.name
    t0 = time.time()
    try:
        p = subprocess.run([CVC5, "--strings-exp", f"--tlimit={int(timeout_ms)}", path],
                           capture_output=True, text=True, timeout=timeout_ms / 1000 + 10)
        out = p.stdout.strip()
    except Exception as e:  # timeout / missing binary
        out = f"unknown ({e.__class__.__name__})"
    finally:
        os.unlink(path)
    dt = time.time() - t0
    first = out.splitlines()[0].strip() if out else "unknown (no output)"
    if first == "unsat":
        return "unsat", None, dt
    if first == "sat":
        m = _SMT_STR.search(out)
        if m:
            return "sat", _smt_unescape(m.group(1)), dt
        return "unknown:cvc5 sat without readable model", None, dt
    return "unknown:cvc5 " + first[:80], None, dt


def dfa_decide(lits: Lits, max_states: int = 60000):
    """Independent decision by derivatives: ('unsat', None) | ('sat', shortest witness) |
    ('unknown', None) when more than max_states derivative states would be needed."""
    d = Dfa(inter(*[r if pol else comp(r) for r, pol in lits]))
    w = d.shortest(limit=max_states)
    if w is not None:
        return "sat", w
    if d.exhausted:
        return "unsat", None
    return "unknown", None


def solve(lits: Lits, timeout_ms: int = 10000, confirm_ms: Optional[int] = None) -> dict:
    """Find s with InRe(s, R) == pol for all (R, pol).
    Deciders: z3 (conjunction of memberships) is the designated solver.  The derivative
    procedure of this module (`dfa_decide`) runs on every query as an independent second
    opinion: a disagreement makes the query `unknown` (never a verdict).  If z3 answers
    unknown, the derivative answer is used (by='derivatives'); if that is unknown as well,
    z3 on a single intersected membership and then cvc5 are tried.
    A `sat` is returned only with a witness that re-evaluates to the required polarities
    both with z3's simplifier on the concrete string and with the derivative evaluator.
    timeout_ms is the per-solver budget; confirm_ms (optional, smaller) is z3's budget on
    queries the derivative procedure has already decided."""
    trail, t00 = [], time.time()

    def done(status, w=None, by=None):
        return dict(status=status, witness=w, trail=trail, time_s=time.time() - t00, by=by)

    t0 = time.time()
    try:
        dst, dw = dfa_decide(lits)
    except Exception as e:  # unsupported operator etc.
        dst, dw = "unknown", None
        trail.append(f"derivatives: {e!r}")
    trail.append(f"derivatives:{dst}:{time.time() - t0:.2f}s")
    # confirm_ms: z3's budget when the derivative procedure has already decided the query
    budget = confirm_ms if (confirm_ms and dst in ("sat", "unsat")) else timeout_ms
    st, w, dt, sol = _z3_solve(lits, budget, single=False)
    trail.append(f"z3/conj:{st}:{dt:.2f}s")
    if st in ("sat", "unsat") and dst in ("sat", "unsat") and st != dst:
        trail.append("DISAGREEMENT between z3 and the derivative procedure")
        return done("unknown")
    if st == "unsat":
        return done("unsat", None, "z3/conj")
    if st == "sat":
        for cand, src in ((dw, "derivatives"), (w, "z3")):
            if cand is None:
                continue
            okw, why = validate_lits(lits, cand)
            if okw:
                trail.append(f"witness from {src} re-evaluated")
                return done("sat", cand, "z3/conj")
            trail.append(f"model {cand!r} from {src} does not re-evaluate ({why})")
        return done("unknown")
    if dst == "unsat":
        return done("unsat", None, "derivatives")
    if dst == "sat":
        okw, why = validate_lits(lits, dw)
        if okw:
            return done("sat", dw, "derivatives")
        trail.append(f"derivative witness {dw!r} does not re-evaluate ({why})")
        return done("unknown")
    for label in ("z3/single", "cvc5"):
        if label == "cvc5":
            st, w, dt = _cvc5_solve(sol, timeout_ms)
        else:
            st, w, dt, _ = _z3_solve(lits, timeout_ms, single=True)
        trail.append(f"{label}:{st}:{dt:.2f}s")
        if st == "unsat":
            return done("unsat", None, label)
        if st == "sat":
            okw, why = validate_lits(lits, w)
            if okw:
                return done("sat", w, label)
            trail.append(f"{label}: model {w!r} does not re-evaluate ({why})")
    return done("unknown")


def validate_lits(lits: Lits, w: str) -> Tuple[bool, str]:
    for i, (r, pol) in enumerate(lits):
        zv = z3.simplify(z3.InRe(z3str(w), r))
        if not (z3.is_true(zv) or z3.is_false(zv)):
            return False, f"z3 simplify inconclusive on literal {i}"
        dv = Dfa(r).accepts(w)
        if z3.is_true(zv) != dv:
            return False, f"z3 and derivative evaluator disagree on literal {i}"
        if dv != pol:
            return False, f"literal {i} evaluates to {dv}, wanted {pol}"
    return True, ""


def _unknown(msg: str, dt: float = 0.0) -> dict:
    return dict(status="unknown", witness=None, time_s=dt, trail=[msg], by=None)


class Pool:
    """Worker pool with per-item hard timeouts.  A worker that spends more than
    hard_timeout_s on one item is killed and replaced; that item yields status 'unknown'
    -- nothing can hang.
    start='fork': workers inherit the parent's objects; `items` (which may hold z3 terms)
      are inherited too, so the pool lives for one map() only.
    start='spawn': fresh interpreters, reusable for several map() calls; fn must be a
      module-level function and the items picklable (they are sent over the pipe).  Used for
      the solver queries: z3 inside forked children of a process that already holds many z3
      terms was measured to scale badly."""

    def __init__(self, fn, procs: int, start: str, items: Optional[Sequence] = None):
        import multiprocessing as mp
        self.ctx = mp.get_context(start)
        self.fn, self.procs, self.start, self.items = fn, procs, start, items
        self.workers: Dict[object, list] = {}  # parent conn -> [process, current index, start time]
        self.spawned = 0
        self.deaths_in_a_row = 0

    def _spawn(self):
        pc, cc = self.ctx.Pipe(duplex=True)
        p = self.ctx.Process(target=_worker, args=(self.fn, self.items, cc), daemon=True)
        if self.start == "fork":
            p.start()
        else:
            # spawned workers must not re-import (re-run) the parent's __main__ script
            main = sys.modules.get("__main__")
            saved = {k: getattr(main, k) for k in ("__file__", "__spec__") if hasattr(main, k)}
            try:
                if hasattr(main, "__file__"):
                    del main.__file__
                main.__spec__ = None
                p.start()
            finally:
                for k, v in saved.items():
                    setattr(main, k, v)
        cc.close()
        self.workers[pc] = [p, None, 0.0]
        self.spawned += 1
        return pc

    def map(self, items: Sequence, hard_timeout_s: float = 120.0) -> list:
        from multiprocessing.connection import wait
        n = len(items)
        results: list = [None] * n
        nxt = 0
        workers = self.workers
        inherit = self.items is not None

        def feed(pc):
            nonlocal nxt
            if nxt < n:
                workers[pc][1], workers[pc][2] = nxt, time.time()
                pc.send(nxt if inherit else (nxt, items[nxt]))
                nxt += 1
            else:
                workers[pc][1] = None

        for pc in list(workers):
            feed(pc)
        while len(workers) < min(self.procs, n):
            feed(self._spawn())
        pending = n
        while pending:
            ready = wait(list(workers), timeout=0.25)
            now = time.time()
            for pc in ready:
                p, idx, t0 = workers[pc]
                try:
                    i, r = pc.recv()
                    results[i] = r
                    pending -= 1
                    self.deaths_in_a_row = 0
                    feed(pc)
                except (EOFError, OSError):
                    if idx is not None and results[idx] is None:
                        results[idx] = _unknown(f"worker died (exit {p.exitcode})", now - t0)
                        pending -= 1
                    del workers[pc]
                    pc.close()
                    self.deaths_in_a_row += 1
                    if self.deaths_in_a_row > 2 * self.procs + 4:
                        # workers cannot start at all: give up instead of respawning forever
                        for k in range(n):
                            if results[k] is None:
                                results[k] = _unknown("worker pool cannot start workers")
                        self.close()
                        return results
                    if nxt < n:
                        feed(self._spawn())
            for pc in list(workers):
                p, idx, t0 = workers[pc]
                if idx is not None and results[idx] is None and now - t0 > hard_timeout_s:
                    p.kill()
                    p.join(1)
                    results[idx] = _unknown("hard timeout", now - t0)
                    pending -= 1
                    del workers[pc]
                    pc.close()
                    if nxt < n:
                        feed(self._spawn())
        return results

    def close(self):
        for pc, (p, _, _) in list(self.workers.items()):
            try:
                pc.send(None)
                pc.close()
            except OSError:
                pass
        for pc, (p, _, _) in list(self.workers.items()):
            p.join(0.5)
            if p.is_alive():
                p.kill()
        self.workers.clear()


def run_tasks(fn, items: Sequence, procs: int = 16, hard_timeout_s: float = 120.0) -> list:
    """One-shot pool of forked workers over `items` (inherited, may hold z3 terms)."""
    if not items:
        return []
    pool = Pool(fn, procs, "fork", items)
    try:
        return pool.map(items, hard_timeout_s)
    finally:
        pool.close()


def _worker(fn, items, conn):
    try:
        while True:
            i = conn.recv()
            if i is None:
                break
            if items is None:
                i, item = i
            else:
                item = items[i]
            try:
                r = fn(item)
            except Exception as e:  # reported, never silently turned into a verdict
                import traceback
                r = _unknown("worker exception: "
                             + "".join(traceback.format_exception_only(type(e), e)).strip())
            conn.send((i, r))
    except (EOFError, OSError, KeyboardInterrupt):
        pass
    finally:
        os._exit(0)


# ----------------------------------------------------------------------------------------
# concrete oracle through the REAL `re`: all end positions of matches of `pattern` at the
# start of `text` (the true right context is kept by a lookahead that pins the end).
# ----------------------------------------------------------------------------------------
_ends_cache: Dict[Tuple[str, int], "re.Pattern"] = {}


def re_match_ends(pattern: str, text: str) -> List[int]:
    out = []
    for n in range(len(text) + 1):
        k = len(text) - n
        rx = _ends_cache.get((pattern, k))
        if rx is None:
            rx = _ends_cache[(pattern, k)] = re.compile("(?:%s)(?=(?s:.{%d})\\Z)" % (pattern, k))
        if rx.match(text):
            out.append(n)
    return out
