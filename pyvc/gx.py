"""GX -- grammar-mode execution of the REAL parse methods against callee contracts.

The real function object `CParser.__dict__[name]` is run on an abstract token stream that presents
the frontier of a (partial) derivation tree of the reference grammar (spec/grammar.py).  Every other
`_parse_*` entry point of the instance is replaced by a stub that implements only the callee's
contract: "started at the first token of a construct of a nonterminal I cover, I consume exactly that
construct and return its value".  Unexpanded nonterminal occurrences are *markers*; when the method
(or a real helper such as the speculative look-ahead) looks inside a marker, the run is abandoned and
the marker is expanded by every production of its nonterminal (lazy, depth-limited), so look-ahead of
any depth is explored exactly as far as the code looks.  Marker first-tokens are chosen lazily too
(only when the code inspects them), over the equivalence classes of token types that neither the
parser's tables nor the grammar's FIRST sets can tell apart.
"""
from __future__ import annotations

import copy
import itertools
import sys
import time
from typing import Any, Callable, Dict, List, Optional, Tuple

from . import core


# --------------------------------------------------------------------------------------
# grammar DSL
# --------------------------------------------------------------------------------------
class T:
    def __init__(self, type, value=None):
        self.type, self.value = type, value

    def __repr__(self):
        return self.type


class N:
    def __init__(self, name, variant=None):
        self.name, self.variant = name, variant

    def __repr__(self):
        return f"<{self.name}>"


class Opt:
    def __init__(self, *items):
        self.items = list(items)


class Star:
    def __init__(self, *items, min=0, max=None, reps=None):
        # reps: unroll this repetition up to `reps` times at the top level even where the default (MAXREP) is smaller
        self.items, self.min, self.max, self.reps = list(items), min, max, reps


class Prod:
    def __init__(self, nt, rhs, build, label, coord=None, no_follow=(), note=""):
        self.nt, self.rhs, self.build, self.label = nt, rhs, build, label
        self.coord = coord
        self.no_follow = set(no_follow)
        self.note = note
        self.flat: List[Tuple[List[Any], Any]] = []  # (flat symbol list, shape) after EBNF expansion
        self.flat_nested: List[Tuple[List[Any], Any]] = []  # same with at most one repetition (used when a marker is expanded)


class NT:
    def __init__(self, name, method=None, opaque=None, variants=None, args=None):
        self.name, self.method = name, method
        self.prods: List[Prod] = []
        self.opaque = opaque  # factory(marker) -> value returned by a stub for an unexpanded occurrence
        self.variants = variants or [None]
        self.args = args or {}


class Grammar:
    MAXREP = 2

    def __init__(self):
        self.nts: Dict[str, NT] = {}
        self.accepts: Dict[str, set] = {}  # method name -> set of nonterminal names its stub covers
        self.first: Dict[str, set] = {}
        self.nullable: Dict[str, bool] = {}
        self.follow: Dict[str, set] = {}
        self.spelling: Dict[str, str] = {}

    def nt(self, name, method=None, opaque=None, variants=None, covers=(), args=None):
        n = NT(name, method, opaque, variants, args)
        self.nts[name] = n
        if method:
            self.accepts.setdefault(method, set()).add(name)
            for c in covers:
                self.accepts[method].add(c)
        return n

    def prod(self, nt, rhs, build=None, label=None, coord=None, no_follow=(), note=""):
        p = Prod(nt, rhs, build, label or f"{nt}#{len(self.nts[nt].prods)}", coord, no_follow, note)
        self.nts[nt].prods.append(p)
        return p

    # ---- EBNF expansion of one right-hand side into flat alternatives
    def expand_rhs(self, rhs, maxrep=None) -> List[Tuple[List[Any], List[Any]]]:
        """Returns [(flat symbols, structure)] where structure mirrors rhs: for T/N the flat index,
        for Opt None or sub-structure, for Star a list of sub-structures."""
        maxrep = self.MAXREP if maxrep is None else maxrep
        alts = [([], [])]
        for sym in rhs:
            new = []
            if isinstance(sym, (T, N)):
                for flat, st in alts:
                    new.append((flat + [sym], st + [len(flat)]))
            elif isinstance(sym, Opt):
                subs = self.expand_rhs(sym.items, maxrep)
                for flat, st in alts:
                    new.append((flat, st + [None]))
                    for sflat, sst in subs:
                        new.append((flat + sflat, st + [self._shift(sst, len(flat))]))
            elif isinstance(sym, Star):
                subs = self.expand_rhs(sym.items, maxrep)
                mr = maxrep if sym.max is None else min(maxrep, sym.max)
                if sym.reps is not None and maxrep >= self.MAXREP:
                    mr = sym.reps
                for flat, st in alts:
                    reps = [(flat, [])]
                    for k in range(0, mr + 1):
                        if k >= sym.min:
                            for rflat, rst in reps:
                                new.append((rflat, st + [rst]))
                        nxt = []
                        for rflat, rst in reps:
                            for sflat, sst in subs[:1] if k >= 1 and len(subs) > 3 else subs:
                                nxt.append((rflat + sflat, rst + [self._shift(sst, len(rflat))]))
                        reps = nxt
            else:
                raise TypeError(sym)
            alts = new
        return alts

    def _shift(self, st, off):
        if st is None:
            return None
        if isinstance(st, int):
            return st + off
        return [self._shift(x, off) for x in st]

    # ---- FIRST / nullable / FOLLOW over token types
    def analyse(self):
        for nt in self.nts.values():
            for p in nt.prods:
                p.flat = self.expand_rhs(p.rhs, maxrep=1)
        first = {n: set() for n in self.nts}
        nullable = {n: False for n in self.nts}
        changed = True
        while changed:
            changed = False
            for n, nt in self.nts.items():
                for p in nt.prods:
                    for flat, _ in p.flat:
                        allnull = True
                        for s in flat:
                            if isinstance(s, T):
                                if s.type not in first[n]:
                                    first[n].add(s.type)
                                    changed = True
                                allnull = False
                                break
                            f = first[s.name]
                            if not f <= first[n]:
                                first[n] |= f
                                changed = True
                            if not nullable[s.name]:
                                allnull = False
                                break
                        if allnull and not nullable[n]:
                            nullable[n] = True
                            changed = True
        follow = {n: set() for n in self.nts}
        changed = True
        while changed:
            changed = False
            for n, nt in self.nts.items():
                for p in nt.prods:
                    for flat, _ in p.flat:
                        for i, s in enumerate(flat):
                            if not isinstance(s, N):
                                continue
                            acc = set()
                            rest_null = True
                            for t in flat[i + 1:]:
                                if isinstance(t, T):
                                    acc.add(t.type)
                                    rest_null = False
                                    break
                                acc |= first[t.name]
                                if not nullable[t.name]:
                                    rest_null = False
                                    break
                            if rest_null:
                                acc |= follow[n]
                            if not acc <= follow[s.name]:
                                follow[s.name] |= acc
                                changed = True
        self.first, self.nullable, self.follow = first, nullable, follow
        self._follow2()
        for nt in self.nts.values():
            for p in nt.prods:
                p.flat_nested = p.flat
                p.flat = self.expand_rhs(p.rhs)

    # ---- two-token look-ahead sets (tuples of token types, shorter tuples = the string may end there)
    @staticmethod
    def _cat2(A, B):
        out = set()
        for a in A:
            if len(a) >= 2:
                out.add(a)
            else:
                for b in B:
                    out.add((a + b)[:2])
        return out

    def _follow2(self):
        F2 = {n: set() for n in self.nts}
        changed = True
        while changed:
            changed = False
            for n, nt in self.nts.items():
                for p in nt.prods:
                    for flat, _ in p.flat:
                        acc = {()}
                        for s in flat:
                            acc = self._cat2(acc, {(s.type,)} if isinstance(s, T) else (F2[s.name] or set()))
                            if not acc:
                                break
                        if not acc <= F2[n]:
                            F2[n] |= acc
                            changed = True
        self.first2 = F2
        FO = {n: set() for n in self.nts}
        changed = True
        while changed:
            changed = False
            for n, nt in self.nts.items():
                for p in nt.prods:
                    for flat, _ in p.flat:
                        for i, s in enumerate(flat):
                            if not isinstance(s, N):
                                continue
                            acc = {()}
                            for t in flat[i + 1:]:
                                acc = self._cat2(acc, {(t.type,)} if isinstance(t, T) else F2[t.name])
                            acc = self._cat2(acc, FO[n] | {()})
                            acc = {a for a in acc if a}
                            if not acc <= FO[s.name]:
                                FO[s.name] |= acc
                                changed = True
        self.follow2 = FO

    def first_of_seq(self, flat) -> Tuple[set, bool]:
        acc = set()
        for s in flat:
            if isinstance(s, T):
                acc.add(s.type)
                return acc, False
            acc |= self.first[s.name]
            if not self.nullable[s.name]:
                return acc, False
        return acc, True


# --------------------------------------------------------------------------------------
# derivation trees
# --------------------------------------------------------------------------------------
class Leaf:
    __slots__ = ("tok", "start", "end")

    def __init__(self, tok):
        self.tok = tok


class Mark:
    __slots__ = ("nt", "first", "variant", "value", "mid", "start", "end", "depth", "tok")

    def __init__(self, nt, mid, depth=0, variant=None):
        self.nt, self.mid, self.depth, self.variant = nt, mid, depth, variant
        self.first = None  # token type chosen lazily; "" = derives the empty string
        self.value = None
        self.tok = None


class Group:
    __slots__ = ("nt", "prod", "kids", "shape", "start", "end", "_value", "consumed", "depth")

    def __init__(self, nt, prod, kids, shape, depth=0):
        self.nt, self.prod, self.kids, self.shape, self.depth = nt, prod, kids, shape, depth
        self._value = None
        self.consumed = False


class NeedExpand(Exception):
    def __init__(self, mark):
        self.mark = mark


class NeedChoice(Exception):
    def __init__(self, mark, blind=False):
        self.mark = mark
        self.blind = blind  # the construct is consumed without its first token being inspected: only empty / non-empty matters


class NeedFollow(Exception):
    """The code looks at the token(s) after the construct: which follow context?"""


class NeedVariant(Exception):
    """The value of an unexpanded marker is needed: which of the result shapes its contract allows?"""

    def __init__(self, mark):
        self.mark = mark


class StubMismatch(Exception):
    pass


class Refuted(Exception):
    pass


def clone_tree(node, memo):
    if isinstance(node, Leaf):
        n = Leaf(node.tok)
    elif isinstance(node, Mark):
        n = Mark(node.nt, node.mid, node.depth, node.variant)
        n.first = node.first
        n.variant = node.variant
    else:
        n = Group(node.nt, node.prod, [clone_tree(k, memo) for k in node.kids], node.shape, node.depth)
    memo[id(node)] = n
    return n


# --------------------------------------------------------------------------------------
# the engine
# --------------------------------------------------------------------------------------
class AnyInside:
    """Expected coordinate: any token consumed by / any value returned inside the invocation."""

    def __repr__(self):
        return "<coord of a token inside the construct>"


ANY_INSIDE = AnyInside()


class AnyInsideOrNone(AnyInside):
    """For node kinds the coordinate property does not oblige to carry a coordinate (InitList, NamedInitializer, ...):
    no coordinate, or a token inside the construct."""

    def __repr__(self):
        return "<no coordinate, or the coord of a token inside the construct>"


ANY_INSIDE_OR_NONE = AnyInsideOrNone()


class Outcome:
    def __init__(self, kind, detail="", result=None, run=None):
        self.kind, self.detail, self.result, self.run = kind, detail, result, run


class GX:
    MAXDEPTH = 9
    MAXFORMS = 60000

    def __init__(self, make_grammar):
        self.c_parser = core.repo_import("pycparser.c_parser")
        self.c_lexer = core.repo_import("pycparser.c_lexer")
        self.c_ast = core.repo_import("pycparser.c_ast")
        self.CParser = self.c_parser.CParser
        self.Token = self.c_lexer.Token
        self.Coord = self.c_parser.Coord
        self.ParseError = self.c_parser.ParseError
        gx = self

        class Opaque(self.c_ast.Node):
            __slots__ = ("tag", "coord", "__weakref__")
            attr_names = ("tag",)

            def __init__(self, tag, coord=None):
                self.tag, self.coord = tag, coord

            def children(self):
                return ()

            def __iter__(self):
                return iter(())

            def __repr__(self):
                return f"val({self.tag})"

        self.Opaque = Opaque
        Token = self.Token

        class MarkerTok(Token):
            __slots__ = ("mark",)

            def __init__(self, mark, value, column):
                object.__setattr__(self, "mark", mark)
                object.__setattr__(self, "value", value)
                object.__setattr__(self, "lineno", column)   # token k stands alone on line k+1, column k+1
                object.__setattr__(self, "column", column)

            @property
            def type(self):
                if self.mark.first is None:
                    raise NeedChoice(self.mark)
                return self.mark.first

            def __repr__(self):
                return f"Marker<{self.mark.nt}:{self.mark.first}>"

        self.MarkerTok = MarkerTok

        class FollowTok(Token):
            """A token after the construct whose type is decided only when the code looks at it."""
            __slots__ = ("ctx", "k")

            def __init__(self, ctx, k, column):
                object.__setattr__(self, "ctx", ctx)
                object.__setattr__(self, "k", k)
                object.__setattr__(self, "lineno", column)   # token k stands alone on line k+1, column k+1
                object.__setattr__(self, "column", column)

            @property
            def type(self):
                if self.ctx["follow"] is None:
                    raise NeedFollow()
                f = self.ctx["follow"]
                return f[self.k] if self.k < len(f) else "EOF!"

            @property
            def value(self):
                return gx.spelling(self.type) if self.ctx["follow"] is not None else "<follow>"

        self.FollowTok = FollowTok
        self.g: Grammar = make_grammar(self)
        self.g.analyse()
        self.token_types = self._all_token_types()
        self.classes = self._token_classes()
        self.parse_methods = [n for n in vars(self.CParser) if n.startswith("_parse_")]
        self.stats = dict(runs=0, forms=0)

    # ---- token vocabulary
    def _all_token_types(self) -> List[str]:
        L = self.c_lexer
        types = set(L._keyword_map.values()) | {ft.tok_type for ft in L._fixed_tokens}
        for r in L._regex_rules:
            if r.action == L._RegexAction.TOKEN:
                types.add(r.tok_type)
        types |= {"ID", "TYPEID", "PPHASH", "PPPRAGMA", "PPPRAGMASTR"}
        return sorted(types)

    def spelling(self, ttype: str, n: int = 0) -> str:
        L = self.c_lexer
        for ft in L._fixed_tokens:
            if ft.tok_type == ttype:
                return ft.literal
        for k, v in L._keyword_map.items():
            if v == ttype:
                return k
        # string literals: the spelling depends on the position, so that forms with several pieces see an ordinary body, a body
        # ending in an escaped quote and an empty body (the reference AST is computed from the same spellings)
        _pre = {"STRING_LITERAL": "", "WSTRING_LITERAL": "L", "U8STRING_LITERAL": "u8", "U16STRING_LITERAL": "u", "U32STRING_LITERAL": "U"}
        if ttype in _pre:
            return _pre[ttype] + '"' + (f"s{n}", f"q{n}\\\"", "")[n % 3] + '"'
        table = {"ID": f"x{n}", "TYPEID": f"T{n}", "INT_CONST_DEC": f"{n + 1}", "INT_CONST_OCT": "017", "INT_CONST_HEX": "0x1F",
                 "INT_CONST_BIN": "0b101", "INT_CONST_CHAR": "'ab'", "FLOAT_CONST": "1.5", "HEX_FLOAT_CONST": "0x1.8p3",
                 "CHAR_CONST": "'a'", "WCHAR_CONST": "L'a'", "U8CHAR_CONST": "u8'a'", "U16CHAR_CONST": "u'a'",
                 "U32CHAR_CONST": "U'a'", "STRING_LITERAL": f'"s{n}"', "WSTRING_LITERAL": f'L"w{n}"',
                 "U8STRING_LITERAL": f'u8"w{n}"', "U16STRING_LITERAL": f'u"w{n}"', "U32STRING_LITERAL": f'U"w{n}"',
                 "PPHASH": "#", "PPPRAGMA": "pragma", "PPPRAGMASTR": f"omp  p{n} "}   # pragma text is verbatim: inner and trailing blanks
        return table.get(ttype, ttype.lower())

    def _token_classes(self) -> Dict[str, str]:
        """token type -> representative of its equivalence class (same membership in every table / string
        comparison of c_parser.py and in every FIRST set of the reference grammar)."""
        import ast as _ast

        src = core.Source.get("pycparser/c_parser.py")
        consts = set()
        for fn in _ast.walk(src.tree):
            if not isinstance(fn, (_ast.FunctionDef, _ast.Lambda)):
                continue  # module-level table definitions are covered by `tables` below
            for n in _ast.walk(fn):
                if isinstance(n, _ast.Constant) and isinstance(n.value, str):
                    consts.add(n.value)
        tables = []
        for k, v in vars(self.c_parser).items():
            if isinstance(v, (set, frozenset, dict)) and k.startswith("_"):
                tables.append(set(v))
        sig: Dict[str, tuple] = {}
        for t in self.token_types:
            s = [t in tb for tb in tables] + [t in consts and t] + [t in self.g.first[n] for n in sorted(self.g.nts)]
            sig[t] = tuple(s)
        rep: Dict[tuple, str] = {}
        out = {}
        for t in self.token_types:
            out[t] = rep.setdefault(sig[t], t)
        return out

    def method_follow_reps(self, method: str, types) -> List[str]:
        """Representatives of `types` w.r.t. what the real code reachable from `method` (itself plus non-stubbed
        helpers) can distinguish: membership in the module tables and string constants it mentions."""
        import ast as _ast

        cache = self.__dict__.setdefault("_mreach", {})
        if method not in cache:
            src = core.Source.get("pycparser/c_parser.py")
            seen, todo = set(), [method]
            names, consts = set(), set()
            while todo:
                m = todo.pop()
                if m in seen or not src.has(f"CParser.{m}"):
                    continue
                seen.add(m)
                for n in _ast.walk(src.node(f"CParser.{m}")):
                    if isinstance(n, _ast.Constant) and isinstance(n.value, str):
                        consts.add(n.value)
                    elif isinstance(n, _ast.Name):
                        names.add(n.id)
                    elif isinstance(n, _ast.Attribute) and isinstance(n.value, _ast.Name) and n.value.id == "self":
                        if not n.attr.startswith("_parse_") or n.attr in REAL_HELPERS:
                            todo.append(n.attr)
            tables = [set(v) for k, v in vars(self.c_parser).items()
                      if k in names and isinstance(v, (set, frozenset, dict))]
            cache[method] = (tables, consts)
        tables, consts = cache[method]
        rep, out = {}, []

        def sig1(t):
            return tuple([t in tb for tb in tables] + [t in consts and t])
        for t in sorted(types):
            sig = tuple(sig1(x) for x in t) if isinstance(t, tuple) else sig1(t)
            if sig not in rep:
                rep[sig] = t
                out.append(t)
        return out

    def may_reps(self, method: str) -> List[str]:
        """Token-type representatives for arbitrary-input exploration of `method`: what its own code can distinguish,
        refined by the FIRST sets of the nonterminals of the callees it can reach (the stubs accept by FIRST)."""
        import ast as _ast

        self.method_follow_reps(method, [])  # fills the reachability cache
        tables, consts = self._mreach[method]
        src = core.Source.get("pycparser/c_parser.py")
        callees = set()
        seen, todo = set(), [method]
        while todo:
            m = todo.pop()
            if m in seen or not src.has(f"CParser.{m}"):
                continue
            seen.add(m)
            for n in _ast.walk(src.node(f"CParser.{m}")):
                if isinstance(n, _ast.Attribute) and isinstance(n.value, _ast.Name) and n.value.id == "self":
                    if n.attr.startswith("_parse_") and n.attr not in REAL_HELPERS:
                        callees.add(n.attr)
                    else:
                        todo.append(n.attr)
        firsts = []
        for c in sorted(callees):
            for nt in sorted(self.g.accepts.get(c, ())):
                if nt in self.g.first:
                    firsts.append(self.g.first[nt])
        rep, out = {}, []
        # brackets and '#' are what the bracket obligation is ABOUT: each keeps a class of its own, also where the code under
        # test does not mention it (a token consumed without being looked at may be any of them)
        special = {"LPAREN", "RPAREN", "LBRACKET", "RBRACKET", "LBRACE", "RBRACE", "PPHASH"}
        for t in self.token_types:
            sig = tuple([t in tb for tb in tables] + [t in consts and t] + [t in f for f in firsts] + [t in special and t])
            if sig not in rep:
                rep[sig] = t
                out.append(t)
        return out

    def class_reps(self, types) -> List[str]:
        seen, out = set(), []
        for t in sorted(types):
            r = self.classes.get(t, t)
            if r not in seen:
                seen.add(r)
                out.append(t if r not in types else r)
        return out

    # ---- trees
    def new_mark(self, nt, depth, variant=None):
        self._mid = getattr(self, "_mid", 0) + 1
        return Mark(nt, self._mid, depth, variant)

    def instantiate(self, prod: Prod, flat, shape, depth) -> Group:
        kids = []
        for s in flat:
            if isinstance(s, T):
                kids.append(Leaf(None if s.value is None else s.value) if False else Leaf(s))
            else:
                kids.append(self.new_mark(s.name, depth + 1, s.variant))
        return Group(prod.nt, prod, kids, shape, depth)

    def layout(self, root: Group, follow: List[str]):
        """Assign frontier positions and build the token list."""
        toks: List[Any] = []
        nodes: List[Any] = []
        counter = [0]

        def walk(n):
            n.start = len(toks)
            if isinstance(n, Leaf):
                if isinstance(n.tok, T):
                    spec = n.tok
                    n.tok = self.Token(spec.type, spec.value if spec.value is not None else self.spelling(spec.type, len(toks)),
                                       len(toks) + 1, len(toks) + 1)
                else:
                    n.tok = self.Token(n.tok.type, n.tok.value, len(toks) + 1, len(toks) + 1)
                toks.append(n.tok)
                nodes.append(n)
            elif isinstance(n, Mark):
                if n.first != "":
                    val = self.spelling(n.first, len(toks)) if n.first else f"<{n.nt}>"
                    n.tok = self.MarkerTok(n, val, len(toks) + 1)
                    toks.append(n.tok)
                    nodes.append(n)
                n.value = None
            else:
                n._value = None
                n.consumed = False
                for k in n.kids:
                    walk(k)
            n.end = len(toks)

        walk(root)
        n_form = len(toks)
        if isinstance(follow, dict):
            # lazily decided follow context {"follow": None | tuple}: up to two tokens, then end of input
            f = follow["follow"]
            for k in range(2 if f is None else len(f)):
                toks.append(self.FollowTok(follow, k, len(toks) + 1))
        else:
            for ft in follow:
                toks.append(self.Token(ft, self.spelling(ft, len(toks)), len(toks) + 1, len(toks) + 1) if ft else None)
        toks.append(None)
        return toks, nodes, n_form

    def preorder(self, root):
        out = []

        def walk(n):
            out.append(n)
            if isinstance(n, Group):
                for k in n.kids:
                    walk(k)
        walk(root)
        return out

    # ---- values
    def value_of(self, node):
        if isinstance(node, Leaf):
            return node.tok
        if isinstance(node, Mark):
            if node.first == "":
                # the empty derivation: value of the nonterminal's empty production
                for p in self.g.nts[node.nt].prods:
                    for flat, shape in p.flat_nested:
                        if not flat:
                            grp = Group(node.nt, p, [], shape, node.depth)
                            grp.start = grp.end = node.start
                            return self.apply_build(grp, self.shape_values(grp, shape, self.value_of))
                for p in self.g.nts[node.nt].prods:
                    for flat, shape in p.flat_nested:
                        if all(isinstance(x, N) and self.g.nullable[x.name] for x in flat):
                            grp = self.instantiate(p, flat, shape, node.depth)
                            for k in grp.kids:
                                k.first = ""
                                k.start = k.end = node.start
                            grp.start = grp.end = node.start
                            return self.apply_build(grp, self.shape_values(grp, shape, self.value_of))
                return None
            if node.value is None:
                nt = self.g.nts[node.nt]
                vs = getattr(nt, "value_variants", None)
                if vs and node.variant is None:
                    raise NeedVariant(node)
                if vs and node.variant:
                    node.value = vs[node.variant](self, node)
                    return node.value
                fac = nt.opaque or (lambda gx, m: gx.Opaque(f"{m.nt}#{m.mid}", gx.Coord("f.c", 900 + m.mid, 1)))
                node.value = fac(self, node)
            return node.value
        if node._value is None:
            vals = self.shape_values(node, node.shape, self.value_of)
            node._value = self.resolve_coords(self.apply_build(node, vals), node)
        return node._value

    def expected_of(self, run: "Run"):
        """Expected result of the method under test: the production's AST (ANY_INSIDE coordinates left open) over the
        values its callees returned, as they were when they were returned."""
        root = run.root

        def fn(node):
            if id(node) in run.snap:
                return run.snap[id(node)]
            if isinstance(node, Group):
                return self.apply_build(node, self.shape_values(node, node.shape, fn))
            return self.value_of(node)
        vals = self.shape_values(root, root.shape, fn)
        exp = self.apply_build(root, vals)
        if self.g.nts[root.nt].args.get("apply"):
            exp = exp(*self.snapshot(run.args0), **self.snapshot(run.kwargs0))
        return exp

    def resolve_coords(self, v, node, memo=None):
        """A value handed out by a stub needs concrete coordinates: take the first token of its construct."""
        if getattr(self, "keep_any_inside", False):
            return v   # concrete replays compare against "some token of the form" everywhere
        memo = set() if memo is None else memo
        if isinstance(v, AnyInside):
            return self.Coord("f.c", node.start + 1, node.start + 1)
        if id(v) in memo or isinstance(v, self.Opaque):
            return v
        memo.add(id(v))
        if isinstance(v, self.c_ast.Node):
            for s in type(v).__slots__:
                if s != "__weakref__":
                    x = getattr(v, s)
                    y = self.resolve_coords(x, node, memo)
                    if y is not x:
                        setattr(v, s, y)
        elif isinstance(v, list):
            for i, x in enumerate(v):
                y = self.resolve_coords(x, node, memo)
                if y is not x:
                    v[i] = y
        elif isinstance(v, tuple):
            new = tuple(self.resolve_coords(x, node, memo) for x in v)
            if any(a is not b for a, b in zip(new, v)):
                return new
        elif isinstance(v, dict):
            for k, x in list(v.items()):
                y = self.resolve_coords(x, node, memo)
                if y is not x:
                    v[k] = y
        return v

    def apply_build(self, node: Group, vals):
        b = node.prod.build
        if b is None:
            return self.Opaque(f"{node.prod.label}@{node.start}", self.Coord("f.c", 800, node.start + 1))
        return b(vals, self)

    def shape_values(self, node: Group, shape, fn):
        out = []
        for sym, st in zip(node.prod.rhs, shape):
            out.append(self._sv(sym, st, node, fn))
        return out

    def _sv(self, sym, st, node, fn):
        if isinstance(sym, (T, N)):
            return fn(node.kids[st])
        if isinstance(sym, Opt):
            if st is None:
                return None
            vals = [self._sv(s, x, node, fn) for s, x in zip(sym.items, st)]
            return vals[0] if len(sym.items) == 1 else vals
        if isinstance(sym, Star):
            reps = []
            for rep in st:
                vals = [self._sv(s, x, node, fn) for s, x in zip(sym.items, rep)]
                reps.append(vals[0] if len(sym.items) == 1 else vals)
            return reps
        raise TypeError(sym)

    def snapshot(self, v, memo=None):
        """Deep copy of structural values (nodes, lists, dicts, tuples); opaque values, tokens, coords by identity."""
        memo = {} if memo is None else memo
        if id(v) in memo:
            return memo[id(v)]
        A = self.c_ast
        if isinstance(v, self.Opaque) or isinstance(v, (self.Token, self.Coord, str, int, bool, type(None), AnyInside)):
            return v
        if isinstance(v, list):
            r = []
            memo[id(v)] = r
            r.extend(self.snapshot(x, memo) for x in v)
            return r
        if isinstance(v, tuple):
            return tuple(self.snapshot(x, memo) for x in v)
        if isinstance(v, dict):
            r = {}
            memo[id(v)] = r
            for k, x in v.items():
                r[k] = self.snapshot(x, memo)
            return r
        if isinstance(v, A.Node):
            r = copy.copy(v)
            memo[id(v)] = r
            for s in type(v).__slots__:
                if s == "__weakref__":
                    continue
                setattr(r, s, self.snapshot(getattr(v, s), memo))
            return r
        return v

    # ---- structural comparison of results
    def ast_diff(self, got, exp, allowed_coords, path="result") -> Optional[str]:
        A = self.c_ast
        if got is exp:
            return None
        if isinstance(exp, AnyInside):
            # a bare coordinate value (e.g. the first-specifier coordinate returned next to a specifier list): any coordinate of
            # the invocation, but a MISSING coordinate only where the reference says so (AnyInsideOrNone)
            if got is None and not isinstance(exp, AnyInsideOrNone):
                return f"{path}: no coordinate (must be a token inside the construct)"
            return None
        if isinstance(exp, self.Opaque) or isinstance(got, self.Opaque):
            return None if got is exp else f"{path}: expected {exp!r}, got {self._short(got)}"
        if isinstance(exp, A.Node):
            if type(got) is not type(exp):
                return f"{path}: expected a {type(exp).__name__}, got {self._short(got)}"
            for s in type(exp).__slots__:
                if s == "__weakref__":
                    continue
                g, e = getattr(got, s), getattr(exp, s)
                if s == "coord":
                    d = self.coord_diff(g, e, allowed_coords, f"{path}.coord")
                else:
                    d = self.ast_diff(g, e, allowed_coords, f"{path}.{s}")
                if d:
                    return d
            return None
        if isinstance(exp, (list, tuple)):
            if type(got) is not type(exp) or len(got) != len(exp):
                return f"{path}: expected {self._short(exp)}, got {self._short(got)}"
            for i, (g, e) in enumerate(zip(got, exp)):
                d = self.ast_diff(g, e, allowed_coords, f"{path}[{i}]")
                if d:
                    return d
            return None
        if isinstance(exp, dict):
            if not isinstance(got, dict) or set(got) != set(exp):
                return f"{path}: expected keys {sorted(exp)}, got {self._short(got)}"
            for k in exp:
                d = self.ast_diff(got[k], exp[k], allowed_coords, f"{path}[{k!r}]")
                if d:
                    return d
            return None
        if isinstance(exp, self.Coord):
            return self.coord_diff(got, exp, allowed_coords, path)
        if got != exp or type(got) is not type(exp):
            return f"{path}: expected {exp!r}, got {self._short(got)}"
        return None

    def coord_diff(self, g, e, allowed, path):
        if isinstance(e, AnyInside):
            if g is None and isinstance(e, AnyInsideOrNone):
                return None
            if g is None:
                return f"{path}: no coordinate (must be a token inside the construct)"
            key = (g.file, g.line, g.column) if isinstance(g, self.Coord) else g
            if key not in allowed:
                return f"{path}: {g} is not the position of a token consumed by / a value returned inside this invocation"
            return None
        if e is None:
            return None if g is None else f"{path}: expected no coordinate, got {g}"
        if not isinstance(g, self.Coord) or (g.file, g.line, g.column) != (e.file, e.line, e.column):
            return f"{path}: expected {e}, got {g}"
        return None

    def _short(self, v):
        s = repr(v)
        return s if len(s) < 160 else s[:157] + "..."


class AStream:
    """Abstract token stream over the frontier of a derivation tree (interface of _TokenStream)."""

    def __init__(self, toks, run):
        self.toks = toks
        self._index = 0
        self.run = run
        self.max_seen = 0

    def peek(self, k=1):
        if k <= 0:
            return None
        self.run.max_peek = max(getattr(self.run, "max_peek", 0), k)
        i = self._index + k - 1
        if k >= 2:
            for j in range(self._index, i):
                t = self.toks[j] if j < len(self.toks) else None
                if t is None:
                    raise Refuted("peek(2) past the end of input (the real stream would raise IndexError)")
                if hasattr(t, "mark"):
                    # the second token lies inside the construct the marker stands for
                    raise NeedExpand(t.mark)
        if i >= len(self.toks):
            return None
        self.max_seen = max(self.max_seen, i + 1)
        return self.toks[i]

    def next(self):
        t = self.toks[self._index] if self._index < len(self.toks) else None
        if t is not None and hasattr(t, "mark"):
            raise NeedExpand(t.mark)
        if t is not None:
            self.run.consumed_by_method.append(self._index)
        self.max_seen = max(self.max_seen, self._index + 1)
        self._index += 1
        return t

    def mark(self):
        return self._index

    def reset(self, m):
        self.run.on_reset(m, self._index)
        self._index = m


class FakeLexer:
    def __init__(self, filename="f.c", **callbacks):
        self.filename = filename
        self._filename = filename

    def input(self, text, filename=""):
        pass

    def token(self):
        return None


def new_parser(gx):
    """An instance of the real CParser whose fields are those its own __init__ creates (so that instance state added by a change
    -- a memo, a counter -- exists), with a lexer that is never asked for tokens; falls back to a bare instance."""
    try:
        p = gx.CParser(lexer=lambda **kw: FakeLexer("f.c", **kw))
    except Exception:
        p = object.__new__(gx.CParser)
    p.clex = FakeLexer("f.c")
    return p


class Run:
    """One execution of one real method on one derivation tree."""

    def __init__(self, gx: GX, method: str, root: Group, follow: List[str], args=(), kwargs=None, real=()):
        self.gx, self.method, self.root, self.follow = gx, method, root, follow
        self.args, self.kwargs = args, kwargs or {}
        self.args0, self.kwargs0 = gx.snapshot(tuple(args)), gx.snapshot(dict(kwargs or {}))
        self.real = set(real)
        self.consumed_by_method: List[int] = []
        self.stub_calls: List[Tuple[str, Any, int, int]] = []
        self.resets: List[Tuple[int, int]] = []
        self.errors: List[Tuple[str, Any]] = []
        self.calls = 0
        self.snap: Dict[int, Any] = {}
        self.applied: List[Any] = []
        self.applied_by: Dict[int, Any] = {}
        self.undone: List[Any] = []
        self.spec_count: Dict[int, int] = {}

    def on_reset(self, m, cur):
        self.resets.append((m, cur))
        # work thrown away by this reset (C16): constructs parsed by callees / tokens taken by the method itself after the mark
        undone_stubs = [(nm, n.nt) for (nm, n, s0, e0) in self.stub_calls if s0 >= m and e0 <= cur and e0 > s0]
        own = [i for i in self.consumed_by_method if m <= i < cur]
        undone_own = len(own)
        for i in set(own):
            self.spec_count[i] = self.spec_count.get(i, 0) + 1
        # tokens taken back are no longer "consumed": a later pass over them counts again
        self.consumed_by_method = [i for i in self.consumed_by_method if not (m <= i < cur)]
        self.undone.append((m, cur, undone_stubs, undone_own))
        for n in self.pre:
            if n.start >= m and isinstance(n, Group):
                n.consumed = False
        self.consumed_marks = {k for k in self.consumed_marks if self.by_id[k].start < m}

    def find_group(self, i, accepts):
        for n in self.pre:
            if n is self.root and self.root_is_self:
                continue
            if n.start != i:
                continue
            if isinstance(n, Group):
                if n.nt in accepts and not n.consumed:
                    return n
            elif isinstance(n, Mark):
                if n.nt in accepts and id(n) not in self.consumed_marks:
                    return n
        return None

    def make_stub(self, name):
        gx = self.gx
        accepts0 = gx.g.accepts.get(name)
        afn = getattr(gx.g, "accepts_fn", {}).get(name)

        def stub(*a, **kw):
            i = self.parser._tokens._index
            accepts = afn(a, kw) if afn else accepts0
            if accepts is None:
                raise StubMismatch(f"{name} has no nonterminal in the reference grammar")
            n = self.find_group(i, accepts)
            chk = getattr(gx.g, "accepts_check", {}).get(name)
            if n is not None and chk and not chk(self, n):
                n = None
            if n is None:
                # an unexpanded marker starting here may contain the construct: expand it
                for m in self.pre:
                    if isinstance(m, Mark) and m.start == i and id(m) not in self.consumed_marks and m.first != "":
                        raise NeedExpand(m)
                for m in self.pre:
                    if isinstance(m, Mark) and m.start == i and m.first is None:
                        raise NeedChoice(m)
                raise StubMismatch(f"{name} entered at token {i} ({self.describe(i)}) where no {sorted(accepts)} construct starts")
            if isinstance(n, Mark):
                if n.first is None and gx.g.nullable[n.nt]:
                    raise NeedChoice(n, blind=True)
                self.consumed_marks.add(id(n))
            else:
                n.consumed = True
            self.check_stack(f"when it calls {name}")
            v = gx.value_of(n)
            if id(n) not in self.snap:
                self.snap[id(n)] = gx.snapshot(v) if not callable(v) else v
            self.stub_calls.append((name, n, n.start, n.end))
            self.events.append(("stub", name))
            self.parser._tokens._index = n.end
            if gx.g.nts[n.nt].args.get("apply"):
                r = gx.resolve_coords(v(*a, **kw), n)
                self.applied.append(r)
                self.applied_by[id(n)] = r
                return r
            return v

        stub.__name__ = name
        return stub

    def check_stack(self, when):
        """Scopes are opened and closed by the lexer's brace callbacks only; no token is lexed in a GX run, so the stack the
        method sees must stay the one it was entered with (C04: a name is entered into the innermost scope as of its token)."""
        if [id(d) for d in self.parser._scope_stack] != self.stack_ids and len(self.stack_moves) < 3:
            self.stack_moves.append(f"the method has changed the scope stack itself {when} "
                                    f"(depth {len(self.parser._scope_stack)}, entered with {len(self.stack_ids)})")

    def describe(self, i):
        t = self.toks[i] if i < len(self.toks) else None
        return "end of input" if t is None else f"{t!r}"

    def execute(self) -> Outcome:
        gx = self.gx
        self.toks, self.nodes, self.n_form = gx.layout(self.root, self.follow)
        self.pre = gx.preorder(self.root)
        self.by_id = {id(n): n for n in self.pre}
        self.consumed_marks = set()
        own = gx.g.nts[self.root.nt].method
        self.root_is_self = (own == self.method)
        p = new_parser(gx)
        p._scope_stack = [dict() for _ in range(getattr(gx, "scope_depth", 1))]
        for t in self.toks:
            if t is not None and not hasattr(t, "mark") and t.type == "TYPEID":
                p._scope_stack[0][t.value] = True
        p._tokens = AStream(self.toks, self)
        self.parser = p
        for name in gx.parse_methods:
            if (name == self.method and name in REAL_RECURSIVE) or name in self.real or name in REAL_HELPERS:
                continue
            if name not in gx.g.accepts and name not in getattr(gx.g, "accepts_fn", {}) and name != self.method:
                continue  # a helper the reference grammar does not know (e.g. newly extracted): it runs for real
            setattr(p, name, self.make_stub(name))
        errs = self.errors

        def parse_error(msg, coord, errs=errs):
            errs.append((msg, coord))
            raise gx.ParseError(f"{coord}: {msg}")
        p._parse_error = parse_error
        # registration sites (C04): log every name entered into the scope stack, then do the real thing
        self.registrations = []
        self.events = []
        for nm, kind in (("_add_identifier", False), ("_add_typedef_name", True)):
            real = getattr(gx.CParser, nm)

            def reg(name, coord, real=real, kind=kind, p=p):
                self.check_stack(f"when it registers {name}")
                self.registrations.append((name, kind))
                self.events.append(("register", name))
                return real(p, name, coord)
            setattr(p, nm, reg)
        self.stack_ids = [id(d) for d in p._scope_stack]
        self.stack_moves = []
        fn = gx.CParser.__dict__[self.method]
        gx.stats["runs"] += 1
        try:
            res = fn(p, *self.args, **self.kwargs)
        except (NeedExpand, NeedChoice, NeedVariant, NeedFollow):
            raise
        except gx.ParseError as e:
            if errs:
                msg, coord = errs[-1]
                if not (isinstance(coord, gx.Coord) or coord == "f.c"):
                    return Outcome("bad-error-location", f"ParseError {msg!r} is located at {coord!r}: neither a coordinate nor the file name", None, self)
            return Outcome("parse-error", str(e), None, self)
        except StubMismatch as e:
            return Outcome("stub-mismatch", str(e), None, self)
        except Refuted as e:
            return Outcome("refuted", str(e), None, self)
        except RecursionError:
            raise
        except Exception as e:  # any other exception type escaping a parse method: C06
            import traceback

            tb = traceback.extract_tb(e.__traceback__)
            where = [f"{f.name}:{f.lineno}" for f in tb if "pycparser" in f.filename]
            return Outcome("exception", f"{type(e).__name__}: {e} at {where[-1] if where else '?'}", None, self)
        self.check_stack("when it returns")
        end = p._tokens._index
        if end != self.n_form:
            return Outcome("consumption", f"consumed {end} of the {self.n_form} tokens of the construct "
                                          f"(stopped at {self.describe(end)})", res, self)
        return Outcome("ok", "", res, self)

    def text(self) -> str:
        out = []
        for t in self.toks[: self.n_form]:
            out.append(f"<{t.mark.nt}:{t.mark.first}>" if hasattr(t, "mark") else t.value)
        return " ".join(out)

    def allowed_coords(self):
        al = set()
        for i in self.consumed_by_method:
            t = self.toks[i]
            al.add(("f.c", t.lineno, t.column))
        for (_, n, _, _) in self.stub_calls:
            for c in self._coords_in(self.gx.value_of(n)):
                al.add(c)
        # coordinates handed in by the caller (base declarator, explicit coord argument) are inside the caller's construct
        for c in self._coords_in(list(self.args0) + list(self.kwargs0.values()) + self.applied):
            al.add(c)
        return al

    def _coords_in(self, v, depth=0):
        gx = self.gx
        if depth > 6:
            return
        if isinstance(v, gx.Coord):
            yield (v.file, v.line, v.column)
        elif isinstance(v, gx.c_ast.Node):
            c = getattr(v, "coord", None)
            if isinstance(c, gx.Coord):
                yield (c.file, c.line, c.column)
            if not isinstance(v, gx.Opaque):
                for s in type(v).__slots__:
                    if s not in ("coord", "__weakref__"):
                        yield from self._coords_in(getattr(v, s), depth + 1)
        elif isinstance(v, (list, tuple)):
            for x in v:
                yield from self._coords_in(x, depth + 1)
        elif isinstance(v, dict):
            for x in v.values():
                yield from self._coords_in(x, depth + 1)


REAL_HELPERS = {"_parse_any_declarator", "_parse_array_decl", "_parse_abstract_array_base", "_parse_error"}
# methods whose self-recursion passes state in arguments (continuation calls): recursion runs for real
REAL_RECURSIVE = {"_parse_binary_expression"}


def explore(gx: GX, method: str, nt: str, prod: Prod, flat, shape, follow, args=(), kwargs=None,
            real=(), on_done=None, budget=4000, on_limit=None):
    """Run `method` on every lazy refinement (first-token choices, marker expansions, result shapes, follow contexts) of one
    flat production.  `follow` is a list of token types, or a list of candidate follow tuples to be chosen lazily
    (only when the code looks beyond the construct).  Calls on_done(outcome) per completed run."""
    import collections

    notes = []
    root = gx.instantiate(prod, flat, shape, 0)
    lazy = bool(follow) and isinstance(follow[0], tuple) or follow == [()]
    cands = list(follow) if lazy else None
    # two queues: structural refinements (marker expansions, and the first candidate of every choice) are explored before
    # the remaining candidates of class / follow / result-shape choices, so that every structure the code can reach is
    # seen with some choice before the budget is spent on enumerating choices of earlier structures
    work = collections.deque([(root, None if lazy else list(follow))])
    later = collections.deque()
    runs = 0
    while work or later:
        tree, fol = work.popleft() if work else later.popleft()
        runs += 1
        if runs > budget:
            notes.append(f"budget of {budget} runs exhausted for {prod.label}")
            break
        fctx = {"follow": fol} if lazy else fol
        run = Run(gx, method, tree, fctx, args, kwargs, real)
        run.follow_used = fol

        first_fork = [True]

        def fork(mutate):
            memo = {}
            t2 = clone_tree(tree, memo)
            mutate(memo)
            (work if first_fork[0] else later).append((t2, fol))
            first_fork[0] = False
        try:
            oc = run.execute()
        except NeedFollow:
            for k, c in enumerate(cands):
                (work if k == 0 else later).append((clone_tree(tree, {}), tuple(c)))
            continue
        except NeedVariant as e:
            m = e.mark
            nvar = len(gx.g.nts[m.nt].value_variants)
            # one non-default result shape per run (each slot is varied in turn)
            # ... and one more of a DIFFERENT nonterminal (e.g. an `_Atomic(int)` specifier list with a pointer declarator)
            nd = [x.nt for x in _walk(tree) if isinstance(x, Mark) and x.variant]
            already = len(nd) >= 2 or m.nt in nd
            for k in range(nvar if not already else 1):
                fork(lambda memo, k=k: setattr(memo[id(m)], "variant", k))
            continue
        except NeedChoice as e:
            m = e.mark
            cs = gx.class_reps(gx.g.first[m.nt])
            if getattr(e, "blind", False):
                cs = cs[:1]
            if gx.g.nullable[m.nt]:
                cs = cs + [""]
            for c in cs:
                fork(lambda memo, c=c: setattr(memo[id(m)], "first", c))
            continue
        except NeedExpand as e:
            m = e.mark
            if m.depth >= gx.MAXDEPTH:
                notes.append(f"expansion depth limit at <{m.nt}> in {prod.label}")
                if on_limit:
                    on_limit(tree, fol)   # the caller may continue with complete derivations run natively (bounded)
                continue
            if m.first is None:
                cs = gx.class_reps(gx.g.first[m.nt])
                for c in cs + ([""] if gx.g.nullable[m.nt] else []):
                    fork(lambda memo, c=c: setattr(memo[id(m)], "first", c))
                continue
            n_exp = 0
            for p2 in gx.g.nts[m.nt].prods:
                for flat2, shape2 in p2.flat_nested:
                    fs, nullable = gx.g.first_of_seq(flat2)
                    if m.first not in fs:
                        continue
                    for grp in _leftmost_variants(gx, p2, flat2, shape2, m.depth, m.first):
                        memo = {}
                        t2 = clone_tree(tree, memo)
                        _replace(t2, memo[id(m)], grp)
                        work.append((t2, fol))
                        n_exp += 1
            if n_exp == 0:
                notes.append(f"<{m.nt}> with first token {m.first} has no expansion")
            continue
        if on_done:
            on_done(oc)
    return runs, notes


def _leftmost_variants(gx, prod, flat, shape, depth, first):
    """All ways to make the construct start with token type `first` (nullable leading symbols may be empty)."""
    out = []

    def rec(i, assigned):
        if i >= len(flat):
            return
        s = flat[i]
        if isinstance(s, T):
            if s.type == first:
                out.append(dict(assigned))
            return
        if first in gx.g.first[s.name]:
            a2 = dict(assigned)
            a2[i] = first
            out.append(a2)
        if gx.g.nullable[s.name]:
            a3 = dict(assigned)
            a3[i] = ""
            rec(i + 1, a3)

    rec(0, {})
    for asg in out:
        grp = gx.instantiate(prod, flat, shape, depth)
        for i, f in asg.items():
            grp.kids[i].first = f
        yield grp


def _replace(root, old, new):
    for n in _walk(root):
        if isinstance(n, Group):
            for i, k in enumerate(n.kids):
                if k is old:
                    n.kids[i] = new
                    return True
    return False


def _walk(n):
    yield n
    if isinstance(n, Group):
        for k in n.kids:
            yield from _walk(k)


# --------------------------------------------------------------------------------------
# may-mode: the real method on ARBITRARY token sequences (C18 bracket discipline, C06 on invalid input)
# --------------------------------------------------------------------------------------
class NeedMore(Exception):
    def __init__(self, i):
        self.i = i


class WildStream:
    """Token stream over a script of token types decided so far; looking beyond it asks the driver for more."""

    def __init__(self, gx, script, run):
        self.gx, self.script, self.run = gx, script, run
        self._index = 0
        self.toks = {}

    def tok(self, i):
        if i >= len(self.script):
            # beyond an end-of-input slot everything is end of input
            if self.script and self.script[-1] is None:
                return None
            raise NeedMore(i)
        ty = self.script[i]
        if ty is None:
            return None
        if i not in self.toks:
            self.toks[i] = self.gx.Token(ty, self.gx.spelling(ty, i), i + 1, i + 1)
        return self.toks[i]

    def peek(self, k=1):
        if k <= 0:
            return None
        for j in range(self._index, self._index + k - 1):
            if self.tok(j) is None:
                raise Refuted("peek(%d) past the end of input (the real stream would raise IndexError)" % k)
        return self.tok(self._index + k - 1)

    def next(self):
        t = self.tok(self._index)
        self.run.owner[self._index] = "self"
        self._index += 1
        return t

    def mark(self):
        return self._index

    def reset(self, m):
        for i in list(self.run.owner):
            if i >= m:
                del self.run.owner[i]
        self._index = m


class MayRun:
    def __init__(self, gx: GX, method, script, args=(), kwargs=None):
        self.gx, self.method, self.script = gx, method, list(script)
        self.args, self.kwargs = args, kwargs or {}
        self.owner: Dict[int, str] = {}
        self.errors = []

    def make_stub(self, name):
        gx = self.gx
        accepts0 = gx.g.accepts.get(name)
        afn = getattr(gx.g, "accepts_fn", {}).get(name)

        def stub(*a, **kw):
            st = self.parser._tokens
            i = st._index
            accepts = afn(a, kw) if afn else accepts0
            if not accepts:
                raise StubMismatch(f"{name} has no nonterminal in the reference grammar")
            t = st.tok(i)
            pre = getattr(gx.g, "entry_pre", {}).get(name)
            if pre is not None and (t is None or t.type not in pre):
                raise Refuted(f"PRECONDITION: {name} is entered on {t.type if t else 'end of input'}, but it takes its first token "
                              f"unchecked and may only be called on {sorted(pre)}")
            first = set().union(*[gx.g.first[n] for n in accepts if n in gx.g.first])
            nullable = any(gx.g.nullable.get(n, False) for n in accepts)
            nt = sorted(accepts)[0]
            if t is not None and t.type in first:
                self.owner[i] = "stub"     # the callee consumes a construct starting here: balanced by its own contract
                st._index = i + 1
                m = Mark(nt, 9000 + i)
                m.first = t.type
                m.start = m.end = i
                m.variant = 0
                v = gx.value_of(m)
            elif nullable:
                m = Mark(nt, 9000 + i)
                m.first = ""
                m.start = m.end = i
                v = gx.value_of(m)
            else:
                self.parser._parse_error("callee %s rejects this token" % name, gx.Coord("f.c", i + 1, i + 1))
            if gx.g.nts[nt].args.get("apply"):
                return v(*a, **kw)
            return v
        return stub

    def execute(self):
        gx = self.gx
        p = new_parser(gx)
        p._scope_stack = [dict()]
        p._tokens = WildStream(gx, self.script, self)
        self.parser = p
        for name in gx.parse_methods:
            if (name == self.method and name in REAL_RECURSIVE) or name in REAL_HELPERS:
                continue
            if name not in gx.g.accepts and name not in getattr(gx.g, "accepts_fn", {}) and name != self.method:
                continue
            setattr(p, name, self.make_stub(name))
        errs = self.errors

        def parse_error(msg, coord):
            errs.append((msg, coord))
            raise gx.ParseError(f"{coord}: {msg}")
        p._parse_error = parse_error
        fn = gx.CParser.__dict__[self.method]
        try:
            fn(p, *self.args, **self.kwargs)
        except NeedMore:
            raise
        except gx.ParseError:
            msg, coord = errs[-1] if errs else ("?", None)
            if not (isinstance(coord, gx.Coord) or coord == "f.c"):
                return "bad-error-location", f"ParseError {msg!r} located at {coord!r} (neither a coordinate nor the file name)"
            return "parse-error", ""
        except (StubMismatch, Refuted) as e:
            if str(e).startswith("PRECONDITION"):
                return "unbalanced", str(e)
            return "cut", str(e)
        except RecursionError:
            return "cut", "recursion"
        except Exception as e:  # noqa
            import traceback

            tb = traceback.extract_tb(e.__traceback__)
            where = [f"{f.name}:{f.lineno}" for f in tb if "pycparser" in f.filename]
            return "exception", f"{type(e).__name__}: {e} at {where[-1] if where else '?'}"
        end = p._tokens._index
        stack = []
        pairs = {"RPAREN": "LPAREN", "RBRACKET": "LBRACKET", "RBRACE": "LBRACE"}
        for i in range(end):
            if self.owner.get(i) != "self":
                continue
            ty = self.script[i] if i < len(self.script) else None
            if ty == "PPHASH":
                return "unbalanced", "a '#' directive token is consumed by a production that returns normally"
            if ty in pairs.values():
                stack.append(ty)
            elif ty in pairs:
                if not stack or stack[-1] != pairs[ty]:
                    return "unbalanced", f"closer {ty} at token {i} does not match an opener consumed by the same invocation"
                stack.pop()
        if stack:
            return "unbalanced", f"opener(s) {stack} consumed by the invocation are never closed by it"
        return "ok", ""

    def text(self):
        return " ".join("<eof>" if t is None else (self.gx.spelling(t, i) + ("…" if self.owner.get(i) == "stub" else ""))
                        for i, t in enumerate(self.script))


def explore_may(gx: GX, method: str, args=(), kwargs=None, budget=3000, maxlen=9):
    """Breadth-first over all token-type scripts the method can distinguish.  Returns (runs, outcomes Counter, findings, notes)."""
    import collections

    types = set(gx.token_types)
    reps = gx.may_reps(method)
    pre = getattr(gx.g, "entry_pre", {}).get(method)
    work = collections.deque([[]] if pre is None else [[t] for t in sorted(pre)])
    runs = 0
    counts = collections.Counter()
    findings = []
    notes = []
    while work:
        script = work.popleft()
        runs += 1
        if runs > budget:
            notes.append(f"budget of {budget} runs exhausted")
            break
        run = MayRun(gx, method, script, args, kwargs)
        try:
            kind, detail = run.execute()
        except NeedMore:
            if len(script) >= maxlen:
                counts["cut-length"] += 1
                continue
            for t in reps + [None]:
                work.append(script + [t])
            continue
        counts[kind] += 1
        if kind in ("unbalanced", "exception", "bad-error-location"):
            findings.append((kind, detail, run.text(), list(script)))
    return runs, counts, findings, notes
