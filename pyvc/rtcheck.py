"""Run-time evaluation of a sidecar contract on the real function -- the BOUNDED stand-in used when a function has left the
subset the SMT engine translates (new data structures, library calls the encoding does not model, ...).

The real function object is wrapped in place (class attribute / module global of the imported repository module); the
repository's own entry points are then driven over a fixed corpus (C texts with linemarkers, pragmas, errors, re-used
parser objects; generated text; node traversals).  At every call of the wrapped function the `requires` clauses are
evaluated on the arguments (a call that does not meet them is not checked), the `old(...)` sub-terms of the `ensures`
clauses are evaluated in the pre-state, the real function runs, and each `ensures` clause is evaluated on the post-state.
A clause that evaluates to False is a refutation with a concrete call (replayable); clauses that mention ghost functions,
call counters or anything else without a run-time meaning are skipped and listed.  Frame clauses (`modifies`) and
exceptional postconditions are not evaluated.  Never counted as proof.
"""
from __future__ import annotations

import ast
import copy
import inspect
import time
from typing import Any, Dict, List, Optional, Tuple

from . import core


class Skip(Exception):
    pass


CORPUS = [
    "int x;", "", "  \n\t\n", "typedef int T; T t; T *f(T a, int T);",
    "# 1 \"a.h\"\nint x;\n# 1 \"b.h\"\nint y;\n# 1 \"a.h\" 2\nint z;\n",
    "#line 7 \"k.c\"\nvoid f(void) { if (x) y;\n# 1 \"other.h\"\n z; }\n",
    "# 3\nint a;\n#line 3\nint b;\n# 3 \"c.h\"\nint c;\n",
    "#pragma once\nint x;\n#pragma omp parallel for\nvoid g(void) { _Pragma(\"foo\") ; }\n#pragma",
    "void f(int a, char *b) { int c = a + 1 * 2 - (3, 4); c <<= 2; return c ? a : *b; }",
    "struct S { int a : 3; unsigned : 0; struct { int b; }; union { int c; float d; } u; } s = { .a = 1, .u = { .c = 2 } };",
    "enum E { A, B = 2, C } e; int arr[3] = { [1] = 2, 3 };",
    "void f(void) { switch (x) { case 1: a(); case 2: case 3: b(); break; default: c(); } for (int i = 0; i < 3; i++) continue; while (1) break; do x--; while (x); goto L; L: ; }",
    "int (*fp)(int, char **); int (*arr[3])(void); void (*signal(int, void (*)(int)))(int);",
    "void f(void) { x = (int)y; z = sizeof(int); w = sizeof x; v = (struct S){1, 2}.a; p = &q[2]->m.n; r = i++ + --j; }",
    "_Static_assert(1, \"m\"); _Alignas(8) int al; _Atomic(int) at; int * _Atomic ap; _Noreturn void nr(void); _Thread_local int tl;",
    "char *s = \"a\" \"b\"; char c = 'x'; int m = 'ab'; double d = 1.5e3f; long l = 0x1FUL; int o = 017, b = 0b11;",
    "wchar_t *w = L\"w\" L\"x\"; char *u = u8\"u\";",
    "int f(a, b) int a; char b; { return a; }",
    "typedef struct T1 { int x; } T1, *P1; T1 v1; P1 v2; void g(void) { T1 T1; int P1; { typedef char P1; P1 c; } }",
    "int x = 1 +;", "int f( { }", "@", "int a = 08;", "char c = '';", "char *s = \"\\q\";", "void f(void) { } }", "#include <x.h>\nint x;",
    "int x; /* c */", "struct { int", "void f(void) { return 1 +* ; }", "x = ;", "int 3a;",
    "void f(void) { a ? b, c : d; a = b = c; a || b && c | d ^ e & f == g < h << i + j * k; (a, b); }",
    "int a[static 3]; void g(int a[static 3], int b[const *], int c[restrict 2], int d[]);",
    "int a; \f int b;", "int c; \r\n int d;", "\v", "int e;\n   \n\t\n  int f;\n \n@", "#pragma\tomp parallel\nint g;\n#pragma  x  \nint h;",
    "typedef int T; void f(void) { { typedef char T; T c; } T x; T * y; (T)(z); sizeof(T); } T w;",
    "typedef int T; void f(void) { int T; { typedef char T; T *x; } T * 2; } int n; void g(void) { typedef int n; n q; }",
    "void f(void) { goto\n   L; L:\n ; return\n 1; }", "a ? b : c ? d : e;", "void f(void) { a ? b : c ? d : e; p++->m; q++[0]; }",
    "# " + "1" * 30 + "\nint x;",
    "int a = 08 + 09; char c = '' + ''; @ @ ` `", "\"\\q\" \"\\q\"", "// x // y\n/* a */ /* b */",
    "# pragma a\n#\tpragma b c\n#   pragma\nint k;\n  #  pragma d  \n", "#  line 5 \"g.h\"\n#\t7\nint m;",
    "int x % 3;", "\"%d %s\" y;", "int a[3] %= 2;", "x = 100%;",
    # every punctuator
    "void f(int n, ...) { a = !b != ~c % d & e && (f) * g + h++, i - j-- - --k . l / m ? n : o; p < q << r <= s <<= t; u > v >> w >= x >>= y; "
    "z == aa ^ ab | ac || ad; ae *= af; ag /= ah; ai %= aj; ak += al; am -= an; ao &= ap; aq ^= ar; as |= at; au->av[aw] = ++ax; }",
    "int x = 1 $ 2;", "int y = a ` b;", "int z = \\ 3;", "# define X\nint q;", "#\n", "# \"f.c\"\n", "#line\n", "#line x\n", "#pragma\n#pragma   \n#pragma a b c\n",
    "void f(void) { int i, *p = &i, a[2] = {1, 2}; for (;;) { } if (a) ; else if (b) { } else c; }",
]


def _inline_predicates(tree: ast.AST, PRED) -> ast.AST:
    class Inl(ast.NodeTransformer):
        def visit_Call(self, node):
            self.generic_visit(node)
            if isinstance(node.func, ast.Name) and node.func.id in PRED:
                params, body = PRED[node.func.id]
                btree = ast.parse(body, mode="eval").body
                sub = dict(zip(params, node.args))

                class Sub(ast.NodeTransformer):
                    def visit_Name(self, n):
                        return copy.deepcopy(sub[n.id]) if n.id in sub else n
                return Inl().visit(Sub().visit(btree))
            return node
    return Inl().visit(tree)


class _Lower(ast.NodeTransformer):
    """implies/iff/ite/forall -> lazy python; old(e) -> pre-state slots; spec functions -> helpers."""

    def __init__(self, olds: List[ast.AST]):
        self.olds = olds

    def visit_Call(self, node):
        if isinstance(node.func, ast.Name) and node.func.id == "old":
            self.olds.append(node.args[0])
            return ast.Call(ast.Name("__oldget", ast.Load()), [ast.Name("__old", ast.Load()), ast.Constant(len(self.olds) - 1)], [])
        self.generic_visit(node)
        f = node.func
        if isinstance(f, ast.Name):
            a = node.args
            if f.id == "implies":
                return ast.BoolOp(ast.Or(), [ast.UnaryOp(ast.Not(), a[0]), a[1]])
            if f.id == "iff":
                return ast.Compare(ast.Call(ast.Name("bool", ast.Load()), [a[0]], []), [ast.Eq()], [ast.Call(ast.Name("bool", ast.Load()), [a[1]], [])])
            if f.id == "ite":
                return ast.IfExp(a[0], a[1], a[2])
            if f.id == "forall":
                return ast.Call(ast.Name("__forall", ast.Load()), [a[0]], [])
        return node


def _helpers():
    def same(a, b):
        return a is b or (type(a) is type(b) and isinstance(a, (int, str, bool, float, type(None))) and a == b)

    def isinst(x, name):
        return any(c.__name__ == name for c in type(x).__mro__)

    def forall(fn):
        for j in range(-2, 260):
            try:
                if not fn(j):
                    return False
            except (IndexError, KeyError):
                continue
        return True

    def skip(*a, **k):
        raise Skip("no run-time meaning")

    def char_at(s, i):
        return s[i] if 0 <= i < len(s) else ""
    env = dict(__oldget=_oldget, same=same, isinst=isinst, __forall=forall, elems=lambda x: x, has=lambda d, k: k in d, get=lambda d, k: d[k],
               fresh_obj=lambda x: True, allocated=lambda x: True, strlen=len, char_at=char_at, substr=lambda s, a, b: s[a:b],
               truthy=bool, int_of=int, typeis=lambda x, n: type(x).__name__ == n, trigger=lambda *a: True,
               exists_in=skip)
    return env


class Compiled:
    def __init__(self, text: str, PRED, ghost_names):
        self.text = text
        tree = ast.parse(text, mode="eval")
        tree = _inline_predicates(tree, PRED)
        self.skip_reason = None
        for n in ast.walk(tree):
            if isinstance(n, ast.Call) and isinstance(n.func, ast.Name) and n.func.id in ghost_names:
                self.skip_reason = f"ghost function {n.func.id}"
        self.olds: List[ast.AST] = []
        body = _Lower(self.olds).visit(tree.body)
        expr = ast.Expression(body)
        ast.fix_missing_locations(expr)
        self.code = compile(expr, "<contract>", "eval")
        self.old_codes = []
        for o in self.olds:
            e = ast.Expression(_Lower([]).visit(copy.deepcopy(o)))
            ast.fix_missing_locations(e)
            self.old_codes.append(compile(e, "<old>", "eval"))


_NORETURN = object()   # result slot of a callback call that has not (or never) returned


class _OldErr:
    def __init__(self, e):
        self.e = e


def _oldget(olds, k):
    v = olds[k]
    if isinstance(v, _OldErr):
        raise Skip(f"old() term not evaluable in the pre-state: {v.e!r}")
    return v


def _olds(codes, env):
    out = []
    for oc in codes:
        try:
            out.append(_snap(eval(oc, env)))
        except Exception as e:  # evaluated lazily: only an error if the clause really needs the value
            out.append(_OldErr(e))
    return out


def _snap(v):
    if isinstance(v, list):
        return list(v)
    if isinstance(v, dict):
        return dict(v)
    return v


class Monitor:
    def __init__(self, con, qual: str):
        from .smt import PREDICATES, CONTRACTS, SPEC_CONSTS
        self.con, self.qual = con, qual
        ghosts = set()
        self.impl: Dict[str, str] = {}
        for c in CONTRACTS.values():
            self.impl.update(getattr(c, "ghost_impl", {}) or {})
        for c in CONTRACTS.values():
            for g in c.ghost:
                if g[0] not in self.impl:
                    ghosts.add(g[0])
        self.env0 = dict(_helpers())
        self.env0.update(SPEC_CONSTS)
        self.req = [Compiled(t, PREDICATES, ghosts) for t in con.requires]
        self.ens = [Compiled(t, PREDICATES, ghosts) for t in con.ensures]
        # exceptional postconditions: {exception class name: clauses that hold whenever it is raised}
        self.exc = {k: [Compiled(t, PREDICATES, ghosts) for t in v] for k, v in (con.ensures_exc or {}).items()}
        self.calls = 0
        self.checked = 0
        # call counters (absolute): methods named in ncalls('Class.method') are wrapped in place, callbacks 'cb.name' are the
        # instance attribute `name` of self, wrapped for the duration of each monitored call
        import re as _re
        alltext = " ".join(con.requires + con.ensures + [t for v in (con.ensures_exc or {}).values() for t in v])
        self.counted = sorted(set(_re.findall(r"(?:ncalls|callarg|callres)\('([^']+)'", alltext)) | {n for n, _ in (con.calls or [])})
        self.counters: Dict[str, List[Any]] = {n: [] for n in self.counted}   # name -> list of (args, result)
        self._wrapped_methods: List[Tuple[Any, str, Any]] = []
        # contract views: callbacks the view assumes never to return (use={"cb.x": "cb.x#raises"}); a call during which such
        # a callback DID return normally is outside the view and is not checked
        self.raising_cbs = sorted(k for k, v in (con.use or {}).items() if k.startswith("cb.") and v.endswith("#raises"))
        if con.name.endswith("#raises"):
            self.raising_cbs = sorted(set(self.raising_cbs) | {"cb.error_func"})
        for k in self.raising_cbs:
            if k not in self.counters:
                self.counted.append(k)
                self.counters[k] = []
        self.stats: Dict[str, List[int]] = {c.text: [0, 0, 0] for c in self.ens}   # pass, fail, skipped
        for k, cs in self.exc.items():
            for c in cs:
                self.stats[f"raises {k} => {c.text}"] = [0, 0, 0]
        self.failures: List[Tuple[str, str, int]] = []
        self.current_input: Tuple[int, str] = (-1, "")
        self.depth = 0

    def install(self):
        modname = self.con.file[:-3].replace("/", ".")
        mod = core.repo_import(modname)
        target = self.con.variant_of or self.qual
        parts = target.split(".")
        owner = mod
        for p in parts[:-1]:
            owner = getattr(owner, p)
        self.owner, self.attr = owner, parts[-1]
        raw = owner.__dict__[self.attr] if isinstance(owner, type) else getattr(owner, self.attr)
        self.kind = "plain"
        fn = raw
        if isinstance(raw, staticmethod):
            self.kind, fn = "static", raw.__func__
        elif isinstance(raw, classmethod):
            self.kind, fn = "class", raw.__func__
        self.orig_raw, self.fn = raw, fn
        self.sig = inspect.signature(fn)
        mon = self

        def wrapper(*a, **k):
            return mon.call(a, k)
        wrapper.__name__ = getattr(fn, "__name__", "wrapped")
        w: Any = wrapper
        if self.kind == "static":
            w = staticmethod(wrapper)
        setattr(owner, self.attr, w)
        self._count_methods(mod)

    def uninstall(self):
        setattr(self.owner, self.attr, self.orig_raw)
        for owner, attr, raw in self._wrapped_methods:
            setattr(owner, attr, raw)
        self._wrapped_methods = []

    def _count_methods(self, mod):
        for name in self.counted:
            if name.startswith("cb."):
                continue
            parts = name.split(".")
            owner = mod
            try:
                for p_ in parts[:-1]:
                    owner = getattr(owner, p_)
                raw = owner.__dict__[parts[-1]] if isinstance(owner, type) else getattr(owner, parts[-1])
            except Exception:
                continue
            if isinstance(raw, (staticmethod, classmethod)):
                continue
            log = self.counters[name]

            def w(*a, __raw=raw, __log=log, **k):
                r = __raw(*a, **k)
                __log.append((a[1:], r))
                return r
            setattr(owner, parts[-1], w)
            self._wrapped_methods.append((owner, parts[-1], raw))

    def _wrap_callbacks(self, selfobj):
        """Wrap the callback attributes of `selfobj` named by cb.* counters; returns an undo function."""
        undo = []
        for name in self.counted:
            if not name.startswith("cb."):
                continue
            attr = name[3:]
            try:
                raw = getattr(selfobj, attr)
            except Exception:
                continue
            log = self.counters[name]

            def w(*a, __raw=raw, __log=log, **k):
                __log.append((a, _NORETURN))
                r = __raw(*a, **k)
                __log[-1] = (a, r)
                return r
            try:
                object.__setattr__(selfobj, attr, w)
                undo.append((attr, raw))
            except Exception:
                pass

        def restore():
            for attr, raw in undo:
                try:
                    object.__setattr__(selfobj, attr, raw)
                except Exception:
                    pass
        return restore

    def call(self, a, k):
        self.calls += 1
        try:
            ba = self.sig.bind(*a, **k)
            ba.apply_defaults()
            env = dict(self.env0)
            env.update(ba.arguments)
            cn = self.counters
            env["ncalls"] = lambda nm: len(cn[nm])
            env["callarg"] = lambda nm, back, i: cn[nm][len(cn[nm]) - 1 - back][0][i]
            env["callres"] = lambda nm, back: cn[nm][len(cn[nm]) - 1 - back][1]
            for gname, gsrc in self.impl.items():
                try:
                    env[gname] = eval(gsrc, env)
                except Exception:
                    pass
        except TypeError:
            return self.fn(*a, **k)
        ok = True
        for c in self.req:
            if c.skip_reason:
                continue
            try:
                if not eval(c.code, env):
                    ok = False
                    break
            except Exception:
                ok = False
                break
        olds: Dict[str, Any] = {}
        if ok:
            for c in self.ens:
                if c.skip_reason:
                    continue
                olds[c.text] = _olds(c.old_codes, env)
        exc_olds: Dict[str, Any] = {}
        if ok:
            for cs in self.exc.values():
                for c in cs:
                    if c.skip_reason:
                        continue
                    exc_olds[c.text] = _olds(c.old_codes, env)
        restore = self._wrap_callbacks(ba.arguments.get("self")) if "self" in ba.arguments else (lambda: None)
        marks = {n: len(v) for n, v in self.counters.items()}
        expected_calls = None
        if ok and self.con.calls is not None:
            try:
                expected_calls = [(n, [eval(compile(ast.Expression(ast.parse(x, mode="eval").body), "<calls>", "eval"), env) for x in xs])
                                  for n, xs in self.con.calls]
            except Exception:
                expected_calls = None
        try:
            try:
                res = self.fn(*a, **k)
            finally:
                restore()
        except Exception as ex:
            if ok and self.con.raises and not ({"CallbackError", "*"} & set(self.con.raises)):
                # the contract lists every exception class the function may raise
                names = {k.__name__ for k in type(ex).__mro__}
                if not (names & set(self.con.raises)):
                    key = "raises only " + ", ".join(self.con.raises)
                    st = self.stats.setdefault(key, [0, 0, 0])
                    st[1] += 1
                    if len(self.failures) < 5:
                        self.failures.append((key + f" (raised {type(ex).__name__}: {ex})", self.current_input[1], self.current_input[0]))
                        self.stats.setdefault(self.failures[-1][0], [0, 1, 0])
            if ok:
                for c in self.exc.get(type(ex).__name__, []):
                    key = f"raises {type(ex).__name__} => {c.text}"
                    st = self.stats[key]
                    if c.skip_reason or exc_olds.get(c.text) is None:
                        st[2] += 1
                        continue
                    env["__old"] = exc_olds[c.text]
                    env["exc_msg"] = str(ex)
                    try:
                        v = eval(c.code, env)
                    except Exception:
                        st[2] += 1
                        continue
                    if v:
                        st[0] += 1
                    else:
                        st[1] += 1
                        if len(self.failures) < 5:
                            self.failures.append((key, self.current_input[1], self.current_input[0]))
            raise
        if not ok:
            return res
        if any(any(r is not _NORETURN for _, r in self.counters[k][marks[k]:]) for k in self.raising_cbs):
            return res   # an assumed-raising callback returned: this call is outside the contract view
        self.checked += 1
        env["result"] = res
        if expected_calls is not None:
            key = "callbacks made == " + repr(self.con.calls)
            st = self.stats.setdefault(key, [0, 0, 0])
            got = []
            for n in self.counted:
                if n.startswith("cb."):
                    got += [(n, list(args)) for args, _ in self.counters[n][marks[n]:]]
            same_calls = len(got) == len(expected_calls) and all(g[0] == e[0] and list(g[1]) == list(e[1]) for g, e in zip(got, expected_calls))
            if same_calls:
                st[0] += 1
            else:
                st[1] += 1
                if len(self.failures) < 5:
                    self.failures.append((key, self.current_input[1], self.current_input[0]))
        for c in self.ens:
            st = self.stats[c.text]
            if c.skip_reason or olds.get(c.text) is None:
                st[2] += 1
                continue
            env["__old"] = olds[c.text]
            try:
                v = eval(c.code, env)
            except Skip:
                st[2] += 1
                continue
            except Exception:
                st[2] += 1
                continue
            if v:
                st[0] += 1
            else:
                st[1] += 1
                if len(self.failures) < 5:
                    self.failures.append((c.text, self.current_input[1], self.current_input[0]))
        return res


def drive(mon: Optional[Monitor], only: Optional[int] = None):
    """Run the repository's entry points over the corpus (the wrapped function is reached through them)."""
    f = (mon.con.file or "") if mon else ""
    want_gen = not f.endswith(("c_lexer.py", "c_parser.py", "ast_transforms.py"))
    want_walk = f.endswith("c_ast.py") or not f
    P = core.repo_import("pycparser.c_parser")
    G = core.repo_import("pycparser.c_generator")
    reused = P.CParser()
    Lx = core.repo_import("pycparser.c_lexer")
    for i, text in enumerate(CORPUS):
        if only is not None and i != only:
            continue
        # the lexer on its own, with an error callback that RETURNS (so that error paths complete normally)
        if mon:
            mon.current_input = (i, text)
        try:
            lx = Lx.CLexer(lambda m, l, c: None, lambda: None, lambda: None, lambda nm: nm.startswith("T"))
            lx.input(text, "lex%d.c" % i)
            for _ in range(4 * len(text) + 8):
                if lx.token() is None:
                    break
        except Exception:
            pass
        for parser in (P.CParser(), reused):
            if mon:
                mon.current_input = (i, text)
            try:
                tree = parser.parse(text, "in%d.c" % i)
            except P.ParseError:
                continue
            except Exception:
                continue
            try:
                if want_gen:
                    for flag in (False, True):
                        G.CGenerator(reduce_parentheses=flag).visit(tree)
                if want_walk or want_gen:
                    stack = [tree]
                    while stack:
                        n = stack.pop()
                        kids = [c for _, c in n.children()]
                        list(iter(n))
                        stack += kids
            except Exception:
                pass


def _lead(why: str) -> str:
    if why.startswith(("cross-check", "ASSUMED")):
        return why
    return f"function outside the SMT subset ({why})"


def runtime_check(con, qual: str, prefix: str, why: str) -> List[core.Ob]:
    """Obligations from a run-time evaluation of the contract of `qual` (bounded)."""
    t0 = time.time()
    if con.body_slice is not None or con.file is None:
        return []
    try:
        mon = Monitor(con, qual)
        mon.install()
    except Exception as e:
        return [core.Ob(f"{prefix}/{qual}/translate", core.UNDECIDED, "z3", 0.0,
                        f"outside the supported subset ({why}); the run-time contract monitor could not be installed: {type(e).__name__}: {e}", functions=[qual])]
    try:
        drive(mon)
    finally:
        mon.uninstall()
    dt = time.time() - t0
    evaluated = {t: s for t, s in mon.stats.items() if s[0] + s[1] > 0}
    skipped = [t for t, s in mon.stats.items() if s[0] + s[1] == 0]
    if mon.checked == 0 or not evaluated:
        return [core.Ob(f"{prefix}/{qual}/translate", core.UNDECIDED, "z3", dt,
                        f"outside the supported subset ({why}); run-time contract check reached the function {mon.calls} times, "
                        f"{mon.checked} with its precondition met, and could evaluate {len(evaluated)} ensures clauses", functions=[qual])]
    obs = []
    if mon.failures:
        text, inp, idx = mon.failures[0]
        keys = list(mon.stats)
        k = keys.index(text)
        rep = ("import os, sys\ntry:\n    import z3  # noqa\nexcept ImportError:\n"
               "    os.execv('/opt/veriftools/pyvenv/bin/python', ['/opt/veriftools/pyvenv/bin/python'] + sys.argv)\n"
               f"sys.path.insert(0, {core.VERIF!r})\nfrom pyvc import rtcheck\n"
               f"sys.exit(rtcheck.replay({qual!r}, {k}, {idx}))\n")
        obs.append(core.Ob(f"{prefix}/{qual}/runtime-contract/post/{k}", core.REFUTED, "runtime", dt,
                           f"{_lead(why)}; its contract was evaluated at run time on the real function.\n"
                           f"clause `{text}` is FALSE at a call made while parsing corpus input #{idx}: {inp!r}\n"
                           f"({sum(s[1] for s in mon.stats.values())} failing evaluations in {mon.checked} checked calls)",
                           replay=rep, functions=[qual], sample=inp))
    else:
        obs.append(core.Ob(f"{prefix}/{qual}/runtime-contract", core.DISCHARGED, "runtime", dt,
                           f"BOUNDED: {_lead(why)}; contract evaluated at run time on {mon.checked} calls reached from "
                           f"{len(CORPUS)} corpus inputs: {len(evaluated)} ensures clauses held on every call; not evaluated (ghost / counters / "
                           f"unsupported): {len(skipped)}", functions=[qual], bounded=True, sample=f"{mon.checked} calls"))
    return obs


def replay(qual: str, k: int, idx: int) -> int:
    import importlib
    from .smt import CONTRACTS
    from . import smt
    for m in ("contracts.tokenstream", "contracts.parser_core", "contracts.c_ast_gen", "contracts.visitor", "contracts.lexer", "contracts.expr"):
        try:
            importlib.import_module(m)
        except Exception:
            pass
    smt.load_repo_classes()
    con = CONTRACTS[qual]
    mon = Monitor(con, qual)
    mon.install()
    try:
        drive(mon, only=idx)
    finally:
        mon.uninstall()
    text = list(mon.stats)[k]
    st = mon.stats[text]
    print(f"real {qual} wrapped with its contract; corpus input #{idx}: {CORPUS[idx]!r}")
    print(f"ensures clause `{text}`: held {st[0]} times, FAILED {st[1]} times, not evaluable {st[2]} times")
    print("REPRODUCED" if st[1] else "NOT-REPRODUCED")
    return 1 if st[1] else 0
